"""Build REAL hypergraph objects from program descriptions (the same JSON the Lean driver reads).

Only the public API is used: Graph, FunctionNode, route, ifelse, interrupt, as_node, with_inputs,
with_outputs, map_over, bind, select, with_entrypoint.
Generated node functions record every invocation in a shared call log.
"""
from __future__ import annotations

import asyncio
import warnings

import random
from typing import Any

from . import common

common.use_repo()

from hypergraph import END, FunctionNode, Graph, ifelse, interrupt, route  # noqa: E402
from hypergraph.nodes.base import _EMIT_SENTINEL  # noqa: E402


class UserErr(Exception):
    """Exception raised by generated node functions; one pre-created object per tag."""

    def __init__(self, tag: str):
        super().__init__(tag)
        self.tag = tag


class FalsyUserErr(UserErr):
    """A user exception whose truth value is False (exception classes that define __len__ / __bool__ exist in the wild)."""

    def __len__(self) -> int:
        return 0


class UnprintableUserErr(UserErr):
    """A user exception whose __str__ itself raises (it formats a field that is missing, say)."""

    def __str__(self) -> str:
        raise RuntimeError("this exception cannot be printed")


def _helper_two_args(a: Any, b: Any) -> Any:
    return (a, b)


class Env:
    """Instrumentation shared by the generated functions of one case."""

    def __init__(self) -> None:
        self.log: list[tuple[str, dict]] = []
        self.errs: dict[str, UserErr] = {}
        self.causes: dict[str, BaseException] = {}
        self.park = None  # async hook: `await park(fnid)` inside async bodies
        self.inflight = 0
        self.max_inflight = 0
        self.received: list[tuple[str, str, int]] = []  # (fnid, param, id(obj)) when identity tracking is on
        self.track_identity = False
        self.funcs: dict[str, Any] = {}
        self.nodes: dict[str, Any] = {}      # function-node OBJECTS built so far (for nodes derived from an earlier, already used object)
        self.late_renames = False
        self.exercise_intermediates = True
        self.bases: dict[int, Any] = {}
        self.reseed: int | None = None       # user code that re-seeds the GLOBAL random generator inside every node body ("reproducible sampling")
        self.trace: list | None = None       # start/finish trace shared with the controllable loop (sync bodies record themselves)

    def err(self, tag: str) -> UserErr:
        if tag not in self.errs and tag.startswith("T"):
            # an ordinary bug inside the node body: a helper called with an argument missing — a builtin TypeError whose message talks of
            # "positional argument", exactly what a mis-called NODE function would produce
            try:
                _helper_two_args(1)  # type: ignore[call-arg]
            except TypeError as e:
                e.__traceback__ = None
                self.errs[tag] = e  # type: ignore[assignment]
        if tag not in self.errs and tag.startswith("C"):
            # `raise High(...) from low`: the exception carries an explicit cause, which belongs to it wherever it surfaces
            e2 = UserErr(tag)
            e2.__cause__ = UserErr("cause-of:" + tag)
            self.causes[tag] = e2.__cause__
            self.errs[tag] = e2
        if tag not in self.errs:
            self.errs[tag] = FalsyUserErr(tag) if tag.startswith("Z") else (UnprintableUserErr(tag) if tag.startswith("S") else UserErr(tag))
        return self.errs[tag]


# ---------------------------------------------------------------- values

def py_val(j: Any) -> Any:
    """JSON value encoding -> Python value."""
    if j is None or isinstance(j, (bool, int, str)):
        return j
    if isinstance(j, dict):
        if "t" in j:
            return tuple(py_val(x) for x in j["t"])
        if "l" in j:
            return [py_val(x) for x in j["l"]]
        if "s" in j:
            return _EMIT_SENTINEL
        # containers outside the Lean value universe (Python-side families only)
        if "d" in j:
            return {py_val(k): py_val(v) for k, v in j["d"]}
        if "S" in j:
            return {py_val(x) for x in j["S"]}
        if "F" in j:
            return frozenset(py_val(x) for x in j["F"])
        if "plain" in j:
            return Plain(j["plain"])
        if "anyeq" in j:
            return AlwaysEq(j["anyeq"])
        if "box" in j:
            return LazyBox(py_val(j["box"]))
        if "badeq" in j:
            return BadEq(j["badeq"])
        if "f" in j:
            return float(j["f"])        # an integral float (exact): loop states far from the unit scale
    raise ValueError(f"bad value encoding: {j!r}")


class Plain:
    """An object without value semantics: default (address-bearing) repr, identity equality; `n` tells two of them apart for the oracle."""

    def __init__(self, n: Any) -> None:
        self.n = n

    def __reduce__(self) -> tuple:
        return (Plain, (self.n,))


class AlwaysEq:
    """A value that compares EQUAL to everything (`unittest.mock.ANY`, wildcard matchers): still a value like any other."""

    def __init__(self, n: Any) -> None:
        self.n = n

    def __eq__(self, other: Any) -> bool:
        return True

    def __ne__(self, other: Any) -> bool:
        return False

    def __hash__(self) -> int:
        return 0

    def __repr__(self) -> str:
        return f"AlwaysEq({self.n!r})"


class BadEq:
    """A value whose comparison RAISES (a handle that refuses to be compared, a lazily-connected proxy): RuntimeError, not the TypeError /
    ValueError that array-likes raise."""

    def __init__(self, n: Any) -> None:
        self.n = n

    def __eq__(self, other: Any) -> bool:
        raise RuntimeError("this handle cannot be compared")

    def __ne__(self, other: Any) -> bool:
        raise RuntimeError("this handle cannot be compared")

    def __hash__(self) -> int:
        return hash(("BadEq", self.n))

    def __repr__(self) -> str:
        return f"BadEq({self.n!r})"


class LazyBox:
    """A VALUE that happens to be awaitable (a lazy handle, a future-like result object): a plain function returning it produced this
    object, not what awaiting it would give."""

    def __init__(self, v: Any) -> None:
        self.v = v

    def __await__(self) -> Any:
        return self.v
        yield  # pragma: no cover - makes __await__ a generator function

    def __eq__(self, other: Any) -> bool:
        return type(other) is LazyBox and other.v == self.v

    def __hash__(self) -> int:
        return hash(("LazyBox", self.v))

    def __repr__(self) -> str:
        return f"LazyBox({self.v!r})"


def enc_val(v: Any, _depth: int = 0) -> Any:
    """Python value -> canonical JSON value encoding (the inverse of py_val)."""
    if _depth > 60:
        return {"other": "nested-beyond-60-levels"}      # a runaway (self-feeding) value: reported, not followed
    if type(v) is LazyBox:
        return {"box": enc_val(v.v, _depth + 1)}
    if type(v) is AlwaysEq:
        return {"anyeq": v.n}
    if type(v) is BadEq:
        return {"badeq": v.n}
    if v is None or isinstance(v, (bool, int, str)):
        return v
    if v is _EMIT_SENTINEL:
        return {"s": 1}
    if v is END:
        return "__END__"
    if isinstance(v, tuple):
        return {"t": [enc_val(x, _depth + 1) for x in v]}
    if isinstance(v, list):
        return {"l": [enc_val(x, _depth + 1) for x in v]}
    if isinstance(v, UserErr):
        return {"err": v.tag}
    if type(v) is Plain:
        return {"plain": v.n}
    if type(v) is float and v.is_integer():
        return {"f": int(v)}
    if type(v) is dict:
        return {"d": sorted(([enc_val(k, _depth + 1), enc_val(x, _depth + 1)] for k, x in v.items()), key=repr)}
    if type(v) in (set, frozenset):
        return {"S" if type(v) is set else "F": sorted((enc_val(x, _depth + 1) for x in v), key=repr)}
    return {"other": type(v).__name__}


def py_target(t: str) -> Any:
    return END if t == "__END__" else t


def py_dec(d: Any) -> Any:
    if d is None:
        return None
    if isinstance(d, str):
        return py_target(d)
    return [py_target(t) for t in d]


# ---------------------------------------------------------------- functions

def _body_lines(body: dict, params: list[str], env_name: str = "_E") -> list[str]:
    b = body["b"]
    args = ", ".join(params)
    tup = f"({args},)" if params else "()"
    first = params[0] if params else "None"
    ints = f"sum(_x for _x in {tup} if type(_x) is int)"
    if b == "tag":
        return [f"return ({body['t']!r},) + {tup}"]
    if b == "multi":
        return [f"return tuple(({body['t']!r}, _i) + {tup} for _i in range({body['k']}))"]
    if b == "const":
        return [f"return _V({body['v']!r})"]
    if b == "sum":
        return [f"return {body['k']} + {ints}"]
    if b == "first":
        return [f"return {first}"]
    if b == "inc":
        return [f"return {first} + {body['k']}"]      # whatever the number type (Python side only)
    if b == "append":
        if len(params) >= 2:
            return [f"if isinstance({params[0]}, list): return list({params[0]}) + [{params[1]}]", f"return list({tup})"]
        return [f"return list({tup})"]
    if b == "lt":
        return [f"return (type({first}) is int and {first} < {body['k']})" if params else "return False"]
    if b == "ltNum":
        return [f"return {first} < {body['k']}"]      # whatever the number type (Python side only)
    if b == "table":
        rows = {int(r[0]): r[1] for r in reversed(body["rows"])}
        return [
            f"_rows = {rows!r}",
            f"_d = _rows.get({first}, {body['dflt']!r}) if type({first}) is int else {body['dflt']!r}" if params else f"_d = {body['dflt']!r}",
            "return _D(_d)",
        ]
    if b == "tableKept":
        # a routing function that answers with ONE list object it keeps and rewrites on every call (Python side only)
        rows = {int(r[0]): r[1] for r in reversed(body["rows"])}
        return [
            f"_rows = {rows!r}",
            f"_d = _rows.get({first}, {body['dflt']!r}) if type({first}) is int else {body['dflt']!r}",
            "_KEPT.clear()",
            "_KEPT.extend(_D(_d))",
            "return _KEPT",
        ]
    if b == "fail":
        return [f"raise {env_name}.err({body['t']!r})"]
    if b == "failIf":
        lines = []
        if params:
            lines.append(f"if type({first}) is int and {first} == {body['k']}: raise {env_name}.err({body['t']!r})")
        lines.append(f"return ({body['t']!r},) + {tup}")
        return lines
    if b == "failGe":
        lines = []
        if params:
            lines.append(f"if type({first}) is int and {first} >= {body['k']}: raise {env_name}.err({body['t']!r} + str({first}))")
        lines.append(f"return ({body['t']!r},) + {tup}")
        return lines
    if b == "gen":
        # a GENERATOR function (sync or async, as the node is): the node's value is the list of what it yields; its body runs while
        # the runner drains it (Python side only)
        return [f"yield ({body['t']!r}, {j}) + {tup}" for j in range(int(body.get("k", 2)))]
    if b == "lazy":
        return [f"return _LazyBox(({body['t']!r},) + {tup})"]       # a plain function whose VALUE is an awaitable object (Python side only)
    if b == "genexp":
        return [f"return (_i for _i in range({int(body['k'])}))"]       # a plain function returning a generator OBJECT
    if b == "strAttr":
        # two such bodies differ ONLY in the attribute name they call (identical bytecode, different name table)
        assert body["m"] in ("upper", "lower", "title", "swapcase")
        return [f"return ({body['t']!r}, str({first}).{body['m']}())"]
    if b == "mutAppend":
        # an impure consumer: grows the list it RECEIVED in place (Python side only)
        return [f"if isinstance({first}, list): {first}.append({body['k']!r})", f"return ({body['t']!r}, len({first}) if isinstance({first}, list) else -1)"]
    if b == "lam":
        # the constant lives in a NESTED code object (a lambda), not in the function's own constants (Python side only)
        return [f"return ({body['t']!r}, (lambda _y: (_y, {int(body['k'])}))({first}))"]
    if b == "closure":
        # factory-made function: `_c` is a variable captured from the enclosing factory call (Python side only)
        return [f"return ({body['t']!r}, _c, _d) + {tup}"]
    if b == "nonBool":
        return ["return 1"]
    if b == "wrongArity":
        return [f"return tuple(({body['t']!r}, _i) for _i in range({body['k']}))"]
    if b == "handlerDict":
        # the handler answers a multi-output interrupt with ONE dict object that it keeps (a module-level constant): `_RESP` (Python side only)
        return ["return _RESP"]
    if b == "handler":
        if body.get("k") is None:
            return ["return None"]
        return [f"return {body['k']} + {ints}"]
    raise ValueError(f"unknown body {b}")


def make_function(spec: dict, fnid: str, env: Env, *, is_async: bool) -> Any:
    """Compile one node description into a real Python function with a real signature."""
    params = [p[0] for p in spec.get("params", [])]
    sig_parts = []
    defaults: dict[str, Any] = {}
    seen_default = False
    star = False
    for name, d in spec.get("params", []):
        if d is None:
            if seen_default and not star:
                sig_parts.append("*")  # a required parameter after a defaulted one must be keyword-only
                star = True
            sig_parts.append(name)
        else:
            seen_default = True
            defaults[name] = py_val(d["d"])
            sig_parts.append(f"{name}=_DEF[{name!r}]")
    kw = "{" + ", ".join(f"{p!r}: {p}" for p in params) + "}"
    body = _body_lines(spec["body"], params)
    fname = "_node_fn"      # the node's own name may be an illegal identifier in flaw-injection cases
    lines = [f"{'async ' if is_async else ''}def {fname}({', '.join(sig_parts)}):"]
    lines.append(f"    _E.log.append(({fnid!r}, {kw}))")
    lines.append("    if _E.reseed is not None: _random.seed(_E.reseed)")
    if is_async:
        lines.append("    _E.inflight += 1")
        lines.append("    _E.max_inflight = max(_E.max_inflight, _E.inflight)")
        lines.append("    try:")
        lines.append(f"        if _E.park is not None: await _E.park({fnid!r})")
        lines.extend("        " + ln for ln in body)
        lines.append("    finally:")
        lines.append("        _E.inflight -= 1")
    else:
        # a synchronous body also counts as executing while it runs (it cannot be suspended, but others may be suspended around it)
        lines.append("    _E.inflight += 1")
        lines.append("    _E.max_inflight = max(_E.max_inflight, _E.inflight)")
        lines.append(f"    if _E.trace is not None: _E.trace.append(('start', {fnid!r}))")
        lines.append("    try:")
        lines.extend("        " + ln for ln in body)
        lines.append("    finally:")
        lines.append(f"        if _E.trace is not None: _E.trace.append(('finish', {fnid!r}))")
        lines.append("        _E.inflight -= 1")
    glob = {"_E": env, "_DEF": defaults, "_V": py_val, "_D": py_dec, "_LazyBox": LazyBox, "_random": random}
    if spec["body"]["b"] == "tableKept":
        glob["_KEPT"] = []
    if spec["body"]["b"] == "handlerDict":
        # "distinct": the i-th DECLARED output answers k + i (so that it is visible which declared output a published value came from)
        glob["_RESP"] = {o: spec["body"].get("k", 1) + (i if spec["body"].get("distinct") else 0) for i, o in enumerate(spec.get("dataOuts", []))}
    if spec["body"]["b"] == "closure":
        # def _factory(_c): <the function> ; return it — the text of two such functions is IDENTICAL whatever was captured, and it is
        # retrievable (registered with linecache), as for a function made by a factory defined in a file
        import hashlib
        import linecache

        lines = ["def _factory(_c, _d):"] + ["    " + ln for ln in lines] + [f"    return {fname}", f"{fname} = _factory(_CAPTURED, _CAPTURED2)", ""]
        src = "\n".join(lines)
        glob["_CAPTURED"] = py_val(spec["body"]["c"])
        glob["_CAPTURED2"] = py_val(spec["body"].get("c2"))
        glob["__name__"] = "verif_generated"
        file = f"/verif-generated/closure_{hashlib.sha1(src.encode()).hexdigest()[:12]}.py"
        linecache.cache[file] = (len(src), None, src.splitlines(True), file)
        exec(compile(src, file, "exec"), glob)  # noqa: S102 - generated from a closed body language
    else:
        src = "\n".join(lines)
        exec(src, glob)  # noqa: S102 - generated from a closed body language
    fn = glob[fname]
    fn.__name__ = spec["name"]
    fn.__qualname__ = spec["name"]
    ann = spec.get("ann")
    if ann:
        from .type_universe import decode

        fn.__annotations__ = {k: decode(v) for k, v in ann.items()}      # parameter names and "return"
    return fn


def _tuple_or_none(names: list[str]) -> Any:
    if not names:
        return None
    return tuple(names)


def _exercise(n: Any, env: Env, run: bool = False) -> None:
    """Use an intermediate node object the way user code may before deriving from it (read-only public API)."""
    if not env.exercise_intermediates:
        return
    try:
        _ = (n.inputs, n.outputs, n.definition_hash)
        n.map_inputs_to_params({})
        for p in n.inputs:
            n.has_default_for(p)
        g = Graph([n], name="warmup")
        _ = g.inputs
        if run:
            mc = getattr(n, "map_config", None)
            mapped = set(mc[0]) if mc else set()
            saved = (env.log, env.park, env.inflight, env.max_inflight, env.received)
            env.log, env.park, env.received = [], None, []
            try:
                from hypergraph import AsyncRunner, SyncRunner
                from hypergraph.cache import InMemoryCache

                vals = {k: ([0] if k in mapped else 0) for k in g.inputs.required}
                with warnings.catch_warnings():
                    warnings.simplefilter("ignore")
                    try:
                        SyncRunner(cache=InMemoryCache()).run(g, vals, error_handling="continue", max_iterations=4)
                    except (Exception, asyncio.CancelledError):  # noqa: BLE001 - e.g. coroutine functions: use the async runner
                        try:
                            asyncio.get_running_loop()
                        except RuntimeError:
                            asyncio.run(AsyncRunner(cache=InMemoryCache()).run(g, vals, error_handling="continue", max_iterations=4))
            finally:
                env.log, env.park, env.inflight, env.max_inflight, env.received = saved
    except (Exception, asyncio.CancelledError):  # noqa: BLE001 - only a warm-up
        pass


def _detour(gn: Any, env: Env, what: str) -> Any:
    """A longer rename HISTORY with the same net effect: the first input / output is renamed away to a temporary name, the wrapper is
    used, and the name is renamed back (a name that returns to an earlier holder: stale keys in every rename map)."""
    names = list(gn.inputs if what == "inputs" else gn.outputs)
    cur = names[0]
    tmp = f"zz_tmp_{cur}"
    if tmp in gn.inputs or tmp in gn.outputs:
        return gn
    ren = gn.with_inputs if what == "inputs" else gn.with_outputs
    try:
        away = ren({cur: tmp})
        _exercise(away, env, run=True)
        back = (away.with_inputs if what == "inputs" else away.with_outputs)({tmp: cur})
        if list(back.inputs) != list(gn.inputs) or list(back.outputs) != list(gn.outputs):
            return gn
        _exercise(back, env, run=True)
        return back
    except (Exception, asyncio.CancelledError):  # noqa: BLE001 - a rename the library rejects is simply not part of the history
        return gn


def build_node(spec: dict, gi: int, graphs: list[Any], env: Env, *, async_bodies: bool) -> Any:
    kind = spec["kind"]
    fnid = f"{gi}:{spec['name']}"
    in_ren = dict(spec.get("inRen", [])) or None
    emits = _tuple_or_none(spec.get("emits", []))
    wait_for = _tuple_or_none(spec.get("waitFor", []))
    if kind == "fn" and spec.get("deriveOutputsFrom"):
        # the node is DERIVED (with_outputs) from a node object built — and possibly run, cached — earlier in this case
        base = env.nodes[f"{gi}:{spec['deriveOutputsFrom']}"]
        return base.with_outputs({a: b for a, b in zip(base.outputs, spec["dataOuts"]) if a != b})
    if kind == "fn":
        if spec.get("sameFuncAs"):
            func = env.funcs[f"{gi}:{spec['sameFuncAs']}"]      # two nodes over ONE function object
        else:
            func = make_function(spec, fnid, env, is_async=async_bodies and not spec.get("syncBody"))
            env.funcs[fnid] = func
        if env.late_renames and in_ren:
            # the node object is used first (defaults read, placed in a graph) and renamed afterwards
            base = FunctionNode(func, name=spec["name"], output_name=_tuple_or_none(spec.get("dataOuts", [])), cache=spec.get("cache", False),
                                emit=emits, wait_for=wait_for)
            _ = base.defaults
            try:
                Graph([base], name="warmup")
            except (Exception, asyncio.CancelledError):  # noqa: BLE001 - only a warm-up
                pass
            return base.with_inputs(in_ren)
        node = FunctionNode(
            func,
            name=spec["name"],
            output_name=_tuple_or_none(spec.get("dataOuts", [])),
            rename_inputs=in_ren,
            cache=spec.get("cache", False),
            hide=bool(spec.get("hide", False)),
            emit=emits,
            wait_for=wait_for,
        )
        if spec.get("renameEmits") and emits:
            # the node is DECLARED with other signal names and renamed (with_outputs) to the names the program uses: the same node as one
            # declared with those names
            first = FunctionNode(func, name=spec["name"], output_name=_tuple_or_none(spec.get("dataOuts", [])), rename_inputs=in_ren, cache=spec.get("cache", False),
                                 hide=bool(spec.get("hide", False)), emit=tuple(f"{e}_declared" for e in spec["emits"]), wait_for=wait_for)
            node = first.with_outputs({f"{e}_declared": e for e in spec["emits"]})
        env.nodes[fnid] = node
        return node
    if kind == "route":
        func = make_function(spec, fnid, env, is_async=False)
        fb = spec.get("fallback")
        return route(
            targets=[py_target(t) for t in spec["targets"]],
            fallback=py_target(fb) if fb is not None else None,
            multi_target=spec.get("multiTarget", False),
            cache=spec.get("cache", False),
            default_open=spec.get("defaultOpen", True),
            name=spec["name"],
            rename_inputs=in_ren,
            emit=emits,
            wait_for=wait_for,
        )(func)
    if kind == "ifelse":
        func = make_function(spec, fnid, env, is_async=False)
        t, f = spec["targets"]
        return ifelse(
            when_true=py_target(t),
            when_false=py_target(f),
            cache=spec.get("cache", False),
            default_open=spec.get("defaultOpen", True),
            name=spec["name"],
            rename_inputs=in_ren,
            emit=emits,
            wait_for=wait_for,
        )(func)
    if kind == "interrupt":
        func = make_function(spec, fnid, env, is_async=bool(spec.get("asyncHandler")) and async_bodies)
        outs = spec.get("dataOuts", [])
        return interrupt(
            output_name=outs[0] if len(outs) == 1 else tuple(outs),
            rename_inputs=in_ren,
            cache=spec.get("cache", False),
            emit=emits,
            wait_for=wait_for,
        )(func)
    if kind == "graph":
        # every intermediate object of the derivation chain is USED (placed in a graph, queried) before the next derivation, as user code
        # that keeps and reuses intermediate wrappers does; derived objects must not inherit anything stale from that use
        if spec.get("nameVia") == "with_name":
            gn = graphs[spec["inner"]].as_node().with_name(spec["name"])      # the name given AFTER wrapping
        else:
            gn = graphs[spec["inner"]].as_node(name=spec["name"])
        if in_ren:
            _exercise(gn, env, run=True)
            gn = gn.with_inputs(in_ren)
        if env.exercise_intermediates and gn.inputs:
            gn = _detour(gn, env, "inputs")
        out_ren = dict(spec.get("outRen", []))
        if out_ren:
            _exercise(gn, env, run=True)
            gn = gn.with_outputs(out_ren)
        if env.exercise_intermediates and gn.outputs:
            gn = _detour(gn, env, "outputs")
        if spec.get("mapOver"):
            _exercise(gn, env)
            if env.exercise_intermediates:
                # the wrapper is first configured to map over OTHER parameters and used, then re-configured: the later
                # configuration must win completely
                other = [p for p in gn.inputs if p not in spec["mapOver"]][:1] or list(spec["mapOver"])[:1]
                try:
                    pre = gn.map_over(*other, mode="zip")
                    _exercise(pre, env, run=True)
                    gn = pre
                except (Exception, asyncio.CancelledError):  # noqa: BLE001 - only a warm-up
                    pass
            gn = gn.map_over(*spec["mapOver"], mode=spec.get("mapMode", "zip"), error_handling=spec.get("errMode", "raise"))
        return gn
    raise ValueError(f"unknown kind {kind}")


def build_graph(gspec: dict, gi: int, graphs: list[Any], env: Env, *, async_bodies: bool) -> Any:
    nodes = [build_node(ns, gi, graphs, env, async_bodies=async_bodies) for ns in gspec["nodes"]]
    kwargs: dict[str, Any] = {}
    if gspec.get("edges") is not None:
        kwargs["edges"] = [tuple(e[:2]) if len(e) == 2 else (e[0], e[1], e[2]) for e in gspec["edges"]]
    if gspec.get("strict"):
        kwargs["strict_types"] = True
    g = Graph(nodes, name=gspec.get("name") or f"g{gi}", **kwargs)
    # as for nodes: each intermediate graph of the derivation chain is used (queried, run) before the next derivation
    bound = {k: py_val(v) for k, v in gspec.get("bound", [])}
    if bound:
        _exercise_graph(g, env, async_bodies)
        g = g.bind(**bound)
    if gspec.get("selected") is not None:
        _exercise_graph(g, env, async_bodies)
        g = g.select(*gspec["selected"])
    if gspec.get("entrypoints") is not None:
        _exercise_graph(g, env, async_bodies)
        env.bases[gi] = g                      # the object the entry-point graph was derived from (siblings can be derived from it)
        g = g.with_entrypoint(*gspec["entrypoints"])
    return g


def _exercise_graph(g: Any, env: Env, async_bodies: bool) -> None:
    """Query and run an intermediate graph object (instrumentation muted) before something is derived from it."""
    if not env.exercise_intermediates:
        return
    import asyncio
    import warnings

    from hypergraph import AsyncRunner, SyncRunner

    saved = (env.log, env.park, env.inflight, env.max_inflight, env.received)
    env.log, env.park, env.received = [], None, []
    try:
        _ = (g.inputs, g.definition_hash)
        try:
            g.to_flat_graph()           # drawing / flattening an intermediate graph must leave nothing behind for graphs derived from it
        except Exception:  # noqa: BLE001 - only a warm-up
            pass
        vals = {k: 0 for k in g.inputs.required}
        with warnings.catch_warnings():
            warnings.simplefilter("ignore")
            if async_bodies:
                try:
                    asyncio.get_running_loop()
                except RuntimeError:
                    asyncio.run(AsyncRunner().run(g, vals, error_handling="continue", max_iterations=4))
            else:
                SyncRunner().run(g, vals, error_handling="continue", max_iterations=4)
    except (Exception, asyncio.CancelledError):  # noqa: BLE001 - only a warm-up
        pass
    finally:
        env.log, env.park, env.inflight, env.max_inflight, env.received = saved


def build_program(program: list[dict], env: Env, *, async_bodies: bool = False) -> list[Any]:
    """Build every graph of a program (dependency order); returns the list of real Graph objects."""
    graphs: list[Any] = []
    for gi, gspec in enumerate(program):
        graphs.append(build_graph(gspec, gi, graphs, env, async_bodies=async_bodies))
    return graphs
