"""Run the REAL implementation on a case and canonicalise what the public API shows."""
from __future__ import annotations

import asyncio
import warnings
from typing import Any

from . import build, common
from .build import Env, UserErr, enc_val, py_val

common.use_repo()

from hypergraph import AsyncRunner, SyncRunner  # noqa: E402
from hypergraph.events import AsyncEventProcessor, EventProcessor  # noqa: E402
from hypergraph.exceptions import InfiniteLoopError, MissingInputError  # noqa: E402


def canon_error(e: BaseException | None, env: Env | None = None) -> Any:
    if e is None:
        return None
    if env is not None and not isinstance(e, UserErr):
        for tag, obj in env.errs.items():
            if obj is e:
                return "user:" + tag      # a builtin exception object raised by a node body (an ordinary bug in it), surfaced as itself
    if isinstance(e, UserErr):
        if env is not None and env.errs.get(e.tag) is not e:
            return "user-copy:" + e.tag  # not the very object the node raised
        if env is not None and e.tag in env.causes and e.__cause__ is not env.causes[e.tag]:
            return "user-lost-cause:" + e.tag  # the very object, but stripped of the cause its node gave it (`raise ... from low`)
        return "user:" + e.tag
    if isinstance(e, InfiniteLoopError):
        return "InfiniteLoopError"
    if isinstance(e, MissingInputError):
        return "MissingInputError"
    if isinstance(e, RuntimeError) and e.__cause__ is not None:
        return "wrapped:" + str(canon_error(e.__cause__, env))
    for cls in (TypeError, KeyError, ValueError):
        if type(e) is cls:
            return cls.__name__
    return "other:" + type(e).__name__


class Recorder(EventProcessor):
    """Healthy processor: records every event and every shutdown."""

    def __init__(self) -> None:
        self.events: list[Any] = []
        self.shutdowns = 0

    def on_event(self, event: Any) -> None:
        self.events.append(event)

    def shutdown(self) -> None:
        self.shutdowns += 1
        self.events.append("shutdown")


class YieldingRecorder(AsyncEventProcessor):
    """Healthy async processor whose delivery really suspends (as one that does I/O would): other tasks run during every delivery."""

    def __init__(self) -> None:
        self.events: list[Any] = []
        self.shutdowns = 0

    def on_event(self, event: Any) -> None:
        self.events.append(event)

    async def on_event_async(self, event: Any) -> None:
        await asyncio.sleep(0)
        self.events.append(event)
        await asyncio.sleep(0)

    def shutdown(self) -> None:
        self.shutdowns += 1
        self.events.append("shutdown")

    async def shutdown_async(self) -> None:
        await asyncio.sleep(0)
        self.shutdown()


class SyncMethodsAsyncRecorder(AsyncEventProcessor):
    """An AsyncEventProcessor subclass that implements ONLY the sync methods (the documented fallback must deliver to them)."""

    def __init__(self) -> None:
        self.events: list[Any] = []
        self.shutdowns = 0

    def on_event(self, event: Any) -> None:
        self.events.append(event)

    def shutdown(self) -> None:
        self.shutdowns += 1
        self.events.append("shutdown")


_KEPT: dict[str, Any] = {}


def _recorder(record_events: bool, yielding: Any, runner: str) -> Any:
    if not record_events:
        return None
    if yielding == "kept":
        # ONE processor object kept by the user across top-level calls (a progress bar, a trace collector in a notebook): every call delivers
        # its own complete stream to it and shuts it down once
        if "rec" not in _KEPT:
            _KEPT["rec"] = Recorder()
        return _KEPT["rec"]
    if runner == "async" and yielding == "syncmethods":
        return SyncMethodsAsyncRecorder()
    if runner == "async" and yielding:
        return YieldingRecorder()
    return Recorder()


def canon_event(ev: Any) -> dict:
    if ev == "shutdown":
        return {"shutdown": 1}
    kind = type(ev).__name__.removesuffix("Event")
    name = getattr(ev, "node_name", None) or getattr(ev, "graph_name", "")
    info = ""
    if kind == "RunStart":
        name = ev.graph_name
        info = f"map:{ev.map_size}" if ev.is_map else ""
    elif kind == "RunEnd":
        name = ev.graph_name
        st = ev.status
        info = str(getattr(st, "value", st))
    elif kind == "RouteDecision":
        d = ev.decision
        info = "[" + ", ".join(_dec_str(x) for x in d) + "]" if isinstance(d, list) else _dec_str(d)
    elif kind == "NodeEnd":
        info = "cached" if ev.cached else ""
    return {"ev": kind, "span": ev.span_id, "parent": ev.parent_span_id, "name": name, "info": info}


def _dec_str(d: Any) -> str:
    from hypergraph import END

    if d is END or d == "END":
        return "END"
    if d is None:
        return "None"
    return str(d)


def canon_result(result: Any, env: Env) -> dict:
    """RunResult -> canonical dict (same shape the driver prints)."""
    pause = None
    if result.pause is not None:
        p = result.pause
        pause = {
            "node": p.node_name,
            "outputParam": p.output_param,
            "value": enc_val(p.value),
            "outputParams": list(p.output_params) if p.output_params is not None else None,
            "values": [[k, enc_val(v)] for k, v in p.values.items()] if p.values is not None else None,
            "responseKey": p.response_key,
            "responseKeys": sorted([k, v] for k, v in p.response_keys.items()),
        }
    return {
        "status": str(getattr(result.status, "value", result.status)).lower(),
        "values": [[k, enc_val(v)] for k, v in result.values.items()],
        "error": canon_error(result.error, env),
        "raised": False,
        "pause": pause,
    }


# One runner object of each kind serves EVERY case of a check process that does not bring its own cache (a runner is meant to be
# long-lived: whatever it keeps between runs — executors, limiters, memo tables — must not leak from one graph or event loop into
# the next). VERIF_FRESH_RUNNERS=1 restores a fresh runner per run.
_SHARED: dict[str, Any] = {}


def _runner(kind: str, cache: Any = None) -> Any:
    import os

    cls = SyncRunner if kind == "sync" else AsyncRunner
    if cache is not None or os.environ.get("VERIF_FRESH_RUNNERS") == "1":
        return cls(cache=cache) if cache is not None else cls()
    if kind not in _SHARED:
        _SHARED[kind] = cls()
    return _SHARED[kind]


def run_case(
    program: list[dict],
    root: int | None = None,
    values: list | None = None,
    cfg: dict | None = None,
    runner: str = "sync",
    *,
    processors: list | None = None,
    record_events: bool = False,
    max_concurrency: int | None = None,
    entrypoint: str | None = None,
    loop_factory: Any = None,
    async_bodies: bool | None = None,
    env: Env | None = None,
    graphs: list | None = None,
    cache: Any = None,
    ctl: Any = None,
    late_renames: bool = False,
    yielding_recorder: bool = False,
    prelude: Any = None,
    warn_mode: str = "always",
) -> dict:
    """Build the program with real hypergraph objects, run it, return the canonical observation.

    `warn_mode="error"`: the process treats warnings as errors (python -W error), as test suites and strict deployments do.

    `prelude` (async runner only): a zero-argument coroutine function awaited in the SAME task just before the run (its outcome is ignored)."""
    cfg = cfg or {}
    env = env or Env()
    env.late_renames = env.late_renames or late_renames
    if async_bodies is None:
        async_bodies = runner == "async"
    if graphs is None:
        try:
            graphs = build.build_program(program, env, async_bodies=async_bodies)
        except Exception as e:  # construction of a generated program failed
            return {"status": "build-error", "values": [], "error": canon_error(e, env), "raised": True, "pause": None,
                    "warnings": 0, "calls": [], "detail": f"{type(e).__name__}: {e}"[:300]}
    g = graphs[root if root is not None else len(graphs) - 1]
    vals = {k: py_val(v) for k, v in (values or [])}
    kwargs: dict[str, Any] = {}
    sel = cfg.get("select")
    if sel is not None:
        # callers also pass a tuple (graph.selected is one): same meaning as the list
        kwargs["select"] = tuple(sel) if cfg.get("selectAsTuple") and isinstance(sel, list) else sel
        if cfg.get("selectAsSet") and isinstance(sel, list) and len(sel) == 1:
            kwargs["select"] = set(sel)          # (one name only: a set has no order to compare results by)
        if cfg.get("selectAs") == "keys" and isinstance(sel, list):
            kwargs["select"] = dict.fromkeys(sel).keys()
        elif cfg.get("selectAs") == "gen" and isinstance(sel, list):
            kwargs["select"] = (nm for nm in list(sel))
    if "onMissing" in cfg:
        kwargs["on_missing"] = cfg["onMissing"]
    if "errMode" in cfg:
        kwargs["error_handling"] = cfg["errMode"]
    if "maxIter" in cfg:
        kwargs["max_iterations"] = cfg["maxIter"]
    if "onInternal" in cfg:
        kwargs["on_internal_override"] = cfg["onInternal"]      # the policy for caller-supplied values of names the graph produces itself
    if entrypoint is not None:
        kwargs["entrypoint"] = entrypoint
    rec = _recorder(record_events, yielding_recorder, runner)
    rec_from, rec_sd = (len(rec.events), rec.shutdowns) if rec is not None else (0, 0)
    procs = list(processors or [])
    if rec is not None:
        procs.append(rec)
    if procs:
        kwargs["event_processors"] = procs
    start_log = len(env.log)
    obs: dict[str, Any]
    with warnings.catch_warnings(record=True) as wlist:
        warnings.simplefilter(warn_mode)
        try:
            if runner == "sync":
                result = _runner("sync", cache).run(g, vals, **kwargs)
            else:
                if max_concurrency is not None:
                    kwargs["max_concurrency"] = max_concurrency
                if ctl is not None:
                    from . import sched

                    env.park = ctl.park
                    env.trace = ctl.trace
                    try:
                        result = sched.run_controlled(lambda: _after(prelude, lambda: _runner("async", cache).run(g, vals, **kwargs)), ctl)
                    finally:
                        env.park = None
                        env.trace = None
                    coro = None
                else:
                    coro = _after(prelude, lambda: _runner("async", cache).run(g, vals, **kwargs))
                if coro is None:
                    pass
                elif loop_factory is not None:
                    loop = loop_factory()
                    try:
                        result = loop.run_until_complete(coro)
                    finally:
                        loop.close()
                else:
                    result = asyncio.run(coro)
            obs = canon_result(result, env)
        except Exception as e:  # raised out of run()
            obs = {"status": "failed", "values": [], "error": canon_error(e, env), "raised": True, "pause": None}
        except asyncio.CancelledError as e:  # a BaseException escaping run(): an observation, not a harness failure
            obs = {"status": "failed", "values": [], "error": "base:" + type(e).__name__, "raised": True, "pause": None}
    obs["warnings"] = sum(1 for w in (wlist or []) if "Requested outputs not found" in str(w.message))
    obs["missing_warnings"] = sorted(str(w.message).split(". Available")[0] for w in (wlist or []) if "Requested outputs not found" in str(w.message))
    obs["calls"] = [[fid, [[k, enc_val(v)] for k, v in kw.items()]] for fid, kw in env.log[start_log:]]
    if rec is not None:
        obs["events"] = [canon_event(e) for e in rec.events[rec_from:]]
        obs["shutdowns"] = rec.shutdowns - rec_sd
    return obs


async def _after(prelude: Any, main: Any) -> Any:
    if prelude is not None:
        try:
            await prelude()
        except Exception:  # noqa: BLE001 - the earlier run's outcome is irrelevant
            pass
    return await main()


def prior_run(kind: str, max_concurrency: int) -> Any:
    """An earlier top-level async run in the same task that ends abnormally: a node fails (raise / continue) or an interrupt pauses."""
    env = Env()
    nodes = [{"name": "pa", "kind": "fn", "params": [["px", None]], "dataOuts": ["pv"], "body": {"b": "tag", "t": "pa"}}]
    if kind == "pause":
        nodes.append({"name": "pask", "kind": "interrupt", "params": [["pv", None]], "dataOuts": ["pans"], "body": {"b": "handler", "k": None}})
    else:
        nodes.append({"name": "pb", "kind": "fn", "params": [["pv", None]], "dataOuts": ["pw"], "body": {"b": "fail", "t": "E_prior"}})
    if kind.startswith("map-"):
        # an earlier map() in the same task that ends EARLY: over zero items, over lists of unequal length (refused), or in continue mode with
        # a broadcast input missing for every item — whatever limit it was given is gone when it returns
        g = build.build_program([{"name": "prior", "nodes": [{"name": "pm", "kind": "fn", "params": [["px", None], ["py", None]], "dataOuts": ["pv"],
                                                              "body": {"b": "tag", "t": "pm"}}], "bound": []}], env, async_bodies=False)[-1]
        if kind == "map-empty":
            return lambda: AsyncRunner().map(g, {"px": [], "py": 1}, map_over="px", max_concurrency=max_concurrency)
        if kind == "map-zip-mismatch":
            return lambda: AsyncRunner().map(g, {"px": [1, 2], "py": [1]}, map_over=["px", "py"], max_concurrency=max_concurrency)
        return lambda: AsyncRunner().map(g, {"px": [1, 2]}, map_over="px", max_concurrency=max_concurrency, error_handling="continue")
    g = build.build_program([{"name": "prior", "nodes": nodes, "bound": []}], env, async_bodies=False)[-1]
    kw: dict[str, Any] = {"max_concurrency": max_concurrency}
    if kind == "fail-continue":
        kw["error_handling"] = "continue"
    return lambda: AsyncRunner().run(g, {"px": 1}, **kw)


# ---------------------------------------------------------------- model side helpers

def model_obs(resp: dict) -> dict:
    """Driver response -> the same canonical shape as run_case."""
    calls = [[x["call"], x["args"]] for x in resp["log"] if "call" in x]
    events = [x for x in resp["log"] if "ev" in x or "shutdown" in x]
    return {
        "status": resp["status"],
        "values": resp["values"],
        "error": resp["error"],
        "raised": resp["raised"],
        "pause": resp["pause"],
        "warnings": resp["warnings"],
        "calls": calls,
        "events": events,
        "shutdowns": sum(1 for x in resp["log"] if "shutdown" in x),
    }


def differ(a: Any, b: Any) -> bool:
    """Strict structural inequality of canonical observations: Python's == conflates True with 1 (and False with 0)."""
    import json

    return json.dumps(a, sort_keys=True, default=str) != json.dumps(b, sort_keys=True, default=str)


def ordinalise(events: list[dict]) -> list[dict]:
    """Replace span ids by ordinals of first appearance (ids are random on one side, paths on the other)."""
    ids: dict[Any, int] = {}

    def o(x: Any) -> Any:
        if x is None:
            return None
        if x not in ids:
            ids[x] = len(ids)
        return ids[x]

    out = []
    for e in events:
        if "shutdown" in e:
            out.append({"shutdown": 1})
            continue
        out.append({"ev": e["ev"], "parent": o(e["parent"]) if e["parent"] is not None else None, "span": o(e["span"]), "name": e["name"], "info": e["info"]})
    return out


def sort_calls(calls: list) -> list:
    import json

    return sorted(calls, key=lambda c: json.dumps(c, sort_keys=True))


def map_case(
    program: list[dict],
    values: list,
    map_over: list[str],
    mode: str = "zip",
    map_err: str = "raise",
    cfg: dict | None = None,
    runner: str = "sync",
    *,
    max_concurrency: int | None = None,
    ctl: Any = None,
    record_events: bool = False,
    env: Env | None = None,
    yielding_recorder: bool = False,
    prelude: Any = None,
) -> dict:
    """runner.map(...) on the real implementation; canonical observation."""
    cfg = cfg or {}
    env = env or Env()
    try:
        graphs = build.build_program(program, env, async_bodies=(runner == "async"))
    except Exception as e:
        return {"status": "build-error", "detail": f"{type(e).__name__}: {e}"[:300], "results": [], "raised": None, "calls": []}
    g = graphs[-1]
    vals = {k: py_val(v) for k, v in values}
    kwargs: dict[str, Any] = {"map_over": map_over, "map_mode": mode, "error_handling": map_err}
    if cfg.get("select") is not None:
        kwargs["select"] = cfg["select"]
    if "onMissing" in cfg:
        kwargs["on_missing"] = cfg["onMissing"]
    rec = _recorder(record_events, yielding_recorder, runner)
    rec_from, rec_sd = (len(rec.events), rec.shutdowns) if rec is not None else (0, 0)
    if rec is not None:
        kwargs["event_processors"] = [rec]
    obs: dict[str, Any] = {"status": "ok"}
    with warnings.catch_warnings(record=True) as wlist:
        warnings.simplefilter("always")
        try:
            if runner == "sync":
                results = _runner("sync").map(g, vals, **kwargs)
            else:
                if max_concurrency is not None:
                    kwargs["max_concurrency"] = max_concurrency
                if ctl is not None:
                    from . import sched

                    env.park = ctl.park
                    env.trace = ctl.trace
                    try:
                        results = sched.run_controlled(lambda: _after(prelude, lambda: _runner("async").map(g, vals, **kwargs)), ctl)
                    finally:
                        env.park = None
                        env.trace = None
                else:
                    results = asyncio.run(_after(prelude, lambda: _runner("async").map(g, vals, **kwargs)))
            obs["results"] = [canon_result(r, env) for r in results]
            obs["raised"] = None
        except Exception as e:
            obs["results"] = []
            obs["raised"] = canon_error(e, env)
        except asyncio.CancelledError as e:
            obs["results"] = []
            obs["raised"] = "base:" + type(e).__name__
    obs["missing_warnings"] = sorted(str(w.message).split(". Available")[0] for w in (wlist or []) if "Requested outputs not found" in str(w.message))
    obs["calls"] = [[fid, [[k, enc_val(v)] for k, v in kw.items()]] for fid, kw in env.log]
    if rec is not None:
        obs["events"] = [canon_event(e) for e in rec.events[rec_from:]]
        obs["shutdowns"] = rec.shutdowns - rec_sd
    return obs
