"""C13 — observers cannot alter execution."""
from __future__ import annotations

import asyncio
import copy
import random
import warnings
from typing import Any, Iterable

from .. import build, common, gen, impl
from ..build import Env, enc_val, py_val
from ..engine import Prop, canonical_hash

common.use_repo()
from hypergraph import AsyncRunner, SyncRunner  # noqa: E402
from hypergraph.events import AsyncEventProcessor, EventDispatcher, EventProcessor, TypedEventProcessor  # noqa: E402


class Boom(Exception):
    pass


# what a failing processor raises: its own exception class, or the ordinary ones an exporter really produces (a slow collector: TimeoutError)
class Unprintable(Exception):
    """An exception whose own __str__ fails (it formats a field that is not there)."""

    def __str__(self) -> str:
        raise RuntimeError("__str__ of the processor's exception is broken too")


EXC_KINDS = {"boom": Boom, "timeout": TimeoutError, "key": KeyError, "stop": StopIteration, "assert": AssertionError, "oserror": ConnectionError,
             "unprintable": Unprintable}
_EXC: list[type] = [Boom]


class FailingSync(EventProcessor):
    """Raises at the given event indices (or always) and/or at shutdown; records what it received."""

    def __init__(self, fail_at: set[int] | None = None, always: bool = False, fail_shutdown: bool = False) -> None:
        self.fail_at, self.always, self.fail_shutdown = fail_at or set(), always, fail_shutdown
        self.seen = 0
        self.received: list[int] = []
        self.shutdowns = 0

    def on_event(self, event: Any) -> None:
        i = self.seen
        self.seen += 1
        self.received.append(i)
        if self.always or i in self.fail_at:
            _meddle(event)
            raise _EXC[0](f"processor failure at event {i}")

    def shutdown(self) -> None:
        self.shutdowns += 1
        if self.fail_shutdown:
            raise _EXC[0]("processor failure at shutdown")


_TYPED_HANDLERS = ("on_run_start", "on_run_end", "on_node_start", "on_node_end", "on_cache_hit", "on_node_error", "on_route_decision", "on_interrupt",
                   "on_stop_requested")


class TypedFailing(TypedEventProcessor):
    """The same failing observer written against the TYPED interface (one handler per event kind)."""

    def __init__(self, fail_at: set[int] | None = None, always: bool = False, fail_shutdown: bool = False) -> None:
        self.fail_at, self.always, self.fail_shutdown = fail_at or set(), always, fail_shutdown
        self.seen = 0
        self.received: list[int] = []
        self.shutdowns = 0

    def _handle(self, event: Any) -> None:
        i = self.seen
        self.seen += 1
        self.received.append(i)
        if self.always or i in self.fail_at:
            raise _EXC[0](f"typed processor failure at event {i}")

    def shutdown(self) -> None:
        self.shutdowns += 1
        if self.fail_shutdown:
            raise _EXC[0]("processor failure at shutdown")


class TypedRecorder(TypedEventProcessor):
    """A healthy observer written against the typed interface."""

    def __init__(self) -> None:
        self.events: list[Any] = []
        self.shutdowns = 0

    def _handle(self, event: Any) -> None:
        self.events.append(event)

    def shutdown(self) -> None:
        self.shutdowns += 1


for _h in _TYPED_HANDLERS:
    setattr(TypedFailing, _h, TypedFailing._handle)
    setattr(TypedRecorder, _h, TypedRecorder._handle)


def _meddle(event: Any) -> None:
    """A buggy observer: before it fails it scribbles over every mutable container it was handed."""
    for v in list(vars(event).values()) if hasattr(event, "__dict__") else []:
        try:
            if isinstance(v, (list, dict, set)):
                v.clear()
        except Exception:  # noqa: BLE001
            pass


class FailingAsync(AsyncEventProcessor):
    def __init__(self, fail_at: set[int] | None = None, always: bool = False, fail_shutdown: bool = False) -> None:
        self.fail_at, self.always, self.fail_shutdown = fail_at or set(), always, fail_shutdown
        self.seen = 0
        self.received: list[int] = []
        self.shutdowns = 0

    def on_event(self, event: Any) -> None:
        self._hit(event)

    suspends = False      # (set per case) the processor really awaits before it handles the event, as an exporter doing I/O does

    async def on_event_async(self, event: Any) -> None:
        if FailingAsync.suspends:
            import asyncio

            await asyncio.sleep(0)
        self._hit(event)

    def _hit(self, event: Any) -> None:
        i = self.seen
        self.seen += 1
        self.received.append(i)
        if self.always or i in self.fail_at:
            _meddle(event)
            raise _EXC[0](f"processor failure at event {i}")

    def shutdown(self) -> None:
        self.shutdowns += 1
        if self.fail_shutdown:
            raise _EXC[0]("processor failure at shutdown")

    async def shutdown_async(self) -> None:
        self.shutdown()


class _EqualToAll:
    """Processors that compare (and hash) EQUAL although they are different objects — e.g. frozen dataclass exporters with one endpoint."""

    def __eq__(self, other: Any) -> bool:
        return isinstance(other, _EqualToAll)

    def __hash__(self) -> int:
        return 7


class _Unhashable:
    """Processors defining __eq__ without __hash__ — what an ordinary (non-frozen) @dataclass processor is."""

    def __eq__(self, other: Any) -> bool:
        return self is other

    __hash__ = None  # type: ignore[assignment]


class _Sized:
    """A container-like processor: len(p) = number of events collected so far — EMPTY, hence falsy, when it is registered."""

    def __len__(self) -> int:
        return len(getattr(self, "events", getattr(self, "received", [])))


def _variant(cls: type, kind: str) -> type:
    if kind == "sized":
        return type(cls.__name__ + "Sized", (_Sized, cls), {})
    if kind == "equal":
        return type(cls.__name__ + "Eq", (_EqualToAll, cls), {})
    if kind == "unhashable":
        return type(cls.__name__ + "Uh", (_Unhashable, cls), {})
    return cls


def core(o: dict) -> dict:
    return {k: o.get(k) for k in ("status", "values", "error", "raised")} | {"calls": impl.sort_calls(o.get("calls", []))}


class C13(Prop):
    id = "C13"
    level = "proof"
    nontrivial_rule = (
        "programs from all generators (nested, gated, loops, failing, mapping nodes); for an execution delivering m events: m+2 re-runs "
        "with a processor failing at index 0..m-1 (sampled beyond 12), at every event, and at shutdown, sync and async processor "
        "flavours, both runners, a healthy recorder registered after the failing one; plus the dispatcher itself driven directly and "
        "compared with the model; non-trivial = m >= 6; distinct by canonical hash"
    )
    budgets = {"quick": 60, "thorough": 1200}
    assumptions = ["processors raising BaseException (KeyboardInterrupt-like) propagate by design and are outside the claim"]

    def cases(self, rng: random.Random, tier: str) -> Iterable[dict]:
        gens = [lambda: gen.gen_dag_program(rng, max_nodes=5, depth=rng.choice([0, 1])), lambda: gen.gen_gated_cfg(rng),
                lambda: gen.gen_loop_bounded(rng), lambda: gen.gen_failing_dag(rng), lambda: gen.gen_map_node(rng)]
        forced = 3
        forced_exc = ["unprintable", "unprintable", "oserror", "timeout"]      # whatever the seed
        forced_typed = 4      # whatever the seed: observers written against the TYPED interface, a failing one next to a healthy one, run after run
        forced_await = 4      # whatever the seed: fan-outs under the async runner with an async processor that really suspends
        while True:
            if forced_await:
                forced_await -= 1
                c = self._fanout(rng)
                yield {"program": c["program"], "values": c["values"], "cfg": {}, "runner": "async", "flavour": "async", "awaits": True, "sample_seed": rng.randint(0, 10**6),
                       "procKind": "plain", "warnErr": False, "excKind": "boom", "disp": {"n": rng.randint(1, 8), "procs": [self._rand_proc(rng) for _ in range(2)]}}
                continue
            forced_typed = max(0, forced_typed - 1)
            if forced or rng.random() < 0.1:
                forced = max(0, forced - 1)
                c = self._fanout(rng, with_end=forced >= 1)
            else:
                c = rng.choice(gens)()
            yield {"program": c["program"], "values": c["values"], "cfg": c.get("cfg", {}), "runner": rng.choice(["sync", "async"]),
                   "flavour": rng.choice(["sync", "async"]), "awaits": rng.random() < 0.4, "sample_seed": rng.randint(0, 10**6),
                   "procKind": "typed" if forced_typed else rng.choice(["plain", "plain", "equal", "unhashable", "sized", "typed"]), "warnErr": rng.random() < 0.3,
                   "excKind": forced_exc.pop() if forced_exc else rng.choice(list(EXC_KINDS)),
                   "disp": {"n": rng.randint(1, 8), "procs": [self._rand_proc(rng) for _ in range(rng.randint(1, 4))]}}

    @staticmethod
    def _fanout(rng: random.Random, with_end: bool = False) -> dict:
        """A multi-target gate fanning out to several branches (its decision is a LIST kept by the run) next to a gate that decides nothing."""
        k = rng.randint(2, 3)
        ts = [f"b{i}" for i in range(k)]
        pick = rng.sample(ts, rng.randint(1, k))
        has_end = with_end or rng.random() < 0.3
        if has_end and (with_end or rng.random() < 0.5):
            pick.insert(rng.randint(0, len(pick)), "__END__")       # a decision that MIXES targets with END (accepted: the named targets run)
        nodes = [{"name": "src", "kind": "fn", "params": [["a", None]], "dataOuts": ["x"], "body": {"b": "sum", "k": 0}},
                 {"name": "fan", "kind": "route", "params": [["x", None]], "targets": ts + (["__END__"] if has_end else []), "multiTarget": True,
                  "fallback": None, "defaultOpen": rng.random() < 0.5, "body": {"b": "table", "rows": [[1, pick]], "dflt": [ts[0]]}},
                 {"name": "quiet", "kind": "route", "params": [["x", None]], "targets": ["side", "__END__"], "multiTarget": False, "fallback": None,
                  "defaultOpen": rng.random() < 0.5, "body": {"b": "table", "rows": [[7, "side"]], "dflt": None}},
                 {"name": "side", "kind": "fn", "params": [["x", None]], "dataOuts": ["s"], "body": {"b": "tag", "t": "side"}}]
        nodes += [{"name": t, "kind": "fn", "params": [["x", None]], "dataOuts": [f"o_{t}"], "body": {"b": "tag", "t": t}} for t in ts]
        rng.shuffle(nodes)
        return {"program": [{"name": "g0", "nodes": nodes, "bound": []}], "values": [["a", 1 if with_end else rng.choice([1, 1, 2])]], "cfg": {}}

    @staticmethod
    def _rand_proc(rng: random.Random) -> dict:
        r = rng.random()
        if r < 0.3:
            return {"exc": [], "shutdown": "ok"}
        if r < 0.6:
            return {"exc": sorted(rng.sample(range(8), rng.randint(1, 3))), "shutdown": rng.choice(["ok", "exc"])}
        if r < 0.8:
            return {"always": True, "shutdown": "exc"}
        return {"exc": [], "shutdown": "exc"}

    def _run(self, case: dict, procs: list) -> dict:
        return impl.run_case(case["program"], None, case["values"], case["cfg"], case["runner"], processors=procs,
                             warn_mode="error" if case.get("warnErr") else "always")

    def impl(self, case: dict) -> Any:
        _EXC[0] = EXC_KINDS[case.get("excKind", "boom")]
        FailingAsync.suspends = bool(case.get("awaits"))
        base = self._run(case, [])
        rec0 = impl.Recorder()
        ref = self._run(case, [rec0])
        m = len([e for e in rec0.events if e != "shutdown"])
        rng = random.Random(case["sample_seed"])
        idxs = list(range(m)) if m <= 12 else sorted(rng.sample(range(m), 12))
        runs = []
        kind = case.get("procKind", "plain")
        Failing = _variant(FailingAsync if (case["flavour"] == "async" and case["runner"] == "async") else FailingSync, kind)
        Healthy = _variant(impl.Recorder, kind)
        if kind == "typed":
            Failing, Healthy = TypedFailing, TypedRecorder
        variants = [("at", {i}, False, False) for i in idxs] + [("always", set(), True, False), ("shutdown", set(), False, True)]
        for kind, at, always, sd in variants:
            bad = Failing(at, always, sd)
            healthy = Healthy()
            o = self._run(case, [bad, healthy])
            runs.append({"kind": kind, "at": sorted(at), "core": core(o), "healthy_events": len([e for e in healthy.events if e != "shutdown"]),
                         "healthy_kinds": [type(e).__name__ for e in healthy.events if e != "shutdown"], "healthy_shutdowns": healthy.shutdowns,
                         "bad_received": len(bad.received), "bad_shutdowns": bad.shutdowns})
        # the dispatcher itself, driven directly (public class), for the model comparison
        d = case["disp"]
        procs = [FailingSync(set(p.get("exc", [])), p.get("always", False), p.get("shutdown") == "exc") for p in d["procs"]]
        disp = EventDispatcher(procs)
        escaped = None
        with warnings.catch_warnings():
            warnings.simplefilter("ignore")
            import logging

            logging.disable(logging.CRITICAL)
            try:
                from hypergraph.events.types import NodeStartEvent

                for i in range(d["n"]):
                    disp.emit(NodeStartEvent(run_id="r", node_name=f"n{i}"))
                disp.shutdown()
            except BaseException as e:  # noqa: BLE001
                escaped = type(e).__name__
            finally:
                logging.disable(logging.NOTSET)
        return {"ref_shutdowns": rec0.shutdowns, "base": core(base), "ref_kinds": [type(e).__name__ for e in rec0.events if e != "shutdown"], "m": m, "runs": runs,
                "disp": {"received": [p.received for p in procs], "shutdowns": [p.shutdowns for p in procs], "escaped": escaped}}

    def oracle(self, case: dict, obs: Any) -> str | None:
        if obs["base"]["status"] == "build-error":
            return "valid program rejected at construction"
        for r in obs["runs"]:
            label = f"processor failing {r['kind']} {r['at']}"
            if r["core"] != obs["base"]:
                return f"{label}: run outcome {r['core']} differs from the run without processors {obs['base']}"
            # (a processor that really suspends changes the interleaving of concurrent nodes: the stream is then complete as a multiset of
            #  events, its order across concurrent spans is the scheduler's)
            same = sorted(r["healthy_kinds"]) == sorted(obs["ref_kinds"]) if (case.get("awaits") and case["runner"] == "async" and case["flavour"] == "async") \
                else r["healthy_kinds"] == obs["ref_kinds"]
            if not same:
                return f"{label}: the healthy processor received {r['healthy_events']} events, the complete stream has {obs['m']}"
            # (a call rejected before it starts — also by a warning the process treats as an error — shuts nothing down: the reference is
            #  what a lone healthy processor sees on the same call)
            want_sd = obs.get("ref_shutdowns", 1)
            if obs["base"]["status"] != "paused" and r["healthy_shutdowns"] != want_sd:
                return f"{label}: the healthy processor was shut down {r['healthy_shutdowns']} times (a lone healthy processor: {want_sd})"
            if r["bad_received"] != obs["m"]:
                return f"{label}: the failing processor itself stopped receiving events ({r['bad_received']} of {obs['m']})"
        if obs["disp"]["escaped"] is not None:
            return f"EventDispatcher let {obs['disp']['escaped']} escape"
        return None

    def model(self, case: dict, driver: Any) -> Any:
        d = case["disp"]
        return driver.ask({"op": "deliver", "n": d["n"], "procs": d["procs"]})

    def compare(self, case: dict, i: Any, m: Any) -> str | None:
        if i["disp"]["received"] != m["received"]:
            return f"dispatcher deliveries: impl={i['disp']['received']} model={m['received']}"
        if [s == 1 for s in i["disp"]["shutdowns"]] != m["shutdownCalled"]:
            return f"dispatcher shutdown calls: impl={i['disp']['shutdowns']} model={m['shutdownCalled']}"
        if (i["disp"]["escaped"] is not None) != (m["escaped"] is not None or m["shutdownEscaped"] is not None):
            return f"escape: impl={i['disp']['escaped']} model={m['escaped']}/{m['shutdownEscaped']}"
        return None

    def nontrivial(self, case: dict, obs: Any) -> bool:
        return obs.get("m", 0) >= 6

    def features(self, case: dict, obs: Any) -> dict:
        return {"m": min(obs.get("m", 0), 30) // 5 * 5, "runner": case["runner"], "flavour": case["flavour"], "status": obs["base"]["status"],
                "reruns": len(obs.get("runs", []))}

    def signature(self, case: dict, obs: Any, why: str) -> str:
        return "case:" + canonical_hash({k: case[k] for k in ("program", "values", "cfg")})

    def sample(self, case: dict, obs: Any) -> Any:
        return {"program": case["program"], "values": case["values"], "cfg": case["cfg"], "runner": case["runner"], "flavour": case["flavour"], "events": obs.get("m")}

    def neighbours(self, case: dict, rng: random.Random) -> Iterable[dict]:
        yield from self.cases(rng, "quick")


PROP = C13()
