"""C03 — gate routing: a gated node runs only while a controlling gate selects it."""
from __future__ import annotations

import copy
import random
from typing import Any, Iterable

from .. import gen, impl, refeval
from ..build import Env, enc_val
from ..runprop import RunProp


def controlling(program: list[dict]) -> dict[str, list[dict]]:
    out: dict[str, list[dict]] = {}
    for n in program[-1]["nodes"]:
        if n["kind"] in ("route", "ifelse"):
            for t in n["targets"]:
                if t != "__END__":
                    out.setdefault(t, []).append(n)
    return out


def decision_names(info: str, node: str) -> bool:
    if info in ("END", "None"):
        return False
    if info.startswith("["):
        return node in [x.strip() for x in info[1:-1].split(",") if x.strip()]
    return info == node


def exact_semantics_applies(program: list[dict], values: list) -> bool:
    """Every gate is closed by default, or runnable no later than its targets (all its inputs are run-time inputs)."""
    provided = {k for k, _ in values}
    gated = {t for n in program[-1]["nodes"] if n["kind"] in ("route", "ifelse") for t in n.get("targets", [])}
    for n in program[-1]["nodes"]:
        if n["kind"] in ("route", "ifelse"):
            if n.get("defaultOpen", True) and not all(p[0] in provided for p in n["params"]):
                return False
            # an open-by-default gate that is ITSELF the target of a gate (or waits for a signal) starts later than its own targets can:
            # the statement then allows them an early start
            if n.get("defaultOpen", True) and (n["name"] in gated or n.get("waitFor")):
                return False
    return True


def gen_shared_target(rng: random.Random) -> dict:
    """One node that is a target of TWO gates which become runnable in different steps (one reads a run-time input, the other a value
    produced one or two steps later), with every combination of default_open."""
    L = rng.randint(1, 2)
    nodes: list[dict] = []
    prev = "x"
    for j in range(L):
        nodes.append({"name": f"c{j}", "kind": "fn", "params": [[prev, None]], "dataOuts": [f"m{j}"], "body": {"b": "sum", "k": 0}})
        prev = f"m{j}"
    def gate(name: str, src: str, targets: list[str]) -> dict:
        if rng.random() < 0.5:
            return {"name": name, "kind": "ifelse", "params": [[src, None]], "targets": targets, "body": {"b": "lt", "k": rng.randint(0, 3)}, "defaultOpen": rng.random() < 0.6}
        return {"name": name, "kind": "route", "params": [[src, None]], "targets": targets, "multiTarget": False, "fallback": None, "defaultOpen": rng.random() < 0.6,
                "body": {"b": "table", "rows": [[v, rng.choice(targets + [None])] for v in range(0, 3)], "dflt": rng.choice(targets + [None])}}
    early_src, late_src = ("i", prev) if rng.random() < 0.5 else (prev, "i")
    nodes.append(gate("ga", early_src, ["shared", "oa"]))
    nodes.append(gate("gb", late_src, ["shared", "ob"]))
    for t in ("shared", "oa", "ob"):
        nodes.append({"name": t, "kind": "fn", "params": [["x", None]], "dataOuts": [f"v_{t}"], "body": {"b": "tag", "t": t}})
    rng.shuffle(nodes)
    return {"program": [{"name": "g0", "nodes": nodes, "bound": []}], "values": [["x", rng.randint(0, 3)], ["i", rng.randint(0, 3)]], "cfg": {}}


def gen_nested_gated(rng: random.Random) -> dict:
    """A gated graph used as a nested node whose outputs are partly RENAMED on the wrapper; every inner output has an outer consumer:
    the outputs of branches that were not selected inside must not appear outside (their consumers must not start)."""
    from .c20 import prefix_graph

    c = gen.gen_gated_dag(rng, max_nodes=6, p_closed=rng.choice([0.2, 0.6, 1.0]), allow_mutex=False)
    inner = prefix_graph(c["program"][0], "i_")
    inner["name"] = "inner"
    outs = [o for n in inner["nodes"] for o in n.get("dataOuts", [])]
    ren = [[o, "r_" + o] for o in outs if rng.random() < 0.4]
    cur = {o: dict(ren).get(o, o) for o in outs}
    outer_nodes: list[dict] = [{"name": "w", "kind": "graph", "inner": 0, "inRen": [], "outRen": ren}]
    for j, o in enumerate(outs):
        outer_nodes.append({"name": f"use{j}", "kind": "fn", "params": [[cur[o], None]], "dataOuts": [f"u{j}"], "body": {"b": "tag", "t": f"use{j}"}})
    rng.shuffle(outer_nodes)
    values = [["i_" + k, v] for k, v in c["values"]]
    return {"program": [inner, {"name": "outer", "nodes": outer_nodes, "bound": []}], "values": values, "cfg": {}}


def gen_cut_off_gate(rng: random.Random) -> dict:
    """A gate that the entry-point configuration cuts off (it is not downstream of the entry node) keeps controlling its targets: targets of
    a closed-by-default gate that never decides do not start; targets of a default-open one may."""
    closed = rng.random() < 0.7
    k = rng.choice([2, 2, 3])
    ts = [f"br{i}" for i in range(k)]
    if rng.random() < 0.5 and k == 2:
        gate = {"name": "choose", "kind": "ifelse", "params": [["flag", None]], "targets": ts, "body": {"b": "lt", "k": 1}, "defaultOpen": not closed}
    else:
        gate = {"name": "choose", "kind": "route", "params": [["flag", None]], "targets": ts, "multiTarget": False, "fallback": None, "defaultOpen": not closed,
                "body": {"b": "table", "rows": [[i, t] for i, t in enumerate(ts)], "dflt": ts[0]}}
    nodes = [gate, {"name": "load", "kind": "fn", "params": [["path", None]], "dataOuts": ["text"], "body": {"b": "sum", "k": 1}}]
    nodes += [{"name": t, "kind": "fn", "params": [["text", None]], "dataOuts": [f"o_{t}"], "body": {"b": "tag", "t": t}} for t in ts]
    if rng.random() < 0.5:
        nodes.append({"name": "after", "kind": "fn", "params": [[f"o_{ts[0]}", None]], "dataOuts": ["fin"], "body": {"b": "tag", "t": "after"}})
    rng.shuffle(nodes)
    entry = rng.choice([["load"], ["load"], [ts[0]]])
    values = [["path", rng.randint(0, 3)]] if entry == ["load"] else [["text", rng.randint(0, 3)]]
    return {"program": [{"name": "g0", "nodes": nodes, "bound": [], "entrypoints": entry}], "values": values}


class C03(RunProp):
    id = "C03"
    level = "proof"
    compare_events = True
    nontrivial_rule = (
        "gated acyclic programs (if/else and multi-way gates, single/multi target, fallback, None, END, default_open on/off, "
        "several gates sharing a target, mutually exclusive producers) and gate-driven loops, with failure injection and selections; "
        "both runners; non-trivial = at least one gated node did not run; distinct by canonical hash"
    )
    budgets = {"quick": 300, "thorough": 6000}

    @staticmethod
    def _explicit_edges(rng: random.Random, c: dict) -> dict | None:
        """The same gated graph with its edges DECLARED (`Graph(nodes, edges=[...])`): every producer -> consumer pair the names imply, plus the
        gate -> target pairs (all of them, or some), in any order — as the documentation's own example lists them. Routing must not change."""
        c = copy.deepcopy(c)
        g = c["program"][-1]
        if len(c["program"]) != 1 or any(n.get("emits") or n.get("waitFor") for n in g["nodes"]):
            return None
        pairs: list[list[str]] = []
        for p_ in g["nodes"]:
            for q in g["nodes"]:
                ren = dict(q.get("inRen", []))
                ins = {ren.get(x[0], x[0]) for x in q.get("params", [])}
                if p_ is not q and set(p_.get("dataOuts", [])) & ins:
                    pairs.append([p_["name"], q["name"]])
        routing = [[n["name"], t] for n in g["nodes"] if n["kind"] in ("route", "ifelse") for t in dict.fromkeys(n["targets"]) if t != "__END__"]
        if not routing:
            return None
        keep = routing if rng.random() < 0.6 else rng.sample(routing, rng.randint(1, len(routing)))
        edges = pairs + keep
        rng.shuffle(edges)
        if rng.random() < 0.4:
            edges = keep + pairs
        g["edges"] = edges
        return c

    @staticmethod
    def _stacked_gates(rng: random.Random) -> dict:
        """Gates that are targets of gates (two or three levels), default-open, every input available from the first step: a gate held
        back by its own controlling gate still holds its targets back."""
        levels = rng.choice([2, 2, 3])
        nodes: list[dict] = []
        values = []
        for lv in range(levels):
            nxt = f"g{lv + 1}" if lv + 1 < levels else None
            tgt_a, tgt_b = f"a{lv}", f"b{lv}"
            targets = ([nxt] if nxt else []) + [tgt_a, tgt_b] + (["__END__"] if rng.random() < 0.5 else [])
            rows = [[v, rng.choice(targets + [None])] for v in range(0, 4)]
            nodes.append({"name": f"g{lv}", "kind": "route", "params": [[f"c{lv}", None]], "targets": targets, "multiTarget": False, "fallback": None,
                          "defaultOpen": True if lv else rng.random() < 0.8, "body": {"b": "table", "rows": rows, "dflt": None}})
            for t in (tgt_a, tgt_b):
                nodes.append({"name": t, "kind": "fn", "params": [["x", None]], "dataOuts": [f"r_{t}"], "body": {"b": "tag", "t": t}})
            values.append([f"c{lv}", rng.randint(0, 3)])
        values.append(["x", rng.randint(0, 3)])
        rng.shuffle(nodes)
        return {"program": [{"name": "g0", "nodes": nodes, "bound": []}], "values": values, "kind": "dag"}

    @staticmethod
    def _contained_names(rng: random.Random) -> dict:
        """A single-target gate whose targets' NAMES contain one another (load / reload / reload_all): the decision names one node, a string
        that happens to contain another target's name selects nothing else."""
        fam = rng.choice([["load", "reload", "reload_all"], ["fix", "fix_later", "prefix"], ["step", "step_back"], ["check", "recheck"]])
        rows = [[i, t] for i, t in enumerate(fam)]
        gate = {"name": "pick", "kind": "route", "params": [["x", None]], "targets": list(fam) + (["__END__"] if rng.random() < 0.4 else []), "multiTarget": False,
                "fallback": None, "defaultOpen": rng.random() < 0.5, "body": {"b": "table", "rows": rows, "dflt": fam[-1]}}
        nodes = [gate] + [gen._fn_node(t, [["x", None]], [f"o_{t}"], {"b": "tag", "t": t}) for t in fam]
        rng.shuffle(nodes)
        # the LONGEST name is selected: every shorter one it contains must stay off
        return {"program": [{"name": "g0", "nodes": nodes, "bound": []}], "values": [["x", len(fam) - 1 if rng.random() < 0.7 else rng.randrange(len(fam))]], "cfg": {}, "kind": "dag"}

    def cases(self, rng: random.Random, tier: str) -> Iterable[dict]:
        for c in [self._contained_names(rng) for _ in range(3)]:
            for runner in ("sync", "async"):
                yield {"program": c["program"], "values": c["values"], "cfg": {}, "runner": runner, "kind": "dag"}
        # whatever the seed: stacked gates, stacked-gate loops, plain loops
        for c in [self._stacked_gates(rng) for _ in range(5)] + [dict(gen.gen_nested_gate_loop(rng, force=j < 3), kind="loop") for j in range(5)] + \
                [dict(gen.gen_loop(rng), kind="loop") for _ in range(5)]:
            for runner in ("sync", "async"):
                yield {"program": c["program"], "values": c["values"], "cfg": c.get("cfg", {}), "runner": runner, "kind": c["kind"]}
        forced_explicit = 6
        while True:
            if forced_explicit or rng.random() < 0.08:
                base = gen.gen_gated_dag(rng, max_nodes=8, p_closed=rng.choice([0.0, 0.2, 0.6]))
                c = self._explicit_edges(rng, base)
                if c is None:
                    continue
                forced_explicit = max(0, forced_explicit - 1)
                for runner in ("sync", "async"):
                    yield {"program": c["program"], "values": c["values"], "cfg": {}, "runner": runner, "kind": "dag"}
                continue
            r = rng.random()
            if r < 0.1:
                c = gen_shared_target(rng)
                c["kind"] = "dag"
            elif r < 0.18:
                c = gen_nested_gated(rng)
                c["kind"] = "nested"
            elif r < 0.22:
                c = gen_cut_off_gate(rng)
                c["kind"] = "entry"
            elif r < 0.29:
                c = gen.gen_nested_gate_loop(rng)
                c["kind"] = "loop"
            elif r < 0.75:
                c = gen.gen_gated_dag(rng, max_nodes=8 if tier == "quick" else 12, p_closed=rng.choice([0.2, 0.6, 1.0]), allow_gate_signal=True)
                c["kind"] = "dag"
            else:
                c = gen.gen_loop(rng)
                c["kind"] = "loop"
            for runner in ("sync", "async"):
                yield {"program": c["program"], "values": c["values"], "cfg": c.get("cfg", {}), "runner": runner, "kind": c["kind"]}

    def oracle(self, case: dict, obs: Any) -> str | None:
        if obs["status"] == "build-error":
            return f"valid gated program rejected at construction: {obs.get('detail')}"
        program = case["program"]
        ctrl = controlling(program)
        gates = {n["name"]: n for n in program[-1]["nodes"] if n["kind"] in ("route", "ifelse")}
        # (A) every start of a gated node is justified by the decisions seen so far
        last_dec: dict[str, str] = {}
        started: set[str] = set()
        root = None
        for e in obs.get("events", []):
            if "shutdown" in e:
                continue
            if e["ev"] == "RunStart" and root is None:
                root = e["span"]
            if e["parent"] != root:
                continue
            if e["ev"] == "RouteDecision":
                last_dec[e["name"]] = e["info"]
            elif e["ev"] == "NodeStart":
                n = e["name"]
                if n in ctrl:
                    ok = False
                    for c in ctrl[n]:
                        if c["name"] in last_dec:
                            if decision_names(last_dec[c["name"]], n):
                                ok = True
                        elif c.get("defaultOpen", True) and c["name"] not in started:
                            ok = True
                    if not ok:
                        return f"gated node {n!r} started although no controlling gate selected it (decisions so far: {last_dec})"
                started.add(n)
        # (B) closed-by-default gates / gates runnable no later than their targets: exactly the selected branches execute
        if case["kind"] == "dag" and exact_semantics_applies(program, case["values"]) and not case["cfg"]:
            provided = {k: impl.py_val(v) for k, v in case["values"]}
            ref = refeval.eval_gated(program, len(program) - 1, provided, Env())
            if ref.error is None:
                if obs["status"] != "completed":
                    return f"gated acyclic program ended {obs['status']} ({obs['error']})"
                got_ran = sorted({c[0] for c in obs["calls"]})
                exp_ran = sorted({f for f, _ in ref.calls})
                if got_ran != exp_ran:
                    return f"executed nodes {got_ran} differ from the selected branches {exp_ran}"
                expect = {k: enc_val(v) for k, v in ref.values.items()}
                got = dict((k, v) for k, v in obs["values"])
                # two selected branches writing one name in the same step (a second gate opened the other exclusive producer):
                # which write lands last is not this property's subject; the executed-node sets above were still compared
                ran_names = {c[0].split(":", 1)[1] for c in obs["calls"]}
                outs_of_ran = [o for n in program[-1]["nodes"] if n["name"] in ran_names for o in n.get("dataOuts", [])]
                if len(outs_of_ran) != len(set(outs_of_ran)):
                    return None
                if impl.differ(got, expect):
                    return f"outputs differ from the selected branches' outputs: got {got!r}, expected {expect!r}"
        return None

    def impl(self, case: dict) -> Any:
        return impl.run_case(case["program"], None, case["values"], case.get("cfg", {}), case["runner"], record_events=True)

    def nontrivial(self, case: dict, obs: Any) -> bool:
        ctrl = controlling(case["program"])
        ran = {c[0].split(":", 1)[1] for c in obs.get("calls", [])}
        return any(t not in ran for t in ctrl)

    def features(self, case: dict, obs: Any) -> dict:
        gates = [n for n in case["program"][-1]["nodes"] if n["kind"] in ("route", "ifelse")]
        return {"kind": case["kind"], "gates": len(gates), "closed": sum(1 for g in gates if not g.get("defaultOpen", True)),
                "multi": sum(1 for g in gates if g.get("multiTarget")), "exact_oracle": case["kind"] == "dag" and exact_semantics_applies(case["program"], case["values"]),
                "status": obs["status"], "runner": case["runner"]}

    def neighbours(self, case: dict, rng: random.Random) -> Iterable[dict]:
        for _ in range(30):
            c = copy.deepcopy(case)
            c["values"] = [[k, rng.randint(0, 4)] for k, _ in case["values"]]
            yield c
        yield from self.cases(rng, "quick")


PROP = C03()
