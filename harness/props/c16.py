"""C16 — scoping: entry points limit what runs; results hold only requested outputs."""
from __future__ import annotations

import copy
import random
import warnings
from typing import Any, Iterable

from .. import build, common, gen, impl
from ..build import Env, enc_val, py_val
from ..engine import Prop, canonical_hash

common.use_repo()


def downstream(program: list[dict], entry: list[str]) -> set[str]:
    """Entry nodes and everything downstream of them by ANY dependency (all producers of a consumed or awaited name,
    gate -> targets): an over-approximation of what may execute, so the check never raises a false alarm."""
    nodes = program[-1]["nodes"]
    from .. import refeval

    outs = {n["name"]: set(refeval.node_outputs(program, n)) for n in nodes}
    ins = {n["name"]: {c for c, _ in refeval.node_inputs(program, n)} | set(n.get("waitFor", [])) for n in nodes}
    succ: dict[str, set[str]] = {n["name"]: set() for n in nodes}
    for a in nodes:
        for b in nodes:
            if outs[a["name"]] & ins[b["name"]]:
                succ[a["name"]].add(b["name"])
        if a["kind"] in ("route", "ifelse"):
            for t in a["targets"]:
                if t != "__END__" and t in succ:
                    succ[a["name"]].add(t)
    seen = set(entry)
    work = list(entry)
    while work:
        x = work.pop()
        for y in succ.get(x, ()):
            if y not in seen:
                seen.add(y)
                work.append(y)
    return seen


class C16(Prop):
    id = "C16"
    level = "proof"
    nontrivial_rule = (
        "generated graphs (DAG with nesting, gated, loops, interrupts) x entry-point sets x graph-level / run-time / nested selections x "
        "on_missing modes x error handling, results of completed, failed and paused runs, both runners; inputs derived from the reported "
        "input spec; non-trivial = an entry point or a selection is in force; distinct by canonical hash"
    )
    budgets = {"quick": 300, "thorough": 6000}

    @staticmethod
    def _forced_cases(rng: random.Random) -> Iterable[dict]:
        """Shapes every run visits whatever the seed: a pause under a run-time selection, a selected ordering signal, a selected output whose
        value is None, an entry point downstream of a signal emitter."""
        fn = gen._fn_node
        # (a) a pausing interrupt while a run-time selection (different from the default) is in force
        for _ in range(3):
            c = gen.gen_interrupt(rng)
            program = copy.deepcopy(c["program"])
            outs = list(dict.fromkeys(o for n in program[-1]["nodes"] for o in n.get("dataOuts", [])))
            for n in program[-1]["nodes"]:
                if n["kind"] == "interrupt":
                    n["body"] = {"b": "handler", "k": None}      # pauses
                    break
            cfg = {"select": rng.sample(outs, rng.randint(1, min(2, len(outs)))), "selectAsTuple": False, "selectAsSet": False, "selectAs": None,
                   "onMissing": "ignore", "errMode": rng.choice(["raise", "continue"]), "maxIter": 40}
            if rng.random() < 0.5 and len(outs) > 1:
                program[-1]["selected"] = [o for o in outs if o not in cfg["select"]][:1] or outs[:1]
            yield {"program": program, "known": c["values"], "cfg": cfg, "runner": "async", "ops": {"rtselect": 1, "forced": 1}}
        # (b) an ordering signal selected next to (or instead of) data outputs, under every on_missing policy
        for om in ("warn", "error", "ignore"):
            nodes = [fn("a", [["x", None]], ["va"], {"b": "sum", "k": 1}, emits=["sig"]), fn("b", [["va", None]], ["vb"], {"b": "tag", "t": "b"}, waitFor=["sig"])]
            rng.shuffle(nodes)
            sel = rng.choice([["vb", "sig"], ["sig", "va"], ["sig"]])
            cfg = {"select": sel, "selectAsTuple": rng.random() < 0.5, "selectAsSet": False, "selectAs": None, "onMissing": om, "errMode": "raise", "maxIter": 40}
            for runner in ("sync", "async"):
                yield {"program": [{"name": "g0", "nodes": nodes, "bound": []}], "known": [["x", 2]], "cfg": cfg, "runner": runner, "ops": {"rtselect": 1, "forced": 1}}
        # (c) a selected output whose produced value is None (produced, not missing), run-time or default selection
        for om in ("warn", "error"):
            nodes = [fn("a", [["x", None]], ["va"], {"b": "const", "v": None}), fn("b", [["x", None]], ["vb"], {"b": "sum", "k": 1})]
            rng.shuffle(nodes)
            g = {"name": "g0", "nodes": nodes, "bound": []}
            cfg = {"onMissing": om, "errMode": "raise", "maxIter": 40}
            if rng.random() < 0.5:
                g["selected"] = ["va"]
            else:
                cfg.update(select=rng.choice([["va"], ["va", "vb"]]), selectAsTuple=False, selectAsSet=False, selectAs=None)
            for runner in ("sync", "async"):
                yield {"program": [g], "known": [["x", 2]], "cfg": cfg, "runner": runner, "ops": {"select": 1, "forced": 1}}
        # (d) an entry point at a node that waits for a signal emitted UPSTREAM of it: the emitter is outside the scope and never runs
        for ep in ("work", rng.choice(["work", "after"])):
            nodes = [fn("warm", [["c", None]], ["w"], {"b": "tag", "t": "warm"}, emits=["ready"]),
                     fn("work", [["v", None]], ["o"], {"b": "sum", "k": 1}, waitFor=["ready"]),
                     fn("after", [["o", None]], ["oo"], {"b": "tag", "t": "after"})]
            if rng.random() < 0.5:
                nodes.append(fn("side", [["w", None]], ["ws"], {"b": "tag", "t": "side"}))
            rng.shuffle(nodes)
            g = {"name": "g0", "nodes": nodes, "bound": [], "entrypoints": [ep]}
            cfg = {"onMissing": "ignore", "errMode": "raise", "maxIter": 40}
            for runner in ("sync", "async"):
                yield {"program": [g], "known": [["c", 1], ["v", 2], ["o", 5]], "cfg": cfg, "runner": runner, "ops": {"entrypoints": 1, "forced": 1}}

        # (e) entry points on the OUTER graph, a nested graph inside the entered part, and an upstream node that could run on its own
        # default: after the nested run returns, the outer run is still scoped to its entry points — the caller's value stays
        for _ in range(2):
            inner = {"name": "sub", "nodes": [fn("inner", [["v1", None]], ["v2"], {"b": "sum", "k": 1})], "bound": []}
            nodes = [fn("up", [["seed", {"d": rng.randint(1, 5)}]], ["v0"], {"b": "sum", "k": 0}),
                     fn("s1", [["v0", None]], ["v1"], {"b": "sum", "k": 1}),
                     {"name": "sub", "kind": "graph", "inner": 0},
                     fn("s3", [["v2", None]], ["v3"], {"b": "sum", "k": 1})]
            rng.shuffle(nodes)
            g = {"name": "g1", "nodes": nodes, "bound": [], "entrypoints": ["s1"]}
            cfg = {"onMissing": "ignore", "errMode": "raise", "maxIter": 40}
            for runner in ("sync", "async"):
                yield {"program": [inner, g], "known": [["v0", rng.randint(100, 900)]], "cfg": cfg, "runner": runner, "ops": {"entrypoints": 1, "forced": 1}}
        # (g) a run that takes NO input and produces NOTHING (a parameterless gate says END): the selection policy still applies to it
        for om in ("error", "warn"):
            nodes = [{"name": "gate", "kind": "route", "params": [], "targets": ["t", "__END__"], "multiTarget": False, "fallback": None, "defaultOpen": False,
                      "body": {"b": "table", "rows": [], "dflt": "__END__"}},
                     {"name": "t", "kind": "fn", "params": [], "dataOuts": ["y"], "body": {"b": "const", "v": 1}}]
            rng.shuffle(nodes)
            cfg = {"select": ["y"], "selectAsTuple": False, "selectAsSet": False, "selectAs": None, "onMissing": om, "errMode": "raise", "maxIter": 40}
            for runner in ("sync", "async"):
                yield {"program": [{"name": "g0", "nodes": nodes, "bound": []}], "known": [], "cfg": cfg, "runner": runner, "ops": {"rtselect": 1, "forced": 1}}
        # (f) produced values whose `==` answers True for everything (wildcard matchers): present is present, whatever they compare equal to
        for om in ("ignore", "error"):
            nodes = [fn("a", [["x", None]], ["kept"], {"b": "const", "v": {"anyeq": rng.randint(0, 9)}}), fn("b", [["x", None]], ["n"], {"b": "sum", "k": 1})]
            rng.shuffle(nodes)
            g = {"name": "g0", "nodes": nodes, "bound": []}
            cfg = {"onMissing": om, "errMode": "raise", "maxIter": 40}
            if rng.random() < 0.5:
                cfg.update(select=["kept", "n"], selectAsTuple=False, selectAsSet=False, selectAs=None)
            for runner in ("sync", "async"):
                yield {"program": [g], "known": [["x", 2]], "cfg": cfg, "runner": runner, "ops": {"select": 1, "forced": 1}, "pyOnly": True}

    def cases(self, rng: random.Random, tier: str) -> Iterable[dict]:
        forced = 3
        yield from self._forced_cases(rng)
        while True:
            if forced or rng.random() < 0.05:
                forced = max(0, forced - 1)
                yield self._mapwarn_case(rng)
                continue
            r = rng.random()
            async_only = False
            if r < 0.45:
                c = gen.gen_dag_program(rng, max_nodes=7, depth=rng.choice([0, 0, 1]), allow_fed_default=False)
            elif r < 0.7:
                c = gen.gen_gated_dag(rng)
            elif r < 0.85:
                c = gen.gen_loop(rng)
            else:
                c = gen.gen_interrupt(rng)
                async_only = True
            if rng.random() < 0.25:
                c = gen.inject_failure(rng, c)
            program = copy.deepcopy(c["program"])
            root = program[-1]
            outs = list(dict.fromkeys(o for n in root["nodes"] for o in (n.get("dataOuts", []) if n["kind"] != "graph" else [])))
            emits = [e for n in root["nodes"] for e in n.get("emits", [])]
            ops = {}
            if outs and rng.random() < 0.3:
                root["selected"] = rng.sample(outs, rng.randint(1, min(2, len(outs))))
                ops["select"] = 1
            # nested selection: the inner graph exposes only its default selection
            if len(program) > 1 and rng.random() < 0.3:
                inner = program[0]
                iouts = list(dict.fromkeys(o for n in inner["nodes"] for o in (n.get("dataOuts", []) if n["kind"] != "graph" else [])))
                used_outside = {p[0] for g in program[1:] for n in g["nodes"] for p in n.get("params", [])} | \
                    {cur for g in program[1:] for n in g["nodes"] for _, cur in n.get("inRen", [])}
                keep = [o for o in iouts if o in used_outside]
                extra = [o for o in iouts if o not in used_outside]
                if extra and not any(n["kind"] == "graph" and n["inner"] == 0 and (n.get("outRen") or n.get("inRen")) for g in program[1:] for n in g["nodes"]):
                    inner["selected"] = keep + extra[: rng.randint(0, len(extra) - 1)]
                    if inner["selected"]:
                        ops["nested_select"] = 1
                    else:
                        inner.pop("selected")
            non_gates = [n["name"] for n in root["nodes"] if n["kind"] not in ("route", "ifelse")]
            if non_gates and rng.random() < 0.35:
                root["entrypoints"] = rng.sample(non_gates, rng.randint(1, min(2, len(non_gates))))
                ops["entrypoints"] = 1
            cfg: dict[str, Any] = {}
            if rng.random() < 0.5:
                pool = outs + emits[:1]
                if pool:
                    cfg["select"] = "**" if rng.random() < 0.2 else rng.sample(pool, rng.randint(1, min(3, len(pool))))
                    if isinstance(cfg["select"], list) and emits and rng.random() < 0.4 and emits[0] not in cfg["select"]:
                        cfg["select"] = cfg["select"] + [emits[0]]       # an ordering signal selected next to data outputs
                    if isinstance(cfg["select"], list):
                        plain = [k for k, _ in c["values"] if k not in outs and k not in cfg["select"]]
                        if rng.random() < 0.15 and plain:
                            cfg["select"] = cfg["select"] + [rng.choice(plain)]      # a plain input is not selectable: must be rejected
                        if plain and rng.random() < 0.08:
                            cfg["select"] = [rng.choice(plain)]                     # only a plain input, in whatever collection type
                        cfg["selectAsTuple"] = rng.random() < 0.5
                        cfg["selectAsSet"] = len(cfg["select"]) == 1 and rng.random() < 0.5
                        cfg["selectAs"] = rng.choice([None, None, "keys", "gen"])      # ... dict keys, a generator: names all the same
                    if rng.random() < 0.08:
                        # an EMPTY selection (a filter that matched nothing) is a selection: nothing is returned
                        cfg["select"] = []
                        cfg["selectAs"] = rng.choice([None, "keys", "gen"])
                        cfg["selectAsTuple"] = rng.random() < 0.5
                        cfg["selectAsSet"] = False
                    ops["rtselect"] = 1
            cfg["onMissing"] = rng.choice(["ignore", "warn", "error"])
            cfg["errMode"] = rng.choice(["raise", "continue"])
            cfg["maxIter"] = 40
            known = dict((k, v) for k, v in c["values"])
            for runner in (["async"] if async_only else ["sync", "async"]):
                yield {"program": program, "known": [[k, v] for k, v in known.items()], "cfg": cfg, "runner": runner, "ops": ops}

    # ---------------------------------------------------------------- shared: inputs from the reported spec
    @staticmethod
    def _values_from_spec(spec: dict, known: dict) -> list:
        vals = {}
        for r in spec["required"]:
            vals[r] = known.get(r, 1)
        if spec["entrypoints"]:
            for p in spec["entrypoints"][0][1]:
                vals[p] = known.get(p, 1)
        for o in spec["optional"]:
            if o in known and hash(o) % 3 == 0:
                pass
        return [[k, v] for k, v in vals.items()]

    @staticmethod
    def _mapwarn_case(rng: random.Random) -> dict:
        """runner.map over a gated graph with a selection naming BOTH branches' outputs: every item leaves one of them unproduced, and the
        on_missing policy applies to every item, not to the batch."""
        k = rng.randint(1, 3)
        nodes = [{"name": "src", "kind": "fn", "params": [["x", None]], "dataOuts": ["score"], "body": {"b": "sum", "k": 0}},
                 {"name": "judge", "kind": "ifelse", "params": [["score", None]], "targets": ["approve", "reject"], "body": {"b": "lt", "k": k}, "defaultOpen": False},
                 {"name": "approve", "kind": "fn", "params": [["score", None]], "dataOuts": ["approved"], "body": {"b": "tag", "t": "approve"}},
                 {"name": "reject", "kind": "fn", "params": [["score", None]], "dataOuts": ["rejected"], "body": {"b": "tag", "t": "reject"}}]
        rng.shuffle(nodes)
        xs = [rng.randint(0, 4) for _ in range(rng.randint(2, 5))]
        return {"kind": "mapwarn", "program": [{"name": "g0", "nodes": nodes, "bound": []}], "xs": xs, "known": [], "ops": {"map": 1},
                "cfg": {"select": rng.choice([["approved", "rejected"], ["rejected", "approved"], ["approved"]]), "onMissing": rng.choice(["warn", "warn", "ignore"])},
                "runner": rng.choice(["sync", "async"]), "k": rng.choice([None, 2])}

    def _impl_mapwarn(self, case: dict) -> Any:
        cfg = case["cfg"]
        o = impl.map_case(case["program"], [["x", {"l": case["xs"]}]], ["x"], "zip", "raise", cfg, case["runner"],
                          max_concurrency=case["k"] if case["runner"] == "async" else None)
        singles = [impl.run_case(case["program"], None, [["x", x]], cfg, case["runner"]) for x in case["xs"]]
        return {"status": "mapwarn", "map_warnings": o.get("missing_warnings", []), "raised": o.get("raised"),
                "results": [r["values"] for r in o.get("results", [])], "single_warnings": sorted(w for s_ in singles for w in s_.get("missing_warnings", [])),
                "single_values": [s_["values"] for s_ in singles], "calls": o.get("calls", []), "values": []}

    def impl(self, case: dict) -> Any:
        if case.get("kind") == "mapwarn":
            return self._impl_mapwarn(case)
        from .c08 import spec_obs

        env = Env()
        async_bodies = case["runner"] == "async"
        try:
            graphs = build.build_program(case["program"], env, async_bodies=async_bodies)
            g = graphs[-1]
            eff = g
            sel = case["cfg"].get("select")
            invalid_select = False
            if sel is not None and sel != "**":
                try:
                    eff = g.select(*sel)
                except Exception:  # noqa: BLE001 - the selection names something that is not an output: the run must reject it too
                    invalid_select = True
            spec = spec_obs(eff)
        except Exception as e:
            return {"status": "build-error", "detail": f"{type(e).__name__}: {e}"[:200]}
        values = self._values_from_spec(spec, dict((k, v) for k, v in case["known"]))
        # history: a SIBLING of the configured graph (same structure, another entry point, derived from the same base object) runs first in
        # this process; nothing it computed may carry over
        base = env.bases.get(len(graphs) - 1)
        root_spec = case["program"][-1]
        if base is not None and root_spec.get("entrypoints"):
            import warnings as _w

            from hypergraph import SyncRunner as _SR

            others = [n["name"] for n in root_spec["nodes"] if n["kind"] not in ("route", "ifelse") and n["name"] not in root_spec["entrypoints"]]
            saved = (env.log, env.park, env.inflight, env.max_inflight, env.received)
            env.log, env.park, env.received = [], None, []
            try:
                for other in others[:2]:
                    try:
                        sib = base.with_entrypoint(other)
                        with _w.catch_warnings():
                            _w.simplefilter("ignore")
                            # (through the SAME long-lived runner object the case itself will use)
                            if not async_bodies:
                                impl._runner("sync").run(sib, {k: 1 for k in sib.inputs.required}, error_handling="continue", max_iterations=20)
                            else:
                                import asyncio as _aio

                                _aio.run(impl._runner("async").run(sib, {k: 1 for k in sib.inputs.required}, error_handling="continue", max_iterations=20))
                    except Exception:  # noqa: BLE001 - the sibling's own fate is irrelevant
                        pass
            finally:
                env.log, env.park, env.inflight, env.max_inflight, env.received = saved
        obs = impl.run_case(case["program"], None, values, case["cfg"], case["runner"], env=env, graphs=graphs, record_events=False)
        obs["values_used"] = values
        obs["invalid_select"] = invalid_select
        obs["graph_outputs"] = list(g.outputs)
        obs["inner_exposed"] = [[n.name, list(n.outputs)] for n in g.nodes.values() if type(n).__name__ == "GraphNode"]
        return obs

    def oracle(self, case: dict, obs: Any) -> str | None:
        if case.get("kind") == "mapwarn":
            if obs["raised"] is not None:
                return f"map over a gated graph with on_missing={case['cfg']['onMissing']!r} raised {obs['raised']}"
            if obs["results"] != obs["single_values"]:
                return f"map results {obs['results']} differ from the single runs {obs['single_values']}"
            if obs["map_warnings"] != obs["single_warnings"]:
                return (f"on_missing={case['cfg']['onMissing']!r}: the map issued the missing-output warnings {obs['map_warnings']}, the same items run one by one "
                        f"issue {obs['single_warnings']}")
            return None
        if obs["status"] == "build-error":
            return None if "select" in obs.get("detail", "") or "Select" in obs.get("detail", "") or "bind" in obs.get("detail", "") else f"configuration rejected: {obs['detail']}"
        program = case["program"]
        root = program[-1]
        cfg = case["cfg"]
        if obs.get("invalid_select"):
            if not (obs["status"] == "failed" and obs.get("raised") and "GraphConfigError" in str(obs.get("error"))):
                return f"a run-time select naming something that is not an output ({cfg.get('select')}) was not rejected: {obs['status']} {obs['values']}"
            return None
        # (a) entry points: only entry nodes and nodes downstream of them execute
        if root.get("entrypoints") is not None:
            allowed = downstream(program, root["entrypoints"])
            root_nodes = {n["name"] for n in root["nodes"]}
            gi = len(program) - 1
            for f, _ in obs["calls"]:
                g_idx, name = f.split(":", 1)
                if int(g_idx) == gi and name in root_nodes and name not in allowed:
                    return f"node {name!r} executed although it is neither an entry point nor downstream of one ({sorted(root['entrypoints'])})"
        # (b) result keys
        outputs = set(obs["graph_outputs"])
        sel = cfg.get("select")
        if sel is None or sel == "**":
            eff = set(root["selected"]) if (sel is None and root.get("selected") is not None) else outputs
        else:
            eff = set(sel)
        # ordering-only names: signals emitted at this level or inside a nested graph (exposed under the wrapper's output names)
        ordering_only = {e for n in root["nodes"] for e in n.get("emits", [])}
        for n in root["nodes"]:
            if n["kind"] == "graph":
                ren = dict(n.get("outRen", []))
                inner = program[n["inner"]]
                data = {o for m in inner["nodes"] for o in m.get("dataOuts", [])}
                ordering_only |= {ren.get(e, e) for m in inner["nodes"] for e in m.get("emits", []) if e not in data}
        # (a name the CALLER supplied — the upstream value of a by-passed producer under entry points — is an ordinary value taken from
        #  the caller, whatever its producer would have made of it)
        supplied = {k for k, _ in obs.get("values_used", [])}
        for k, v in obs["values"]:
            if k in ordering_only and k not in supplied:
                return f"result contains the ordering-only name {k!r} (value {v!r})"
            if k not in outputs:
                return f"result contains {k!r}, which is not a declared output of the graph"
            if k not in eff:
                return f"result contains {k!r}, which is outside the effective selection {sorted(eff)}"
            if v == {"s": 1} or (isinstance(v, dict) and "other" in v):
                return f"result value of {k!r} is an internal object ({v})"
            if k.startswith("__"):
                return f"internal bookkeeping key {k!r} in the result"
        # (b') completeness: an output inside the effective selection whose producing function node RAN in this completed run is returned
        if obs["status"] == "completed":
            have_b = {k for k, _ in obs["values"]}
            gi_b = len(program) - 1
            ran_b = {f.split(":", 1)[1] for f, _ in obs.get("calls", []) if f.split(":", 1)[0] == str(gi_b)}
            for n in root["nodes"]:
                if n["kind"] == "fn" and n["name"] in ran_b:
                    for o in n.get("dataOuts", []):
                        if o in eff and o in outputs and o not in have_b:
                            return f"node {n['name']!r} ran and the run completed, yet its output {o!r} (inside the effective selection) is not in the result"
        # (c) on_missing
        if obs["status"] == "completed" and sel not in (None, "**"):
            have = {k for k, _ in obs["values"]}
            # a selected ordering signal is present in the state but never returned; it does not count as missing
            if cfg["onMissing"] == "ignore" and obs["warnings"]:
                return "on_missing=ignore emitted a warning"
        ran_nodes = {f.split(":", 1)[1] for f, _ in obs.get("calls", [])}
        produced_signals = {e for n in root["nodes"] if n["name"] in ran_nodes for e in n.get("emits", [])}
        if sel not in (None, "**") and cfg["onMissing"] == "error" and obs["status"] == "completed":
            have = {k for k, _ in obs["values"]}
            emits = {e for n in root["nodes"] for e in n.get("emits", [])}
            missing = [s for s in sel if s not in have and s not in emits]
            if missing:
                return f"on_missing=error but the run completed without {missing}"
        if obs["status"] == "completed" and cfg["onMissing"] == "warn" and sel not in (None, "**"):
            have = {k for k, _ in obs["values"]}
            emits = {e for n in root["nodes"] for e in n.get("emits", [])}
            missing = [s for s in sel if s not in have and s not in emits]
            if missing and obs["warnings"] != 1:
                return f"on_missing=warn with missing {missing}: {obs['warnings']} warnings instead of exactly one"
            if not missing and all(s in produced_signals for s in sel if s in emits) and obs["warnings"]:
                return "on_missing=warn warned although nothing was missing (a selected ordering signal whose producer ran is not missing)"
        # (e) nested graph exposes exactly its default selection
        for name, exposed in obs.get("inner_exposed", []):
            spec = next(n for n in root["nodes"] if n["name"] == name)
            inner = program[spec["inner"]]
            if inner.get("selected") is not None:
                ren = dict(spec.get("outRen", []))
                want = [ren.get(o, o) for o in inner["selected"]]
                if exposed != want:
                    return f"nested graph {name!r} exposes {exposed}, its default selection is {want}"
        return None

    def model(self, case: dict, driver: Any) -> Any:
        if case.get("kind") == "mapwarn" or case.get("pyOnly"):
            return None
        sel = case["cfg"].get("select")
        if sel is not None and sel != "**":
            s = driver.ask({"op": "specsel", "program": case["program"], "select": sel})
            if "rejected" in s:
                return {"status": "build-error"}
        else:
            s = driver.ask({"op": "spec", "program": case["program"]})[-1]["spec"]
        spec = {"required": s["required"], "optional": s["optional"], "entrypoints": sorted(s["entrypoints"])}
        values = self._values_from_spec(spec, dict((k, v) for k, v in case["known"]))
        r = driver.ask({"op": "runc", "program": case["program"], "values": values, "cfg": case["cfg"], "runner": case["runner"]})
        if "rejected" in r:
            return {"status": "failed", "values": [], "error": r["rejected"], "raised": True, "calls": [], "warnings": 0, "values_used": values}
        m = impl.model_obs(r)
        m["values_used"] = values
        return m

    def compare(self, case: dict, i: Any, m: Any) -> str | None:
        if case.get("kind") == "mapwarn" or case.get("pyOnly"):
            return None      # warnings of a map are judged against the single runs of the same items (oracle)
        if i.get("invalid_select"):
            # the selection names a non-output: the model rejects it (build-error), the implementation must have rejected the run (oracle)
            return None if m["status"] == "build-error" else f"the model accepts the selection {case['cfg'].get('select')} that graph.select() rejects"
        if i["status"] == "build-error" or m["status"] == "build-error":
            return None if i["status"] == m["status"] else f"status: impl={i['status']} ({i.get('detail')}) model={m['status']}"
        if i["values_used"] != m["values_used"]:
            return f"inputs derived from the reported spec differ: impl={i['values_used']} model={m['values_used']}"
        for k in ("status", "values", "error", "raised", "warnings"):
            if impl.differ(i.get(k), m.get(k)):
                return f"{k}: impl={i.get(k)!r} model={m.get(k)!r}"
        ic, mc = impl.sort_calls(i["calls"]), impl.sort_calls(m["calls"])
        if ic != mc:
            return f"call multiset differs: impl={ic} model={mc}"
        return None

    def nontrivial(self, case: dict, obs: Any) -> bool:
        return bool(case["ops"]) and obs.get("status") != "build-error"

    def features(self, case: dict, obs: Any) -> dict:
        return {"ops": "+".join(sorted(case["ops"])) or "none", "status": obs.get("status"), "onMissing": case["cfg"]["onMissing"],
                "runner": case["runner"], "error": (obs.get("error") or "")[:12]}

    def expand_fixed(self, case: dict) -> list[dict]:
        return [case]

    def signature(self, case: dict, obs: Any, why: str) -> str:
        key = {"program": case["program"], "known": case["known"], "cfg": case["cfg"]}
        if "xs" in case:
            key["xs"] = case["xs"]
        return "case:" + canonical_hash(key)

    def sample(self, case: dict, obs: Any) -> Any:
        return {"program": case["program"], "cfg": case["cfg"], "runner": case["runner"]}

    def neighbours(self, case: dict, rng: random.Random) -> Iterable[dict]:
        yield from self.cases(rng, "quick")


PROP = C16()
