"""C09 — caching is transparent, even with eviction, corruption or a torn write."""
from __future__ import annotations

import copy
import hashlib
import json
import pickle
import random
import shutil
import tempfile
from typing import Any, Iterable

from .. import build, common, gen, impl
from ..build import Env, enc_val, py_val
from ..engine import Prop, canonical_hash

common.use_repo()
import hypergraph.cache as hcache  # noqa: E402
from hypergraph.cache import DiskCache, InMemoryCache  # noqa: E402

TAMPERS = ["payload_flip", "payload_trunc", "payload_type", "payload_del", "hmac_del", "hmac_garbage", "hmac_type", "hmac_nonascii",
           "payload_pickled", "hmac_pickled", "payload_half", "payload_append", "payload_midflip"]

FIRED: list[str] = []


def _fire(tag: str) -> int:
    FIRED.append(tag)
    return 0


class Tracer:
    """An object whose DESERIALISATION leaves a trace (what a crafted pickle does with arbitrary code)."""

    def __init__(self, tag: str) -> None:
        self.tag = tag

    def __reduce__(self) -> tuple:
        return (_fire, (self.tag,))


# for the Lean disk model a row rewritten in the store's own pickle mode is a payload / signature of the wrong type
MODEL_TAMPER = {"payload_pickled": "payload_type", "hmac_pickled": "hmac_type",
                # partial damage of the stored bytes (half written, garbage appended, one byte flipped): a changed payload under an intact signature
                "payload_half": "payload_flip", "payload_append": "payload_flip", "payload_midflip": "payload_flip"}


def _model_steps(steps: list[dict]) -> list[dict]:
    """Disk steps in the vocabulary of the Lean model (its signature is a function of the PAIR (key, payload): a signed entry replayed under
    another key with a shifted payload is, there, a changed payload under a signature that does not match)."""
    out = []
    for st in steps:
        if st["t"] == "replay_shifted":
            out += [{"t": "payload_flip", "k": st["k"]}, {"t": "hmac_garbage", "k": st["k"]}]
        else:
            out.append(dict(st, t=MODEL_TAMPER.get(st["t"], st["t"])))
    return out


class RecordingCache:
    """Wraps a real backend; records every get/set with its outcome (for the LRU correspondence)."""

    def __init__(self, inner: Any) -> None:
        self.inner = inner
        self.ops: list = []

    def get(self, key: str) -> tuple[bool, Any]:
        hit, v = self.inner.get(key)
        self.ops.append(["get", key, hit, v])
        return hit, v

    def set(self, key: str, value: Any) -> None:
        self.ops.append(["set", key, value])
        self.inner.set(key, value)


class PickleSpy:
    """Stands in for the `pickle` module inside hypergraph.cache: counts deserialisations."""

    def __init__(self) -> None:
        self.loads_calls: list[bytes] = []

    def loads(self, b: bytes) -> Any:
        self.loads_calls.append(b)
        return pickle.loads(b)  # noqa: S301

    def __getattr__(self, name: str) -> Any:
        return getattr(pickle, name)


def mark_cacheable(rng: random.Random, program: list[dict]) -> list[dict]:
    p = copy.deepcopy(program)
    for g in p:
        for n in g["nodes"]:
            if n["kind"] in ("fn", "route", "ifelse") and rng.random() < 0.6:
                n["cache"] = True
    return p


class C09(Prop):
    id = "C09"
    level = "proof"
    nontrivial_rule = (
        "(a) programs from the DAG / gated / loop / nested generators with a random subset of nodes and gates cacheable x backends "
        "{unbounded, LRU 1-4, disk} x sequences of 1-4 runs sharing one cache across both runners, compared with uncached runs; "
        "(b) the recorded get/set sequence of the real InMemoryCache replayed through the Lean LRU model; (c) DiskCache scenarios: "
        "stored entries x corruption classes (bit flip, truncation, type change, missing payload, missing/garbage/mistyped signature) x "
        "torn writes, with a pickle.loads spy, compared with the Lean disk model; non-trivial = a cache hit occurred or a corrupted "
        "entry was read; distinct by canonical hash"
    )
    budgets = {"quick": 150, "thorough": 3000}
    assumptions = ["SHA-256 collision freedom and HMAC unforgeability are hypotheses of the theorems", "pickle and diskcache behave as documented"]

    def cases(self, rng: random.Random, tier: str) -> Iterable[dict]:
        # every dedicated family is visited at least twice per run, whatever the seed; the rest is drawn at random
        closure_variant = 0
        derived_toggle = 0
        container_first = 1
        twins_split = 2
        forced = [0.04, 0.11, 0.16, 0.16, 0.21, 0.245, 0.28, 0.28, 0.32, 0.35, 0.35, 0.35, 0.35, 0.38, 0.41, 0.45, 0.48, 0.51, 0.53, 0.7, 0.7, 0.7] * 2
        while True:
            r = forced.pop() if forced else rng.random()
            if r < 0.08:
                # two nodes over ONE function whose output names are the same set in a different order, sharing a cache
                outs = ["lo", "hi", "mid"][: rng.choice([2, 3])]
                perm = outs[:]
                while perm == outs:
                    rng.shuffle(perm)
                na = {"name": "na", "kind": "fn", "params": [["x", None]], "dataOuts": outs, "body": {"b": "multi", "t": "shared", "k": len(outs)}, "cache": True}
                nb = {"name": "nb", "kind": "fn", "params": [["x", None]], "dataOuts": [o + "2" for o in perm], "body": {"b": "multi", "t": "shared", "k": len(outs)},
                      "cache": True, "sameFuncAs": "na"}
                # same names in another order need a second graph (one graph cannot hold two producers of a name)
                prog_a = [{"name": "g0", "nodes": [na], "bound": []}]
                nb2 = dict(nb, dataOuts=perm, name="na", sameFuncAs=None)
                second = dict(na, dataOuts=perm)
                derived_toggle += 1
                if derived_toggle % 2 == 1:      # every other visit (the family is visited several times per run, whatever the seed)
                    # the second node is DERIVED from the first node object (with_outputs: a swap / rotation of the names, or fresh
                    # names) AFTER that object was run against the cache
                    second = dict(na, dataOuts=perm if rng.random() < 0.5 else [o + "_z" for o in outs], deriveOutputsFrom="na")
                if twins_split or rng.random() < 0.25:
                    # ... or the same function with the SAME names split differently: ("lo", "hi") as two values versus "lo" as the value and
                    # "hi" as an ordering signal
                    twins_split = max(0, twins_split - 1)
                    second = dict(na, dataOuts=[outs[0]], emits=[outs[1]] + outs[2:])
                yield {"kind": "runs2", "programs": [prog_a, [{"name": "g0", "nodes": [second], "bound": []}]],
                       "values": [["x", rng.randint(0, 5)]], "backend": rng.choice(["mem", "lru2", "disk"]), "runner": rng.choice(["sync", "async"])}
                continue
            if 0.26 <= r < 0.30:
                # (a) a cacheable node WITHOUT outputs and a cacheable gate deciding nothing: their stored entry is an empty dict, still a hit;
                # (b) the same node called with equal-but-distinct arguments (1 / True, 0 / False): different arguments, different entries
                v0 = rng.choice([0, 1])
                nodes = [{"name": "audit", "kind": "fn", "params": [["x", None]], "dataOuts": [], "body": {"b": "tag", "t": "audit"}, "cache": True},
                         {"name": "gt", "kind": "route", "params": [["x", None]], "targets": ["big", "__END__"], "multiTarget": False, "fallback": None,
                          "defaultOpen": rng.random() < 0.5, "body": {"b": "table", "rows": [[7, "big"]], "dflt": None}, "cache": True},
                         {"name": "big", "kind": "fn", "params": [["x", None]], "dataOuts": ["b"], "body": {"b": "tag", "t": "big"}},
                         {"name": "lab", "kind": "fn", "params": [["x", None]], "dataOuts": ["label"], "body": {"b": "tag", "t": "lab"}, "cache": True}]
                rng.shuffle(nodes)
                a, b2 = (v0, bool(v0)) if rng.random() < 0.5 else (bool(v0), v0)
                r1, r2 = ("sync", "async") if rng.random() < 0.6 else ("async", "sync")
                # every runner meets the SAME argument again (its own earlier entry, and the other runner's), then the equal-but-distinct one
                seq = [(a, r1), (a, r2), (a, r1), (b2, r1), (b2, r2), (b2, r1), (a, r2)]
                yield {"kind": "runs", "program": [{"name": "g0", "nodes": nodes, "bound": []}],
                       "runs": [{"values": [["x", v]], "runner": rn} for v, rn in seq[: rng.randint(3, len(seq))]],
                       "backend": rng.choice(["mem", "mem", "lru4", "disk"])}
                continue
            if 0.30 <= r < 0.34:
                # one cacheable node called, run after run, with DIFFERENT arguments that are containers of the same elements (a dict and its
                # item list, a set / frozenset / list / tuple of the same members, nested): different arguments, different entries
                fam = rng.choice([
                    [{"d": [["a", 1], ["b", 2]]}, {"l": [{"t": ["a", 1]}, {"t": ["b", 2]}]}, {"d": [["b", 2], ["a", 1]]}, {"l": [{"l": ["a", 1]}, {"l": ["b", 2]}]}],
                    [{"S": [1, 2, 3]}, {"l": [1, 2, 3]}, {"F": [1, 2, 3]}, {"t": [1, 2, 3]}],
                    [{"d": [["k", {"S": ["x", "y"]}]]}, {"d": [["k", {"l": ["x", "y"]}]]}, {"l": [{"t": ["k", {"l": ["x", "y"]}]}]}],
                    [{"S": []}, {"l": []}, {"d": []}, {"F": []}, {"t": []}],
                ])
                seq = [rng.choice(fam) for _ in range(rng.randint(3, 5))]
                seq[1] = rng.choice([v for v in fam if v != seq[0]])
                if container_first:
                    # whatever the seed: a list and a tuple of the same members, one after the other
                    container_first -= 1
                    seq = [{"l": [1, 2, 3]}, {"t": [1, 2, 3]}, {"l": [1, 2, 3]}, {"t": [1, 2, 3]}]
                nodes = [{"name": "lab", "kind": "fn", "params": [["x", None]], "dataOuts": ["label"], "body": {"b": "tag", "t": "lab"}, "cache": True},
                         {"name": "use", "kind": "fn", "params": [["label", None]], "dataOuts": ["u"], "body": {"b": "tag", "t": "use"}, "cache": rng.random() < 0.5}]
                yield {"kind": "runs", "program": [{"name": "g0", "nodes": nodes, "bound": []}],
                       "runs": [{"values": [["x", v]], "runner": rng.choice(["sync", "async"])} for v in seq],
                       "backend": rng.choice(["mem", "lru4", "disk"])}
                continue
            if 0.34 <= r < 0.37:
                # two functions made by ONE factory (identical, retrievable source text) that captured different values: different definitions
                closure_variant += 1
                if closure_variant % 4 == 0:
                    # LONG captured values that differ far from both ends (a prompt template, a lookup table, a deep structure): an
                    # abbreviated description of the captured value is not the value
                    kind_l = rng.choice(["str", "list", "deep"])
                    if kind_l == "str":
                        c1, c2 = ["p" * 150 + "English" + "q" * 150, None], ["p" * 150 + "Francais" + "q" * 150, None]
                    elif kind_l == "list":
                        base_l = list(range(80))
                        c1, c2 = [{"l": base_l}, None], [{"l": base_l[:-1] + [999]}, None]
                    else:
                        def deep(v: Any, n: int = 14) -> Any:
                            for _ in range(n):
                                v = {"l": [v]}
                            return v
                        c1, c2 = [deep(4), None], [deep(5), None]
                elif closure_variant % 4 == 1:
                    c1, c2 = rng.sample([[0, None], [1, None], [2, None], ["a", None], [{"t": [1]}, None], [{"plain": 1}, None]], 2)
                elif closure_variant % 4 == 2:
                    # two captured values whose printed forms CONCATENATE to the same text
                    c1, c2 = rng.choice([([1, 23], [12, 3]), ([10, 1], [1, 1]), ([7, 70], [77, 0])])
                    if rng.random() < 0.5:
                        c1, c2 = c2, c1
                else:
                    # captured objects WITHOUT value semantics (default, address-bearing repr): two different objects, two definitions
                    c1, c2 = [{"plain": 1}, 5], [{"plain": 2}, 5]
                mk = lambda c: [{"name": "g0", "nodes": [{"name": "na", "kind": "fn", "params": [["x", None]], "dataOuts": ["out"],  # noqa: E731
                                                          "body": {"b": "closure", "t": "made", "c": c[0], "c2": c[1]}, "cache": True}], "bound": []}]
                yield {"kind": "runs2", "programs": [mk(c1), mk(c2)], "values": [["x", rng.randint(0, 3)]],
                       "backend": rng.choice(["mem", "lru2", "disk"]), "runner": rng.choice(["sync", "async"]), "share": False}
                continue
            if 0.47 <= r < 0.50:
                # an AUTHENTIC disk entry whose value can no longer be reconstructed (its class was renamed / moved / changed between two
                # releases of the application): a miss, never an exception
                yield {"kind": "diskghost", "how": rng.choice(["class_gone", "module_gone", "ctor_changed"]), "v": rng.randint(0, 9),
                       "via": rng.choice(["get", "run"])}
                continue
            if 0.43 <= r < 0.47:
                # the definition hash itself: pairs of real functions that differ in exactly one knob (or none)
                pairs = []
                for _ in range(rng.randint(4, 8)):
                    a = {"src": rng.random() < 0.5, "c": rng.choice([1, 12, 7, "a"]), "d": rng.choice([23, 3, 70, "b"]), "K": rng.choice([0, 1, "k"]),
                         "lamk": rng.randint(0, 3), "attr": rng.choice(["upper", "lower"]), "kw": rng.choice([None, 0, 1])}
                    b = dict(a)
                    knob = rng.choice(["none", "c", "d", "cd", "K", "lamk", "attr", "kw", "src"])
                    if knob == "cd":
                        a["c"], a["d"], b["c"], b["d"] = rng.choice([(1, 23, 12, 3), (10, 1, 1, 1), (7, 70, 77, 0)])
                    elif knob == "src":
                        b["src"] = not a["src"]
                    elif knob != "none":
                        pool = {"c": [1, 12, 7, "a", 2], "d": [23, 3, 70, "b", 4], "K": [0, 1, "k", 5], "lamk": [0, 1, 2, 3, 4], "attr": ["upper", "lower", "title"], "kw": [None, 0, 1, 2]}[knob]
                        b[knob] = rng.choice([v for v in pool if v != a[knob]])
                    pairs.append([a, b, knob])
                yield {"kind": "defhash", "pairs": pairs}
                continue
            if 0.40 <= r < 0.43:
                # a cacheable producer of a LIST and a consumer that grows the list it receives in place, run twice on one cache
                x = rng.randint(0, 3)
                nodes = [{"name": "mk", "kind": "fn", "params": [["x", None]], "dataOuts": ["lst"], "body": {"b": "append"}, "cache": True},
                         {"name": "grow", "kind": "fn", "params": [["lst", None]], "dataOuts": ["n"], "body": {"b": "mutAppend", "t": "grow", "k": 7}}]
                rng.shuffle(nodes)
                yield {"kind": "runs", "program": [{"name": "g0", "nodes": nodes, "bound": []}], "mutating": True,
                       "runs": [{"values": [["x", x]], "runner": rng.choice(["sync", "async"])} for _ in range(rng.randint(2, 3))],
                       "backend": rng.choice(["mem", "lru2", "disk"])}
                continue
            if 0.37 <= r < 0.40:
                # two definitions without retrievable source that differ only INSIDE a nested code object (a lambda's constant)
                k1, k2 = rng.sample(range(0, 6), 2)
                mk = lambda k: [{"name": "g0", "nodes": [{"name": "na", "kind": "fn", "params": [["x", None]], "dataOuts": ["out"],  # noqa: E731
                                                          "body": {"b": "lam", "t": "lam", "k": k}, "cache": True}], "bound": []}]
                yield {"kind": "runs2", "programs": [mk(k1), mk(k2)], "values": [["x", rng.randint(0, 3)]],
                       "backend": rng.choice(["mem", "lru2", "disk"]), "runner": rng.choice(["sync", "async"]), "share": False}
                continue
            if 0.23 <= r < 0.26:
                # two DIFFERENT definitions without retrievable source whose bytecode differs only in a referenced name
                m1, m2 = rng.sample(["upper", "lower", "title", "swapcase"], 2)
                mk = lambda m: [{"name": "g0", "nodes": [{"name": "na", "kind": "fn", "params": [["x", None]], "dataOuts": ["out"],  # noqa: E731
                                                          "body": {"b": "strAttr", "t": "s", "m": m}, "cache": True}], "bound": []}]
                yield {"kind": "runs2", "programs": [mk(m1), mk(m2)], "values": [["x", rng.choice(["aB", "Hello wORLD", "x"])]],
                       "backend": rng.choice(["mem", "lru2", "disk"]), "runner": rng.choice(["sync", "async"]), "share": False}
                continue
            if 0.19 <= r < 0.23:
                # a cacheable interrupt: paused, resumed with a human's answer, then run again WITHOUT an answer (and with another answer)
                x = rng.randint(0, 3)
                prog = [{"name": "g0", "nodes": [
                    {"name": "mk", "kind": "fn", "params": [["x", None]], "dataOuts": ["draft"], "body": {"b": "sum", "k": 1}, "cache": rng.random() < 0.5},
                    {"name": "ask", "kind": "interrupt", "params": [["draft", None]], "dataOuts": ["decision"], "body": {"b": "handler", "k": rng.choice([None, None, 2])}, "cache": True},
                    {"name": "fin", "kind": "fn", "params": [["decision", None]], "dataOuts": ["fin"], "body": {"b": "tag", "t": "fin"}, "cache": rng.random() < 0.5}], "bound": []}]
                seqs = [{"values": [["x", x]], "runner": "async"}, {"values": [["x", x], ["decision", 40]], "runner": "async"},
                        {"values": [["x", x]], "runner": "async"}, {"values": [["x", x], ["decision", 41]], "runner": "async"}, {"values": [["x", x]], "runner": "async"}]
                yield {"kind": "runs", "program": prog, "runs": seqs[: rng.randint(3, 5)], "backend": rng.choice(["mem", "lru2", "disk"])}
                continue
            if r < 0.19 and r >= 0.14:
                # one gate function behind two route gates that differ ONLY by their fallback, sharing a cache
                gate = {"name": "gt", "kind": "route", "params": [["x", None]], "targets": ["ta", "tb"], "fallback": "ta", "multiTarget": False, "defaultOpen": rng.random() < 0.5,
                        "body": {"b": "table", "rows": [[1, "tb"], [2, "ta"]], "dflt": None}, "cache": True}
                ta = {"name": "ta", "kind": "fn", "params": [["x", None]], "dataOuts": ["ra"], "body": {"b": "tag", "t": "ta"}}
                tb = {"name": "tb", "kind": "fn", "params": [["x", None]], "dataOuts": ["rb"], "body": {"b": "tag", "t": "tb"}}
                progs = [[{"name": "g0", "nodes": [dict(gate, name="na"), ta, tb], "bound": []}], [{"name": "g0", "nodes": [dict(gate, name="na", fallback="tb"), ta, tb], "bound": []}]]
                for pr in progs:
                    pr[0]["nodes"][0]["targets"] = ["ta", "tb"]
                twin_variant = getattr(self, "_twin_variant", 0) + 1
                self._twin_variant = twin_variant
                if twin_variant % 3 == 2:
                    # ... or two if/else gates over ONE predicate with the branches swapped: the order of the targets IS the polarity
                    ie = {"name": "na", "kind": "ifelse", "params": [["x", None]], "targets": ["ta", "tb"], "body": {"b": "lt", "k": 2}, "cache": True,
                          "defaultOpen": rng.random() < 0.5}
                    end_variant = rng.random() < 0.3
                    ie2 = dict(ie, targets=(["__END__", "ta"] if end_variant else ["tb", "ta"]))
                    if end_variant:
                        ie = dict(ie, targets=["ta", "__END__"])
                    progs = [[{"name": "g0", "nodes": [ie, ta, tb], "bound": []}], [{"name": "g0", "nodes": [ie2, ta, tb], "bound": []}]]
                elif twin_variant % 3 == 0:
                    # ... or differ ONLY by multi_target (same function, same targets, no fallback): the multi-target gate must not be
                    # served the single decision of the other one
                    g1 = dict(gate, name="na", fallback=None)
                    g2 = dict(g1, multiTarget=True)
                    progs = [[{"name": "g0", "nodes": [g1, ta, tb], "bound": []}], [{"name": "g0", "nodes": [g2, ta, tb], "bound": []}]]
                if rng.random() < 0.5:
                    progs.reverse()
                yield {"kind": "runs2", "programs": progs, "values": [["x", rng.choice([0, 0, 1, 2, 5])]],
                       "backend": rng.choice(["mem", "lru2", "disk"]), "runner": rng.choice(["sync", "async"])}
                continue
            if r < 0.14:
                # one function behind two nodes that differ ONLY by a rename of its parameters (swap / rotation), sharing a cache
                params = ["x", "y", "z"][: rng.choice([2, 2, 3])]
                perm = params[:]
                while perm == params:
                    rng.shuffle(perm)
                na = {"name": "na", "kind": "fn", "params": [[q, None] for q in params], "dataOuts": ["out"], "body": {"b": "tag", "t": "shared"}, "cache": True}
                nb = dict(na, inRen=[[a, b] for a, b in zip(params, perm) if a != b])
                vals = rng.sample(range(0, 9), len(params))
                progs = [[{"name": "g0", "nodes": [na], "bound": []}], [{"name": "g0", "nodes": [nb], "bound": []}]]
                if rng.random() < 0.5:
                    progs.reverse()
                yield {"kind": "runs2", "programs": progs, "values": [[q, v] for q, v in zip(params, vals)],
                       "backend": rng.choice(["mem", "lru2", "disk"]), "runner": rng.choice(["sync", "async"])}
                continue
            if 0.52 <= r < 0.54:
                # a cacheable node that UPDATES ITS ARGUMENT in place (push onto the list it was given): the entry is stored under the arguments
                # it was CALLED with, so the same call made again is a hit (and a call whose arguments equal the mutated state is another call)
                x = [rng.randint(0, 3) for _ in range(rng.randint(1, 3))]
                nodes = [{"name": "grow", "kind": "fn", "params": [["lst", None]], "dataOuts": ["n"], "body": {"b": "mutAppend", "t": "grow", "k": 7}, "cache": True},
                         {"name": "after", "kind": "fn", "params": [["n", None]], "dataOuts": ["fin"], "body": {"b": "tag", "t": "after"}}]
                rng.shuffle(nodes)
                seq = [x, x, x + [7], x][: rng.randint(2, 4)]
                yield {"kind": "runs", "program": [{"name": "g0", "nodes": nodes, "bound": []}], "check_reinvoke": True,
                       "runs": [{"values": [["lst", {"l": list(v)}]], "runner": rng.choice(["sync", "async"])} for v in seq],
                       "backend": rng.choice(["mem", "lru4", "disk"])}
                continue
            if 0.50 <= r < 0.52:
                # a cacheable multi-target gate whose routing function answers with ONE list object that it keeps and rewrites on every call:
                # the entry stored for the first argument must still route as it did when that argument comes back
                nodes = [{"name": "start", "kind": "fn", "params": [["x", None]], "dataOuts": ["v"], "body": {"b": "sum", "k": 0}},
                         {"name": "fan", "kind": "route", "params": [["v", None]], "targets": ["t1", "t2", "__END__"], "multiTarget": True, "fallback": None,
                          "defaultOpen": rng.random() < 0.5, "body": {"b": "tableKept", "rows": [[0, ["t1"]], [1, ["t2"]], [2, ["t1", "t2"]], [3, []]], "dflt": []}, "cache": True},
                         {"name": "t1", "kind": "fn", "params": [["v", None]], "dataOuts": ["r1"], "body": {"b": "tag", "t": "t1"}},
                         {"name": "t2", "kind": "fn", "params": [["v", None]], "dataOuts": ["r2"], "body": {"b": "tag", "t": "t2"}}]
                rng.shuffle(nodes)
                a, b2 = rng.sample([0, 1, 2, 3], 2)
                rn = rng.choice(["sync", "async"])
                yield {"kind": "runs", "program": [{"name": "g0", "nodes": nodes, "bound": []}],
                       "runs": [{"values": [["x", v]], "runner": rn} for v in (a, b2, a, b2)[: rng.randint(3, 4)]], "backend": rng.choice(["mem", "mem", "lru4"]),
                       "buildOnce": True}
                continue
            if r < 0.65:
                g = rng.random()
                if g < 0.5:
                    c = gen.gen_dag_program(rng, max_nodes=6, depth=rng.choice([0, 1]), allow_fed_default=False)
                elif g < 0.8:
                    c = gen.gen_gated_dag(rng)
                else:
                    c = gen.gen_loop(rng)
                backend = rng.choice(["mem", "mem", "lru1", "lru2", "lru3", "lru4", "disk"])
                n_runs = rng.randint(1, 5)
                # later runs may change one input value (different arguments must miss)
                seqs = []
                vals = c["values"]
                for i in range(n_runs):
                    if i and rng.random() < 0.4 and vals:
                        vals = [list(v) for v in vals]
                        j = rng.randrange(len(vals))
                        # equal-but-distinct values (1 == True, 0 == False) are DIFFERENT arguments
                        cur = vals[j][1]
                        if cur is True or cur is False:
                            vals[j][1] = int(cur)
                        elif cur in (0, 1) and isinstance(cur, int) and rng.random() < 0.6:
                            vals[j][1] = bool(cur)
                        else:
                            vals[j][1] = rng.choice([0, 1, 0, 1, 2, 3, 4, True, False])
                    seqs.append({"values": vals, "runner": rng.choice(["sync", "async"])})
                yield {"kind": "runs", "program": mark_cacheable(rng, c["program"]), "runs": seqs, "backend": backend}
            else:
                steps = []
                keys = ["k1", "k2"]
                if rng.random() < 0.4:
                    # an entry that has ALREADY been served by this instance is damaged afterwards (payload only, signature intact)
                    k0 = rng.choice(keys)
                    steps += [{"t": "set", "k": k0, "v": rng.randint(0, 9)}, {"t": "get", "k": k0},
                              {"t": rng.choice(["payload_flip", "payload_trunc", "payload_type"]), "k": k0}, {"t": "get", "k": k0}]
                if rng.random() < 0.4:
                    # a LARGE entry, partly damaged (half written / garbage appended / one byte flipped in the middle), then read
                    k0 = rng.choice(keys)
                    steps += [{"t": "set", "k": k0, "v": {"l": [rng.randint(0, 9)] * rng.choice([1500, 9000])}},
                              {"t": rng.choice(["payload_half", "payload_append", "payload_midflip"]), "k": k0}, {"t": "get", "k": k0}]
                for _ in range(rng.randint(3, 10)):
                    k = rng.choice(keys)
                    t = rng.random()
                    if t < 0.3:
                        # (sometimes a LARGE value — several KiB pickled: stores treat big payloads differently: files, compression)
                        steps.append({"t": "set", "k": k, "v": rng.randint(0, 9) if rng.random() < 0.7 else {"l": [rng.randint(0, 9)] * rng.choice([1500, 9000])}})
                    elif t < 0.4:
                        steps.append({"t": "crashSet", "k": k, "v": rng.randint(10, 19)})
                    elif t < 0.65:
                        steps.append({"t": rng.choice(TAMPERS), "k": k})
                    else:
                        steps.append({"t": "get", "k": k})
                if rng.random() < 0.35:
                    # a correctly signed entry of "k1" / "k2" REPLAYED under the shorter key "k", the cut-off character moved into the payload:
                    # key and payload are signed as a pair, not as their concatenation
                    src = rng.choice(keys)
                    steps += [{"t": "set", "k": src, "v": rng.randint(0, 9)}, {"t": "replay_shifted", "k": "k", "src": src}, {"t": "get", "k": "k"}]
                steps.append({"t": "get", "k": "k1"})
                steps.append({"t": "get", "k": "k2"})
                yield {"kind": "disk", "steps": steps}

    # ---------------------------------------------------------------- implementation
    def impl(self, case: dict) -> Any:
        if case["kind"] == "disk":
            return self._impl_disk(case)
        if case["kind"] == "defhash":
            return self._impl_defhash(case)
        if case["kind"] == "diskghost":
            return self._impl_diskghost(case)
        if case["kind"] == "runs2":
            return self._impl_runs2(case)
        tmp = None
        if case["backend"] == "disk":
            tmp = tempfile.mkdtemp(prefix="hgc09_")
            inner: Any = DiskCache(tmp)
        elif case["backend"] == "mem":
            inner = InMemoryCache()
        else:
            inner = InMemoryCache(max_size=int(case["backend"][3:]))
        cache = RecordingCache(inner)
        try:
            runs = []
            shared_env, shared_graphs = None, None
            if case.get("buildOnce"):
                # ONE set of graph / node / function objects serves every cached run (as a long-lived application holds them)
                shared_env = Env()
                shared_graphs = build.build_program(case["program"], shared_env, async_bodies=False)
            for r in case["runs"]:
                ref = impl.run_case(case["program"], None, r["values"], {"maxIter": 60}, r["runner"], record_events=True, async_bodies=False)
                env_g = shared_env or Env()
                n0 = len(env_g.log)
                got = impl.run_case(case["program"], None, r["values"], {"maxIter": 60}, r["runner"], cache=cache, record_events=True, async_bodies=False, env=env_g,
                                    graphs=shared_graphs)
                # digest of the pickled argument objects of every call, exactly what the cache key is computed from
                pk = []
                for (fid, kw), (_, ckw) in zip(env_g.log[n0:], got["calls"]):
                    try:
                        dg = hashlib.sha256(pickle.dumps(sorted(kw.items()))).hexdigest()[:12]
                    except Exception:  # noqa: BLE001
                        dg = "unpicklable"
                    pk.append([fid, ckw, dg])
                runs.append({"ref": _core(ref), "got": _core(got), "ref_calls": impl.sort_calls(ref["calls"]), "got_calls": impl.sort_calls(got["calls"]),
                             "got_pk": pk, "routes_ref": _routes(ref), "routes_got": _routes(got)})
        finally:
            if tmp:
                shutil.rmtree(tmp, ignore_errors=True)
        # canonical op log for the LRU model: keys and values as small ids
        kid: dict[str, str] = {}
        vid: dict[str, int] = {}
        ops = []
        gets = []
        for op in cache.ops:
            k = kid.setdefault(op[1], f"k{len(kid)}")
            if op[0] == "set":
                v = vid.setdefault(repr(sorted(op[2].items(), key=lambda kv: kv[0])) if isinstance(op[2], dict) else repr(op[2]), len(vid))
                ops.append(["set", k, v])
            else:
                ops.append(["get", k])
                gets.append(vid.get(repr(sorted(op[3].items(), key=lambda kv: kv[0])) if isinstance(op[3], dict) else repr(op[3])) if op[2] else None)
        return {"runs": runs, "ops": ops, "gets": gets, "hits": sum(1 for g in gets if g is not None)}

    # ---------------------------------------------------------------- authentic but unloadable disk entries
    def _impl_diskghost(self, case: dict) -> Any:
        import sys
        import types

        tmp = tempfile.mkdtemp(prefix="hgc09g_")
        modname = "verif_ghost_mod"
        mod = types.ModuleType(modname)
        exec("class Ghost:\n    def __init__(self, n):\n        self.n = n\n    def __eq__(self, o):\n        return type(o) is type(self) and o.n == self.n\n"
             "    __hash__ = None\n", mod.__dict__)  # noqa: S102 - fixed text
        mod.Ghost.__module__ = modname
        sys.modules[modname] = mod
        out: dict[str, Any] = {"events": []}
        try:
            dc = DiskCache(tmp)
            value = mod.Ghost(case["v"])
            dc.set("k", value)
            hit, v = dc.get("k")
            out["first"] = bool(hit and v == value)
            # a new release of the application
            if case["how"] == "class_gone":
                del mod.Ghost
            elif case["how"] == "module_gone":
                del sys.modules[modname]
            else:
                exec("class Ghost:\n    def __init__(self, n, extra):\n        self.n = n\n    def __reduce__(self):\n        return (Ghost, (self.n,))\n",  # noqa: S102
                     mod.__dict__)
                # the stored pickle was produced by the default protocol (object.__reduce_ex__): make reconstruction fail differently
                mod.Ghost.__setstate__ = lambda self, st: (_ for _ in ()).throw(TypeError("incompatible state"))
            try:
                hit2, v2 = dc.get("k")
                out["second"] = {"hit": bool(hit2), "raised": None}
            except Exception as e:  # noqa: BLE001
                out["second"] = {"hit": False, "raised": type(e).__name__}
            try:
                dc.set("k", 5)
                hit3, v3 = dc.get("k")
                out["third"] = {"hit": bool(hit3) and v3 == 5, "raised": None}
            except Exception as e:  # noqa: BLE001
                out["third"] = {"hit": False, "raised": type(e).__name__}
        finally:
            sys.modules.pop(modname, None)
            shutil.rmtree(tmp, ignore_errors=True)
        return {"ghost": out, "runs": [], "ops": [], "gets": [], "hits": 1}

    # ---------------------------------------------------------------- the definition hash
    @staticmethod
    def _make_fn(k: dict) -> Any:
        """A real function from the knobs: factory-made (two captured values), a default evaluated at definition time, a keyword-only default,
        a constant inside a nested lambda, an attribute name; with or without retrievable source."""
        import linecache

        kw = "" if k["kw"] is None else ", *, kw=_KW"
        src = ("def _factory(_c, _d):\n"
               f"    def f(x, k=_K{kw}):\n"
               f"        return ((lambda y: (y, {int(k['lamk'])}))(x), _c, _d, str(x).{k['attr']}())\n"
               "    return f\n"
               "f = _factory(_C, _D)\n")
        glob = {"_C": k["c"], "_D": k["d"], "_K": k["K"], "_KW": k["kw"], "__name__": "verif_generated"}
        if k["src"]:
            file = f"/verif-generated/defhash_{hashlib.sha1(src.encode()).hexdigest()[:12]}.py"
            linecache.cache[file] = (len(src), None, src.splitlines(True), file)
            exec(compile(src, file, "exec"), glob)  # noqa: S102 - generated from a closed template
        else:
            exec(src, glob)  # noqa: S102 - generated from a closed template
        return glob["f"]

    @staticmethod
    def _describe_fn(f: Any) -> dict:
        """What the definition hash is supposed to cover, read off the real function object (JSON description for the Lean model)."""
        import inspect

        def code_desc(c: Any) -> dict:
            return {"bytes": c.co_code.hex(), "names": list(c.co_names), "varnames": list(c.co_varnames),
                    "consts": [{"code": code_desc(x), "name": x.co_name} if hasattr(x, "co_code") else {"val": repr(x)} for x in c.co_consts]}
        try:
            source = inspect.getsource(f)
        except (OSError, TypeError):
            source = None
        cells = []
        for cell in f.__closure__ or ():
            try:
                cells.append(repr(cell.cell_contents))
            except ValueError:
                cells.append(None)
        return {"source": source, "code": code_desc(f.__code__), "defaults": repr(f.__defaults__), "kwdefaults": repr(f.__kwdefaults__), "cells": cells}

    def _impl_defhash(self, case: dict) -> Any:
        from hypergraph._utils import hash_definition

        out = []
        for a, b, knob in case["pairs"]:
            fa, fb = self._make_fn(a), self._make_fn(b)
            da, db = self._describe_fn(fa), self._describe_fn(fb)
            out.append({"same": hash_definition(fa) == hash_definition(fb), "a": da, "b": db,
                        "stable": hash_definition(fa) == hash_definition(self._make_fn(a))})
        return {"pairs": out, "runs": [], "ops": [], "gets": [], "hits": 1}

    def _impl_runs2(self, case: dict) -> Any:
        """Two graphs whose single node wraps the SAME function object (same definition) with permuted output names, one shared cache."""
        tmp = None
        if case["backend"] == "disk":
            tmp = tempfile.mkdtemp(prefix="hgc09_")
            cache: Any = DiskCache(tmp)
        elif case["backend"] == "mem":
            cache = InMemoryCache()
        else:
            cache = InMemoryCache(max_size=int(case["backend"][3:]))
        try:
            env = Env()
            out = []
            for prog in case["programs"] + case["programs"]:
                # share the function object across the graphs: the second build reuses env.funcs of the first
                spec = prog[0]["nodes"][0]
                if "0:na" in env.funcs and case.get("share", True):
                    spec = dict(spec, sameFuncAs="na")
                    prog = [{**prog[0], "nodes": [spec] + prog[0]["nodes"][1:]}]
                ref = impl.run_case(prog, None, case["values"], {}, case["runner"], async_bodies=False, env=env)
                got = impl.run_case(prog, None, case["values"], {}, case["runner"], async_bodies=False, env=env, cache=cache)
                out.append({"ref": _core(ref), "got": _core(got), "ref_calls": [], "got_calls": [], "routes_ref": [], "routes_got": []})
            return {"runs": out, "ops": [], "gets": [], "hits": 1}
        finally:
            if tmp:
                shutil.rmtree(tmp, ignore_errors=True)

    def _impl_disk(self, case: dict) -> Any:
        import diskcache

        tmp = tempfile.mkdtemp(prefix="hgc09d_")
        spy = PickleSpy()
        real_pickle = hcache.pickle
        hcache.pickle = spy  # type: ignore[assignment]
        try:
            dc = DiskCache(tmp)
            raw = diskcache.Cache(tmp)        # a second handle on the same directory plays the adversary / the crash
            gets = []
            for s in case["steps"]:
                k, t = s["k"], s["t"]
                if t == "set":
                    dc.set(k, py_val(s["v"]))
                elif t == "crashSet":
                    raw.set(k, pickle.dumps(py_val(s["v"])))          # the first of set()'s two writes only
                elif t == "get":
                    before = len(spy.loads_calls) + len(FIRED)
                    try:
                        hit, v = dc.get(k)
                        gets.append({"hit": enc_val(v) if hit else {"miss": 1}, "unpickled": len(spy.loads_calls) + len(FIRED) > before, "raised": None})
                    except Exception as e:  # noqa: BLE001
                        gets.append({"hit": {"miss": 1}, "unpickled": len(spy.loads_calls) + len(FIRED) > before, "raised": type(e).__name__})
                elif t == "replay_shifted":
                    payload, sig = raw.get(s["src"], default=None), raw.get(s["src"] + ":hmac", default=None)
                    if isinstance(payload, bytes) and isinstance(sig, str):
                        raw.set(k, s["src"][len(k):].encode() + payload)
                        raw.set(k + ":hmac", sig)
                    else:
                        raw.set(k, bytes([9, 9, 9, 7]))
                        raw.set(k + ":hmac", "garbage")
                elif t in ("payload_half", "payload_append", "payload_midflip"):
                    cur = raw.get(k, default=None)
                    if isinstance(cur, bytes) and len(cur) >= 2:
                        if t == "payload_half":
                            raw.set(k, cur[: len(cur) // 2])
                        elif t == "payload_append":
                            raw.set(k, cur + b"\x00garbage")
                        else:
                            mid = len(cur) // 2
                            raw.set(k, cur[:mid] + bytes([cur[mid] ^ 0x55]) + cur[mid + 1:])
                    else:
                        raw.set(k, bytes([9, 9, 9, 7]))
                elif t == "payload_pickled":
                    raw.set(k, Tracer("payload"))       # the row rewritten in the store's own pickle mode: fetching it would unpickle it
                elif t == "hmac_pickled":
                    raw.set(k + ":hmac", Tracer("signature"))
                elif t == "payload_flip":
                    raw.set(k, bytes([9, 9, 9, 7]))
                elif t == "payload_trunc":
                    raw.set(k, b"")
                elif t == "payload_type":
                    raw.set(k, "not-bytes")
                elif t == "payload_del":
                    raw.delete(k)
                elif t == "hmac_del":
                    raw.delete(k + ":hmac")
                elif t == "hmac_garbage":
                    raw.set(k + ":hmac", "garbage")
                elif t == "hmac_type":
                    raw.set(k + ":hmac", 12345)
                elif t == "hmac_nonascii":
                    cur = raw.get(k + ":hmac", default=None)
                    # one character of the stored signature replaced by a non-ASCII one (what a flipped bit in the text can produce)
                    raw.set(k + ":hmac", ("\u00e9" + cur[1:]) if isinstance(cur, str) and cur else "\u00e9")
            raw.close()
            return {"gets": gets}
        finally:
            hcache.pickle = real_pickle  # type: ignore[assignment]
            shutil.rmtree(tmp, ignore_errors=True)

    # ---------------------------------------------------------------- oracle
    def oracle(self, case: dict, obs: Any) -> str | None:
        if case["kind"] == "diskghost":
            g = obs["ghost"]
            if not g["first"]:
                return "an intact disk entry holding a user-class instance was not served"
            if g["second"]["raised"]:
                return (f"an authentic disk entry whose value can no longer be reconstructed ({case['how']}) made DiskCache.get raise "
                        f"{g['second']['raised']} instead of behaving as a miss")
            if g["second"]["hit"] and case["how"] != "ctor_changed":
                return f"an entry whose class is gone ({case['how']}) was served as a hit"
            if g["third"]["raised"] or not g["third"]["hit"]:
                return f"after the unusable entry the key cannot be used any more: {g['third']}"
            return None
        if case["kind"] == "defhash":
            def visible(d: dict) -> Any:
                return json.dumps([d["source"] if d["source"] is not None else d["code"], d["defaults"], d["kwdefaults"], d["cells"]], sort_keys=True)
            for (a, b, knob), o in zip(case["pairs"], obs["pairs"]):
                if not o["stable"]:
                    return f"the definition hash of one and the same definition {a} is not reproducible"
                want = visible(o["a"]) == visible(o["b"])
                if o["same"] and not want:
                    return f"two different definitions (knob {knob!r}: {a} vs {b}) have the same definition hash: a shared cache would serve one's entries to the other"
                if not o["same"] and want:
                    return f"one definition built twice ({a} vs {b}) has two definition hashes: its retained entries would never be found"
            return None
        if case["kind"] == "disk":
            # ground truth kept by the oracle: which (key -> value) is currently stored AND intact
            intact: dict[str, Any] = {}
            gi = 0
            for s in case["steps"]:
                k, t = s["k"], s["t"]
                if t == "set":
                    intact[k] = s["v"]
                elif t == "get":
                    g = obs["gets"][gi]
                    gi += 1
                    if g["raised"]:
                        return f"DiskCache.get raised {g['raised']} on a damaged entry"
                    if k in intact:
                        if g["hit"] != intact[k]:
                            return f"intact entry {k!r} = {intact[k]!r} read back as {g['hit']!r}"
                    else:
                        if g["hit"] != {"miss": 1}:
                            return f"damaged or absent entry {k!r} was served as a hit: {g['hit']!r}"
                        if g["unpickled"]:
                            return f"unauthenticated bytes of {k!r} were deserialised"
                    if k not in intact:
                        pass
                else:
                    intact.pop(k, None)      # any tampering / torn write invalidates the entry
            return None
        for i, r in enumerate(obs["runs"]):
            if r["ref"]["status"] == "build-error":
                return "valid program rejected at construction"
            if impl.differ(r["got"], r["ref"]):
                note = " (a node mutated in place a value that the in-memory cache holds by reference)" if case.get("mutating") and case["backend"] != "disk" else ""
                return f"run {i} with the shared cache returned {r['got']}, the uncached run returns {r['ref']}" + note
            if r["routes_got"] != r["routes_ref"] and False:
                return f"run {i}: routing decisions differ with the cache"
        shared_fn = case["kind"] == "runs2" or any(n.get("sameFuncAs") for g in case["program"] for n in g["nodes"])   # both nodes log under one id
        if (case["backend"] == "mem" or case.get("check_reinvoke")) and not shared_fn:
            # retained forever: a cacheable node's function runs at most once per distinct arguments over the whole sequence
            seen: dict[str, int] = {}
            # (an interrupt handler that returns None pauses: nothing was completed, nothing is retained, it is asked again next run)
            cacheable = {f"{gi}:{n['name']}" for gi, g in enumerate(case["program"]) for n in g["nodes"]
                         if n.get("cache") and not (n["kind"] == "interrupt" and n["body"].get("k") is None)}
            for r in obs["runs"]:
                for f, kw in r["got_calls"]:
                    if f in cacheable:
                        key = f + repr(kw)
                        seen[key] = seen.get(key, 0) + 1
            again = [k for k, c in seen.items() if c > 1]
            if again:
                digests = {dg for r in obs["runs"] for f, kw, dg in r.get("got_pk", []) if f + repr(kw) == again[0]}
                if len(digests) > 1:
                    return ("cacheable node re-invoked for the same arguments although its entry is retained — equal arguments pickle to different bytes "
                            f"(object sharing changes pickle's memo references, so the key differs): {again[0][:160]}")
                return f"cacheable node re-invoked for the same arguments although its entry is retained: {again[0][:200]}"
        return None

    # ---------------------------------------------------------------- model
    def model(self, case: dict, driver: Any) -> Any:
        return driver

    def compare(self, case: dict, i: Any, driver: Any) -> str | None:
        if case["kind"] == "disk":
            m = driver.ask({"op": "disk", "steps": _model_steps(case["steps"])})
            ig = [{"hit": g["hit"], "unpickled": g["unpickled"]} for g in i["gets"]]
            if ig != m["gets"]:
                return f"disk scenario: impl={ig} model={m['gets']}"
            return None
        if case["kind"] == "diskghost":
            return None
        if case["kind"] == "defhash":
            m = driver.ask({"op": "defhash", "pairs": [[o["a"], o["b"]] for o in i["pairs"]]})
            if "same" not in m:
                return f"driver did not answer the defhash request: {str(m)[:200]}"
            got = [o["same"] for o in i["pairs"]]
            if got != m["same"]:
                k = next(j for j, (x, y) in enumerate(zip(got, m["same"])) if x != y)
                return (f"definition hash equality of pair {k} ({case['pairs'][k][0]} vs {case['pairs'][k][1]}): hash_definition says {got[k]}, "
                        f"the model's hash input says {m['same'][k]} (old variants: v1={m['v1'][k]} v2={m['v2'][k]} v3={m['v3'][k]})")
            return None
        if case["kind"] == "runs2" or case["backend"] == "disk" or not i["ops"]:
            return None
        ms = None if case["backend"] == "mem" else int(case["backend"][3:])
        m = driver.ask({"op": "lru", "maxSize": ms, "ops": i["ops"]})
        mg = [None if isinstance(g, dict) else g for g in m["gets"]]
        if mg != i["gets"]:
            return f"LRU hit/miss sequence: impl={i['gets']} model={mg} ops={i['ops']}"
        return None

    def nontrivial(self, case: dict, obs: Any) -> bool:
        if case["kind"] == "disk":
            return any(s["t"] in TAMPERS or s["t"] in ("crashSet", "replay_shifted") for s in case["steps"])
        return obs.get("hits", 0) > 0

    def features(self, case: dict, obs: Any) -> dict:
        if case["kind"] == "disk":
            return {"kind": "disk", "tampers": sum(1 for s in case["steps"] if s["t"] in TAMPERS), "torn": sum(1 for s in case["steps"] if s["t"] == "crashSet"),
                    "hits": sum(1 for g in obs["gets"] if g["hit"] != {"miss": 1})}
        if case["kind"] == "diskghost":
            return {"kind": "diskghost", "how": case["how"]}
        if case["kind"] == "defhash":
            return {"kind": "defhash", "pairs": len(case["pairs"]), "knobs": "+".join(sorted({k for _, _, k in case["pairs"]}))[:60],
                    "equal_hashes": sum(1 for o in obs["pairs"] if o["same"])}
        if case["kind"] == "runs2":
            return {"kind": "runs2", "backend": case["backend"]}
        return {"kind": "runs", "backend": case["backend"], "runs": len(case["runs"]), "hits": min(obs["hits"], 10), "ops": min(len(obs["ops"]), 40) // 10 * 10}

    def signature(self, case: dict, obs: Any, why: str) -> str:
        if "the in-memory cache holds by reference" in why:
            return "site:InMemoryCache/stores-by-reference"     # one mechanism (known finding C09-F2)
        if "equal arguments pickle to different bytes" in why:
            return "site:compute_cache_key/pickle-memo"      # one call site, one root cause (known finding C09-F1), whatever the program
        return "case:" + canonical_hash(case)

    def neighbours(self, case: dict, rng: random.Random) -> Iterable[dict]:
        yield from self.cases(rng, "quick")


def _core(o: dict) -> dict:
    return {k: o.get(k) for k in ("status", "values", "error", "raised")}


def _routes(o: dict) -> list:
    return [(e["name"], e["info"]) for e in o.get("events", []) if e.get("ev") == "RouteDecision"]


PROP = C09()
