"""C04 — loops run exactly as many iterations as the gate dictates and always terminate."""
from __future__ import annotations

import copy
import random
from typing import Any, Iterable

from .. import gen
from ..runprop import RunProp


def sequential(loop: dict) -> dict:
    """The equivalent sequential loop of a generated loop family."""
    k, n, x = loop["k"], loop["n"], loop["x0"]
    fam = loop["family"]
    iters = 0
    if fam == "signal" and loop.get("separateEmitter") and not loop["defaultOpen"]:
        # the emitter fires on the initial loop value, so a closed gate checks first: an ordinary while-loop
        while x < n:
            x += 1
            iters += 1
        return {"x": x, "iters": iters, "gate": iters + 1, "steps": (k + 2) * iters + 2}
    if fam == "signal":
        if not loop["defaultOpen"]:
            # gate waits for the body's signal and the body waits for the gate: nothing can start
            return {"x": x, "iters": 0, "gate": 0, "steps": 0, "never_starts": True}
        x += 1                      # do-while: the body runs before the first check
        iters = 1
        while x < n:
            x += 1
            iters += 1
        # a separate emitter node adds one step per iteration: the gate is deferred while its signal's producer is ready
        per_iter = (k + 2) if loop.get("separateEmitter") else (k + 1)
        return {"x": x, "iters": iters, "gate": iters, "steps": per_iter * iters}
    while x < n:
        x += 1
        iters += 1
    steps = (k + 1) * iters + 1 + (1 if fam == "exit" else 0)
    return {"x": x, "iters": iters, "gate": iters + 1, "steps": steps}


class C04(RunProp):
    id = "C04"
    level = "proof"
    compare_events = True
    nontrivial_rule = (
        "loop families (state-reading gate, signal-synchronised gate, exit node, accumulator; route and if/else gates; body length 1-3; "
        "both default_open settings; iteration counts 0..6 quick / 0..40 thorough; shuffled node lists) with max_iterations at the exact "
        "bound -2..+5 and the default; both runners; non-trivial = at least 2 iterations; distinct by canonical hash"
    )
    budgets = {"quick": 300, "thorough": 5000}

    @staticmethod
    def _float_loop(rng: random.Random) -> dict:
        """A counting loop whose state is a FLOAT far from the unit scale (an epoch timestamp, a large coordinate) stepped by 1: every
        iteration changes the value, however small the change is relative to it (integral floats below 2**53: exact arithmetic)."""
        base = rng.choice([1_700_000_000, 10**12, 2**40, 10**15])
        x0 = rng.randint(0, 2)
        n = x0 + rng.randint(2, 5)
        gate = {"name": "gate", "kind": "ifelse", "params": [["x", None]], "targets": ["b1", "__END__"], "body": {"b": "ltNum", "k": base + n}, "defaultOpen": rng.random() < 0.7}
        nodes = [gate, {"name": "b1", "kind": "fn", "params": [["x", None]], "dataOuts": ["x"], "body": {"b": "inc", "k": 1}}]
        rng.shuffle(nodes)
        return {"program": [{"name": "g0", "nodes": nodes, "bound": []}], "values": [["x", {"f": base + x0}]],
                "floatloop": {"base": base, "x0": x0, "n": n}}

    def impl(self, case: dict) -> Any:
        if case.get("floatloop"):
            from .. import impl as _impl

            return _impl.run_case(case["program"], None, case["values"], {"maxIter": 200, "errMode": "continue"}, case["runner"])
        return super().impl(case)

    def model(self, case: dict, driver: Any) -> Any:
        return None if case.get("floatloop") else super().model(case, driver)       # floats are outside the model's value universe

    def compare(self, case: dict, i: Any, m: Any) -> str | None:
        return None if case.get("floatloop") else super().compare(case, i, m)

    def cases(self, rng: random.Random, tier: str) -> Iterable[dict]:
        for _ in range(3):
            c = self._float_loop(rng)
            for runner in ("sync", "async"):
                yield {"program": c["program"], "values": c["values"], "cfg": {}, "runner": runner, "loop": None, "floatloop": c["floatloop"]}
        # whatever the seed: the loop is entered through with_entrypoint("b1") while a node OUTSIDE the entered part (runnable on its own
        # default, never part of the run) sits in the graph; budgets exactly at the need, one above, one below
        n_entry = 3
        while n_entry:
            c = gen.gen_loop(rng, max_n=6, allow_nested_body=False)
            seq = sequential(c["loop"])
            if c["loop"]["family"] != "state" or seq["steps"] < 3 or c["loop"].get("separateEmitter") or c["loop"].get("twoAcc"):
                continue
            n_entry -= 1
            prog = copy.deepcopy(c["program"])
            idle = {"name": "idle_load", "kind": "fn", "params": [["path", {"d": rng.randint(0, 9)}]], "dataOuts": ["settings"], "body": {"b": "tag", "t": "idle_load"}}
            prog[-1]["nodes"].insert(rng.randint(0, len(prog[-1]["nodes"])), idle)
            prog[-1]["entrypoints"] = ["b1"]
            for delta in (0, 1, -1):
                for runner in ("sync", "async"):
                    yield {"program": prog, "values": c["values"], "cfg": {"maxIter": max(1, seq["steps"] + delta), "errMode": rng.choice(["raise", "continue"])},
                           "runner": runner, "loop": c["loop"]}
        forced = 4      # loops whose body runs inside a NESTED graph, under budgets at and just below the need — whatever the seed
        while True:
            c = gen.gen_loop(rng, max_n=6 if tier == "quick" else rng.choice([6, 15, 40]), allow_nested_body=True)
            seq = sequential(c["loop"])
            if forced:
                if not c["loop"].get("nestedBody") or seq["steps"] < 3 or c["loop"].get("separateEmitter") or c["loop"].get("twoAcc"):
                    continue
                forced -= 1
                for delta in (-1, 0):
                    for runner in ("sync", "async"):
                        yield {"program": c["program"], "values": c["values"], "cfg": {"maxIter": max(1, seq["steps"] + delta), "errMode": "continue"}, "runner": runner,
                               "loop": c["loop"]}
                continue
            cfgs = [{}]
            if seq["steps"] > 0 and not c["loop"].get("separateEmitter") and not c["loop"].get("twoAcc"):
                cfgs.append({"maxIter": max(1, seq["steps"] + rng.choice([-2, -1, 0, 0, 1, 5])), "errMode": rng.choice(["raise", "continue"])})
                if rng.random() < 0.15:
                    cfgs.append({"maxIter": 0, "errMode": rng.choice(["raise", "continue"])})      # a budget of zero steps is a budget, not "the default"
            for cfg in cfgs:
                for runner in ("sync", "async"):
                    yield {"program": c["program"], "values": c["values"], "cfg": cfg, "runner": runner, "loop": c["loop"]}

    def oracle(self, case: dict, obs: Any) -> str | None:
        if obs["status"] == "build-error":
            return f"valid loop program rejected at construction: {obs.get('detail')}"
        if case.get("floatloop"):
            fl = case["floatloop"]
            iters = max(0, fl["n"] - fl["x0"])
            runs = sum(1 for f, _ in obs["calls"] if f.endswith(":b1"))
            x = dict((k, v) for k, v in obs["values"]).get("x")
            want = {"f": fl["base"] + max(fl["x0"], fl["n"])}
            if obs["status"] != "completed" or runs != iters or x != want:
                return (f"float loop from {fl['base']}+{fl['x0']} while x < {fl['base']}+{fl['n']}: status {obs['status']}, body ran {runs} times, x = {x!r}; "
                        f"the sequential loop iterates {iters} times and ends with {want!r}")
            return None
        lp = case["loop"]
        seq = sequential(lp)
        mi = case["cfg"].get("maxIter", 1000)
        counts: dict[str, int] = {}
        for f, _ in obs["calls"]:
            f = "0:" + f.split(":", 1)[1]        # by node name (a nested body node lives in another graph of the program)
            counts[f] = counts.get(f, 0) + 1
        vals = dict((k, v) for k, v in obs["values"])
        if mi >= seq["steps"]:
            if obs["status"] != "completed":
                return f"loop needing {seq['steps']} steps with max_iterations={mi} ended {obs['status']} ({obs['error']})"
            if seq.get("never_starts"):
                if obs["calls"]:
                    return "closed signal-synchronised loop executed nodes although neither gate nor body can start"
                return None
            if seq["iters"] > 0 and vals.get("x") != seq["x"]:
                return f"final loop variable {vals.get('x')!r}, sequential loop gives {seq['x']!r}"
            for j in range(lp["k"]):
                got = counts.get(f"0:b{j+1}", 0)
                if got != seq["iters"]:
                    return f"body node b{j+1} ran {got} times, the sequential loop iterates {seq['iters']} times"
            ok_gate = {seq["gate"], seq["gate"] + 1} if (lp.get("separateEmitter") and lp["defaultOpen"]) else {seq["gate"]}
            # (a separate emitter node also fires on the initial loop value, which may give the gate one extra early evaluation)
            if counts.get("0:gate", 0) not in ok_gate:
                return f"gate ran {counts.get('0:gate', 0)} times, expected {seq['gate']}"
            if lp["family"] == "exit":
                if counts.get("0:done", 0) != 1 or vals.get("result") != {"t": ["done", seq["x"]]}:
                    return f"exit node ran {counts.get('0:done', 0)} times with result {vals.get('result')!r}"
            if lp["family"] == "accum":
                # one accumulation per new value of x (the initial one included)
                exp = {"l": [v for v in range(lp["x0"], seq["x"] + 1) for _ in range(2 if lp.get("twoAcc") else 1)]}
                if vals.get("messages") != exp:
                    return f"accumulator holds {vals.get('messages')!r}, expected one entry per produced x: {exp!r}"
        else:
            if obs["status"] != "failed" or obs["error"] != "InfiniteLoopError":
                return f"loop needing {seq['steps']} steps with max_iterations={mi} ended {obs['status']}/{obs['error']} instead of InfiniteLoopError"
            if obs["raised"] != (case["cfg"].get("errMode", "raise") == "raise"):
                return "InfiniteLoopError raised/returned contrary to error_handling"
            total = sum(counts.values())
            if lp["family"] != "accum" and total > mi * 1:
                return f"{total} node executions in at most {mi} supersteps of a single-lane loop"
            if not obs["raised"]:
                x = vals.get("x")
                if not (isinstance(x, int) and lp["x0"] <= x <= seq["x"]):
                    return f"partial value of the loop variable {x!r} is not a value of the sequential loop"
        return None

    def nontrivial(self, case: dict, obs: Any) -> bool:
        if case.get("floatloop"):
            return case["floatloop"]["n"] - case["floatloop"]["x0"] >= 2
        return sequential(case["loop"])["iters"] >= 2

    def features(self, case: dict, obs: Any) -> dict:
        if case.get("floatloop"):
            return {"family": "float-state", "iters": max(0, case["floatloop"]["n"] - case["floatloop"]["x0"]), "status": obs["status"], "runner": case["runner"]}
        lp = case["loop"]
        return {"family": lp["family"], "k": lp["k"], "iters": sequential(lp)["iters"], "status": obs["status"], "runner": case["runner"],
                "open": lp["defaultOpen"], "maxIter": "default" if "maxIter" not in case["cfg"] else "near-bound"}

    def neighbours(self, case: dict, rng: random.Random) -> Iterable[dict]:
        yield from self.cases(rng, "quick")


PROP = C04()
