"""C19 — structural mistakes are rejected at graph construction; type compatibility follows the rules."""
from __future__ import annotations

import copy
import random
from typing import Any, Iterable

from .. import build, common, gen
from ..build import Env
from ..engine import Prop, canonical_hash

common.use_repo()
from hypergraph.graph.validation import GraphConfigError  # noqa: E402

FLAWS = ["unknown_target", "unknown_target_multi", "dup_producer", "dup_node", "bad_node_name", "bad_output_name", "bad_graph_name",
         "inconsistent_default", "wait_for_unknown", "edge_unknown_node", "edge_unknown_value", "type_mismatch", "missing_annotation",
         "gate_self_target", "dup_producer_two_names", "dup_producer_two_gates", "bad_graph_output_name", "dup_output_in_node", "inconsistent_default_fed",
         "bad_graph_node_name"]


def typed_chain(rng: random.Random) -> dict:
    """Small strictly-typed program: a(x:int)->int p ; b(p:int)->str q ; c(q:str, y:int=1)->str r."""
    T = rng.choice([("int", "int"), ("bool", "int"), ("int", {"u": ["int", "str"]}), ({"g": "list", "a": ["int"]}, {"g": "Sequence", "a": ["int"]}), ("str", "Any")])
    out_t, in_t = T
    nodes = [
        {"name": "a", "kind": "fn", "params": [["x", None]], "dataOuts": ["p"], "body": {"b": "tag", "t": "a"}, "ann": {"x": "int", "return": out_t}},
        {"name": "b", "kind": "fn", "params": [["p", None]], "dataOuts": ["q"], "body": {"b": "tag", "t": "b"}, "ann": {"p": in_t, "return": "str"}},
        {"name": "c", "kind": "fn", "params": [["q", None], ["y", {"d": 1}]], "dataOuts": ["r"], "body": {"b": "tag", "t": "c"}, "ann": {"q": "str", "y": "int", "return": "str"}},
    ]
    if rng.random() < 0.5:
        # the same chain with b's and c's parameters declared under other names and renamed onto the wiring (incl. a swap on c)
        nodes[1] = {"name": "b", "kind": "fn", "params": [["pp", None]], "inRen": [["pp", "p"]], "dataOuts": ["q"], "body": {"b": "tag", "t": "b"},
                    "ann": {"pp": in_t, "return": "str"}}
        nodes[2] = {"name": "c", "kind": "fn", "params": [["y", None], ["q", {"d": 1}]], "inRen": [["y", "q"], ["q", "y"]], "dataOuts": ["r"],
                    "body": {"b": "tag", "t": "c"}, "ann": {"y": "str", "q": "int", "return": "str"}}
    w = rng.random()
    if w < 0.2:
        nodes[0]["emits"] = ["a_done"]; nodes[2]["waitFor"] = ["a_done"]            # ordering by a signal: nothing to type  # noqa: E702
    elif w < 0.4:
        nodes[2]["waitFor"] = ["p"]                                                 # waiting for a DATA name without consuming it
    if rng.random() < 0.4:
        # the producer `a` (and a sibling producing a str) live in a nested graph whose wrapper renames its outputs (rename / swap):
        # the declared type of each port must follow the rename
        a = nodes[0]
        a2 = {"name": "a2", "kind": "fn", "params": [["x", None]], "dataOuts": ["s"], "body": {"b": "tag", "t": "a2"}, "ann": {"x": "int", "return": "str"}}
        mode = rng.choice(["none", "rename", "swap"])
        out_ren = {"none": [], "rename": [["p", "pz"]], "swap": [["p", "s"], ["s", "p"]]}[mode]
        carrier = {"none": "p", "rename": "pz", "swap": "s"}[mode]      # the current name that carries a's value
        b = nodes[1]
        bp = b["params"][0][0]
        b["inRen"] = [[bp, carrier]] if bp != carrier else []
        # ordering inside the chain must follow the wrapping: wait for the name that now carries a's value; a signal emitted inside the
        # nested graph does not cross the boundary (known finding C05-F1), so that variant stays flat
        a.pop("emits", None)
        if nodes[2].get("waitFor") == ["a_done"]:
            nodes[2].pop("waitFor")
        elif nodes[2].get("waitFor") == ["p"]:
            nodes[2]["waitFor"] = [carrier]
        inner = {"name": "inner", "nodes": [a, a2], "bound": []}
        wrapper = {"name": "w", "kind": "graph", "inner": 0, "inRen": [], "outRen": out_ren}
        return {"program": [inner, {"name": "g1", "nodes": [wrapper, b, nodes[2]], "bound": [], "strict": True}], "values": [["x", 1]]}
    return {"program": [{"name": "g0", "nodes": nodes, "bound": [], "strict": True}], "values": [["x", 1]]}


def two_gate_program(rng: random.Random) -> dict:
    """Two INDEPENDENT exclusive gates, each in front of its own branch nodes (if/else or single-target route), all outputs distinct."""
    nodes: list[dict] = []
    for g, inp in (("ga", "ia"), ("gb", "ib")):
        t1, t2 = f"{g}_l", f"{g}_r"
        if rng.random() < 0.5:
            nodes.append({"name": g, "kind": "ifelse", "params": [[inp, None]], "targets": [t1, t2], "body": {"b": "lt", "k": 1}, "defaultOpen": rng.random() < 0.7})
        else:
            nodes.append({"name": g, "kind": "route", "params": [[inp, None]], "targets": [t1, t2], "multiTarget": False, "fallback": None,
                          "defaultOpen": rng.random() < 0.7, "body": {"b": "table", "rows": [[0, t1]], "dflt": t2}})
        for t in (t1, t2):
            nodes.append({"name": t, "kind": "fn", "params": [["x", None]], "dataOuts": [f"v_{t}"], "body": {"b": "tag", "t": t}})
    rng.shuffle(nodes)
    return {"program": [{"name": "g0", "nodes": nodes, "bound": []}], "values": [["ia", 0], ["ib", 1], ["x", 2]]}


def _fn(name: str, params: list[str], outs: list[str], **extra: Any) -> dict:
    d = {"name": name, "kind": "fn", "params": [[q, None] for q in params], "dataOuts": outs, "body": {"b": "tag", "t": name}}
    d.update(extra)
    return d


def n_way_gate(rng: random.Random) -> tuple[list[dict], list[dict] | None, str]:
    """An exclusive route gate with 3-4 targets t_i(x)->a_i; P hangs below ONE branch, S below one or two branches.  S and P writing one
    name is fine when their branches are disjoint (exclusive), a mistake when S is also below P's branch (and they are unordered)."""
    k = rng.choice([3, 3, 4])
    ts = [f"t{i}" for i in range(k)]
    gate = {"name": "pick", "kind": "route", "params": [["mode", None]], "targets": list(ts), "multiTarget": False, "fallback": None,
            "defaultOpen": rng.random() < 0.7, "body": {"b": "table", "rows": [[i, t] for i, t in enumerate(ts)], "dflt": ts[-1]}}
    i, j = rng.sample(range(k), 2)
    base = [gate] + [_fn(t, ["x"], [f"a{n}"]) for n, t in enumerate(ts)]
    P = _fn("P", [f"a{i}"], ["report"])
    s_excl = _fn("S", [f"a{j}"], ["report"])                       # below another branch only: exclusive with P
    s_both = _fn("S", [f"a{i}", f"a{j}"], ["report"])              # below P's branch as well: not exclusive, not ordered
    s_fixed = _fn("S", [f"a{i}", f"a{j}"], ["report_s"])
    valid = base + [P, rng.choice([s_excl, s_fixed])]
    flawed = base + [P, s_both]
    rng.shuffle(valid)
    rng.shuffle(flawed)
    mk = lambda ns: [{"name": "g0", "nodes": ns, "bound": []}]   # noqa: E731
    return mk(valid), mk(flawed), "dup_producer_shared_branch"


def signal_branches(rng: random.Random) -> tuple[list[dict], list[dict] | None, str]:
    """Branch membership and producer ordering that exist ONLY through emit / wait_for."""
    check = {"name": "check", "kind": "ifelse", "params": [["flag", None]], "targets": ["a", "b"], "body": {"b": "lt", "k": 1}, "defaultOpen": rng.random() < 0.7}
    a = _fn("a", ["x"], ["av"], emits=["a_done"])
    mk = lambda ns, **kw: [dict({"name": "g0", "nodes": ns, "bound": []}, **kw)]   # noqa: E731
    which = rng.choice(["A", "B", "C"])
    if which == "A":
        # `late` takes data from b and waits for a's signal: below BOTH branches, so exclusive with neither; unordered with from_a
        b = _fn("b", ["x"], ["bv"])
        from_a = _fn("from_a", ["av"], ["v"])
        late = {"name": "late", "kind": "fn", "params": [["bv", {"d": 0}]], "dataOuts": ["v"], "body": {"b": "tag", "t": "late"}, "waitFor": ["a_done"]}
        valid = [check, a, b, from_a, dict(late, dataOuts=["v_late"])]
        flawed = [check, a, b, from_a, late]
        rng.shuffle(valid)
        rng.shuffle(flawed)
        return mk(valid), mk(flawed), "dup_producer_signal_branch"
    if which == "B":
        # explicit edges; two producers of x ordered by a signal only: valid.  Without the signal: two unordered producers
        first = {"name": "first", "kind": "fn", "params": [], "dataOuts": ["x"], "body": {"b": "const", "v": 1}, "emits": ["first_done"]}
        second = {"name": "second", "kind": "fn", "params": [], "dataOuts": ["x"], "body": {"b": "const", "v": 2}, "waitFor": ["first_done"]}
        consumer = _fn("consumer", ["x"], ["result"])
        edges = [["first", "consumer"], ["second", "consumer"]]
        if rng.random() < 0.5:
            edges = [["first", "consumer", ["x"]], ["second", "consumer", ["x"]]]
        valid = [first, second, consumer]
        flawed = [first, {k: v for k, v in second.items() if k != "waitFor"}, consumer]
        return mk(valid, edges=edges), mk(flawed, edges=edges), "dup_producer_unordered_explicit"
    # C: after_a belongs to the a-branch only through the signal; the b-branch node writes the same name: exclusive, valid.
    after_a = {"name": "after_a", "kind": "fn", "params": [["x", None]], "dataOuts": ["v"], "body": {"b": "tag", "t": "after_a"}, "waitFor": ["a_done"]}
    b = _fn("b", ["x"], ["v"])
    valid = [check, a, b, after_a]
    # without the wait the node is in no branch at all: not exclusive with b
    flawed = [check, dict(a), b, {k: v for k, v in after_a.items() if k != "waitFor"}]
    rng.shuffle(valid)
    rng.shuffle(flawed)
    return mk(valid), mk(flawed), "dup_producer_no_branch"


def three_producers(rng: random.Random) -> tuple[list[dict], list[dict] | None, str]:
    """Three producers of ONE name. Valid: a chain ordered by signals (p0, then p1, then p2). Flawed: p0 and p1 are unordered and both
    precede p2 — and in the node list the unordered pair is NOT adjacent (p2 stands between them), so the verdict must not come from
    comparing neighbours only."""
    p0 = _fn("p0", ["a"], ["x"], emits=["d0"])
    p1_chain = _fn("p1", ["a"], ["x"], emits=["d1"], waitFor=["d0"])
    p1_free = _fn("p1", ["a"], ["x"], emits=["d1"])
    p2_chain = _fn("p2", ["a"], ["x"], waitFor=["d1"])
    p2_join = _fn("p2", ["a"], ["x"], waitFor=["d0", "d1"])
    use = _fn("use", ["x"], ["seen"])
    extra = [use] if rng.random() < 0.6 else []
    order = rng.choice([[0, 2, 1], [1, 2, 0]])
    valid_ps = [p0, p1_chain, p2_chain]
    flawed_ps = [p0, p1_free, p2_join]
    valid = [valid_ps[j] for j in order] + extra
    flawed = [flawed_ps[j] for j in order] + extra
    if rng.random() < 0.5:
        valid, flawed = extra + valid[:3], extra + flawed[:3]
    mk = lambda ns: [{"name": "g0", "nodes": ns, "bound": []}]   # noqa: E731
    return mk(valid), mk(flawed), "dup_producer_nonadjacent"


def hidden_wait(rng: random.Random) -> tuple[list[dict], list[dict] | None, str]:
    """A node that waits for a name a nested graph does NOT hand out: the inner signal is hidden by the inner graph's selection (or sits one
    more level down behind a selecting middle graph). Valid twin: the nested graph exposes the signal and the same wait is fine."""
    load = _fn("load", ["src"], ["rows"], emits=["loaded"])
    clean = _fn("clean", ["rows"], ["cleaned"])
    report = _fn("report", ["cleaned"], ["summary"], waitFor=["loaded"])
    inner_open = {"name": "prep", "nodes": [load, clean], "bound": []}
    inner_sel = {"name": "prep", "nodes": [load, clean], "bound": [], "selected": ["cleaned"]}
    gn = {"name": "prep", "kind": "graph", "inner": 0}
    if rng.random() < 0.5:
        return ([inner_open, {"name": "g1", "nodes": [gn, report], "bound": []}],
                [inner_sel, {"name": "g1", "nodes": [gn, report], "bound": []}], "wait_for_hidden_inner")
    # two levels: the middle graph selects only the data output
    mid_open = {"name": "mid", "nodes": [gn], "bound": []}
    mid_sel = {"name": "mid", "nodes": [gn], "bound": [], "selected": ["cleaned"]}
    gm = {"name": "mid", "kind": "graph", "inner": 1}
    return ([inner_open, mid_open, {"name": "g2", "nodes": [gm, report], "bound": []}],
            [inner_open, mid_sel, {"name": "g2", "nodes": [gm, report], "bound": []}], "wait_for_hidden_inner")


def explicit_typed(rng: random.Random) -> tuple[list[dict], list[dict] | None, str]:
    """strict_types with EXPLICIT edges and two signal-ordered producers of one name: each producer's edge is typed on its own."""
    good = rng.choice(["int", "bool"])
    first = {"name": "first", "kind": "fn", "params": [["s", None]], "dataOuts": ["m"], "body": {"b": "tag", "t": "first"}, "emits": ["first_done"],
             "ann": {"s": "int", "return": good}}
    second = {"name": "second", "kind": "fn", "params": [["s", None]], "dataOuts": ["m"], "body": {"b": "tag", "t": "second"}, "waitFor": ["first_done"],
              "ann": {"s": "int", "return": "int"}}
    consumer = {"name": "consumer", "kind": "fn", "params": [["m", None]], "dataOuts": ["res"], "body": {"b": "tag", "t": "consumer"},
                "ann": {"m": "int", "return": "str"}}
    edges = [["first", "consumer"], ["second", "consumer"]]
    if rng.random() < 0.5:
        edges.reverse()
    bad = copy.deepcopy([first, second, consumer])
    victim = bad[rng.choice([0, 1, 1])]
    if rng.random() < 0.5:
        victim["ann"]["return"] = "str"
        flaw = "type_mismatch_second_producer"
    else:
        del victim["ann"]["return"]
        flaw = "missing_annotation_second_producer"
    mk = lambda ns: [{"name": "g0", "nodes": ns, "bound": [], "strict": True, "edges": edges}]   # noqa: E731
    return mk([first, second, consumer]), mk(bad), flaw


def branch_typed(rng: random.Random) -> tuple[list[dict], list[dict] | None, str]:
    """strict_types with INFERRED edges and two (or three) exclusive producers of one name: the graph links the consumer to the first-listed
    producer only, yet every branch can deliver the value — every producer is typed against the consumer, whatever the node order."""
    k = rng.choice([2, 2, 3])
    names = [f"br{i}" for i in range(k)]
    if k == 2:
        gate = {"name": "gate", "kind": "ifelse", "params": [["flag", None]], "targets": list(names), "body": {"b": "lt", "k": 1}, "defaultOpen": True, "ann": {"flag": "int"}}
    else:
        gate = {"name": "gate", "kind": "route", "params": [["flag", None]], "targets": list(names), "multiTarget": False, "fallback": None, "defaultOpen": True,
                "body": {"b": "table", "rows": [[i, names[i]] for i in range(k)], "dflt": None}, "ann": {"flag": "int"}}
    want = rng.choice(["int", {"u": ["int", "str"]}])
    brs = [{"name": nm, "kind": "fn", "params": [["flag", None]], "dataOuts": ["result"], "body": {"b": "tag", "t": nm}, "ann": {"flag": "int", "return": rng.choice(["int", "bool"])}}
           for nm in names]
    consumer = {"name": "consumer", "kind": "fn", "params": [["result", None]], "dataOuts": ["out"], "body": {"b": "tag", "t": "consumer"}, "ann": {"result": want, "return": "str"}}
    good = [gate] + brs + [consumer]
    bad = copy.deepcopy(good)
    victim = bad[1 + rng.randrange(k)]
    if rng.random() < 0.6:
        victim["ann"]["return"] = "float"
        flaw = "type_mismatch_any_branch"
    else:
        del victim["ann"]["return"]
        flaw = "missing_annotation_any_branch"
    order = list(range(len(good)))
    rng.shuffle(order)
    mk = lambda ns: [{"name": "g0", "nodes": [ns[i] for i in order], "bound": [], "strict": True}]   # noqa: E731
    return mk(good), mk(bad), flaw


def self_typed(rng: random.Random) -> tuple[list[dict], list[dict] | None, str]:
    """strict_types and an ACCUMULATOR: `add` reads and writes `messages`, seeded by `init` (ordered by a signal). What `add` returns flows
    back into its own parameter, so its return type is checked against that parameter — in either node order."""
    t_ok, t_bad = rng.choice([("int", "str"), ("str", "int"), ({"g": "list", "a": ["int"]}, "int")])
    init = {"name": "init", "kind": "fn", "params": [], "dataOuts": ["messages"], "body": {"b": "const", "v": 0}, "emits": ["seeded"], "ann": {"return": t_ok}}
    add = {"name": "add", "kind": "fn", "params": [["messages", None]], "dataOuts": ["messages"], "body": {"b": "first"}, "waitFor": ["seeded"],
           "ann": {"messages": t_ok, "return": t_ok}}
    bad_add = copy.deepcopy(add)
    bad_add["ann"]["return"] = t_bad
    order = rng.choice([[0, 1], [1, 0]])
    mk = lambda ns: [{"name": "g0", "nodes": [ns[i] for i in order], "bound": [], "strict": True}]   # noqa: E731
    return mk([init, add]), mk([init, bad_add]), "type_mismatch_self_feed"


def mapped_typed(rng: random.Random) -> tuple[list[dict], list[dict] | None, str]:
    """strict_types around a MAPPING nested graph: the mapped input takes the list of items, a broadcast input takes the plain value, every
    output is a list of per-item results."""
    LI = {"g": "list", "a": ["int"]}
    inner = {"name": "inner", "nodes": [{"name": "dbl", "kind": "fn", "params": [["x", None], ["f", None]], "dataOuts": ["y"], "body": {"b": "sum", "k": 0},
                                         "ann": {"x": "int", "f": "int", "return": "int"}}], "bound": []}
    ren_x = rng.choice(["x", "xs"])
    ren_f = rng.choice(["f", "factor"])
    mk = {"name": "mk", "kind": "fn", "params": [["s", None]], "dataOuts": [ren_x], "body": {"b": "const", "v": {"l": [1, 2]}}, "ann": {"s": "int", "return": LI}}
    fac = {"name": "fac", "kind": "fn", "params": [["s", None]], "dataOuts": [ren_f], "body": {"b": "const", "v": 3}, "ann": {"s": "int", "return": "int"}}
    w = {"name": "w", "kind": "graph", "inner": 0, "inRen": [[a, b] for a, b in (("x", ren_x), ("f", ren_f)) if a != b], "outRen": [], "mapOver": [ren_x],
         "mapMode": rng.choice(["zip", "product"])}
    use = {"name": "use", "kind": "fn", "params": [["y", None]], "dataOuts": ["z"], "body": {"b": "tag", "t": "use"}, "ann": {"y": LI, "return": "str"}}
    good = [mk, fac, w, use]
    bad = copy.deepcopy(good)
    which = rng.choice(["item_into_mapped", "list_into_broadcast", "item_out_of_mapping"])
    if which == "item_into_mapped":
        bad[0]["ann"]["return"] = "int"
        bad[0]["body"] = {"b": "const", "v": 1}
    elif which == "list_into_broadcast":
        bad[1]["ann"]["return"] = LI
    else:
        bad[3]["ann"]["y"] = "int"
    rng.shuffle(good)
    rng.shuffle(bad)
    mk_prog = lambda ns: [copy.deepcopy(inner), {"name": "g1", "nodes": ns, "bound": [], "strict": True}]   # noqa: E731
    return mk_prog(good), mk_prog(bad), "type_mismatch_mapping_" + which


def tuple_typed(rng: random.Random) -> tuple[list[dict], list[dict] | None, str]:
    """strict_types around a node with SEVERAL outputs annotated by one tuple: each output takes its element's type; a variable-length
    `tuple[T, ...]` types every output as `T`."""
    k = rng.choice([2, 2, 3])
    elems = [rng.choice(["int", "str", "bool"]) for _ in range(k)]
    var = rng.random() < 0.5
    if var:
        elems = [elems[0]] * k
        ret = {"g": "tuple", "a": [elems[0], "..."]}
    else:
        ret = {"g": "tuple", "a": list(elems)}
    outs = [f"o{i}" for i in range(k)]
    pq = {"name": "pq", "kind": "fn", "params": [["s", None]], "dataOuts": outs, "body": {"b": "multi", "t": "pq", "k": k}, "ann": {"s": "int", "return": ret}}
    j = rng.randrange(k)
    want = elems[j] if rng.random() < 0.7 else {"u": [elems[j], "float"]}
    use = {"name": "use", "kind": "fn", "params": [[outs[j], None]], "dataOuts": ["z"], "body": {"b": "tag", "t": "use"}, "ann": {outs[j]: want, "return": "str"}}
    good = [pq, use]
    bad = copy.deepcopy(good)
    other = {"int": "str", "str": "int", "bool": "str"}[elems[j]]
    bad[1]["ann"][outs[j]] = other
    rng.shuffle(good)
    rng.shuffle(bad)
    mk_prog = lambda ns: [{"name": "g0", "nodes": ns, "bound": [], "strict": True}]   # noqa: E731
    return mk_prog(good), mk_prog(bad), "type_mismatch_tuple_" + ("variadic" if var else "fixed")


def _find(nodes: list[dict], name: str) -> dict | None:
    return next((n for n in nodes if n["name"] == name), None)


def inject(rng: random.Random, program: list[dict], flaw: str, gi: int) -> list[dict] | None:
    """Introduce exactly one structural mistake into graph `gi`; None when the flaw does not apply."""
    p = copy.deepcopy(program)
    g = p[gi]
    nodes = g["nodes"]
    fns = [n for n in nodes if n["kind"] == "fn"]
    gates = [n for n in nodes if n["kind"] in ("route", "ifelse")]
    if flaw == "unknown_target":
        if not gates:
            return None
        gt = rng.choice(gates)
        i = rng.randrange(len(gt["targets"]))
        gt["targets"][i] = "nope"
        if gt["kind"] == "route":
            gt["body"] = {"b": "table", "rows": [], "dflt": None}
            gt["fallback"] = None
    elif flaw == "unknown_target_multi":
        routes = [n for n in gates if n["kind"] == "route" and len([t for t in n["targets"] if t != "__END__"]) >= 2]
        if not routes:
            return None
        rng.choice(routes)["targets"].append("nope")
    elif flaw == "gate_self_target":
        if not gates:
            return None
        gt = rng.choice(gates)
        gt["targets"][0] = gt["name"]
        if gt["kind"] == "route":
            gt["body"] = {"b": "table", "rows": [], "dflt": None}
            gt["fallback"] = None
    elif flaw == "dup_producer":
        ungated = [n for n in fns if n.get("dataOuts") and not any(n["name"] in gt["targets"] for gt in gates)]
        if len(ungated) < 2:
            return None
        a, b = rng.sample(ungated, 2)
        if _reaches(nodes, a["name"], b["name"]) or _reaches(nodes, b["name"], a["name"]):
            return None  # ordered producers of one name are allowed
        b["dataOuts"] = [a["dataOuts"][0]] + b["dataOuts"][1:]
        if b["body"]["b"] == "multi" and len(b["dataOuts"]) == 1:
            b["body"] = {"b": "tag", "t": b["name"]}
    elif flaw == "dup_producer_two_names":
        # two unordered, non-exclusive nodes that share TWO output names, the only edges between them carrying exactly those names
        ungated = [n for n in fns if n.get("dataOuts") and not any(n["name"] in gt["targets"] for gt in gates) and not n.get("emits") and not n.get("waitFor")]
        if len(ungated) < 2:
            return None
        a, b = rng.sample(ungated, 2)
        if _reaches(nodes, a["name"], b["name"]) or _reaches(nodes, b["name"], a["name"]):
            return None
        o0 = a["dataOuts"][0]
        o1 = a["dataOuts"][1] if len(a["dataOuts"]) > 1 else "zz_second"
        for n in (a, b):
            n["dataOuts"] = [o0, o1]
            n["body"] = {"b": "multi", "t": n["name"], "k": 2}
        a.setdefault("params", []).append(["fb_in", {"d": 0}])
        a["inRen"] = list(a.get("inRen", [])) + [["fb_in", o1]]
        b.setdefault("params", []).append(["fw_in", {"d": 0}])
        b["inRen"] = list(b.get("inRen", [])) + [["fw_in", o0]]
    elif flaw == "dup_producer_two_gates":
        # two producers of one name sitting under DIFFERENT, independent gates: not exclusive (both gates may select their branch)
        excl = [gt for gt in gates if gt["kind"] == "ifelse" or not gt.get("multiTarget")]
        pairs = []
        for ga in excl:
            for gb in excl:
                if ga["name"] >= gb["name"]:
                    continue
                for ta in ga["targets"]:
                    for tb in gb["targets"]:
                        na, nb = _find(nodes, ta), _find(nodes, tb)
                        if na and nb and ta != tb and na["kind"] == "fn" and nb["kind"] == "fn" and na.get("dataOuts") and nb.get("dataOuts") \
                                and ta not in gb["targets"] and tb not in ga["targets"] \
                                and not any(ta in o["targets"] and tb in o["targets"] for o in gates):
                            pairs.append((na, nb))
        pairs = [(x, y) for x, y in pairs if not _reaches(nodes, x["name"], y["name"]) and not _reaches(nodes, y["name"], x["name"])
                 and not _reaches(nodes, next(g_["name"] for g_ in excl if x["name"] in g_["targets"]), y["name"])
                 and not _reaches(nodes, next(g_["name"] for g_ in excl if y["name"] in g_["targets"]), x["name"])]
        if not pairs:
            return None
        x, y = rng.choice(pairs)
        y["dataOuts"] = [x["dataOuts"][0]] + y["dataOuts"][1:]
        if y["body"]["b"] == "multi" and len(y["dataOuts"]) == 1:
            y["body"] = {"b": "tag", "t": y["name"]}
    elif flaw == "dup_node":
        if len(nodes) < 2:
            return None
        a, b = rng.sample(nodes, 2)
        b["name"] = a["name"]
    elif flaw == "bad_node_name":
        if not (fns or gates):
            return None     # nested-graph node names follow the (laxer) graph-name rule by design
        old = rng.choice(fns or gates)
        new = rng.choice(["has-dash", "class", "1abc", "with space"])
        for gt in gates:
            gt["targets"] = [new if t == old["name"] else t for t in gt["targets"]]
        old["name"] = new
    elif flaw in ("bad_output_name", "bad_graph_output_name"):
        c = [n for n in fns if n.get("dataOuts")]
        gns = [n for n in nodes if n["kind"] == "graph"]
        if flaw == "bad_graph_output_name" and not gns:
            return None
        if gns and (flaw == "bad_graph_output_name" or rng.random() < 0.5):
            # a nested-graph node exposing an inner output under an illegal name (its own NAME is exempt, its outputs are not)
            gn = rng.choice(gns)
            inner_outs = [o for m in p[gn["inner"]]["nodes"] for o in m.get("dataOuts", [])]
            ren = dict(gn.get("outRen", []))
            if inner_outs and not p[gn["inner"]].get("selected"):
                o = rng.choice(inner_outs)
                ren[o] = rng.choice(["has-dash", "for", "9x"])
                gn["outRen"] = [[k, v] for k, v in ren.items()]
                return p
            if flaw == "bad_graph_output_name":
                return None
        if not c:
            return None
        rng.choice(c)["dataOuts"][0] = rng.choice(["has-dash", "for", "9x"])
    elif flaw == "dup_output_in_node":
        # one node declaring the same output name twice (the second value would silently overwrite the first)
        c = [n for n in fns if n.get("dataOuts")]
        if not c:
            return None
        n = rng.choice(c)
        o = n["dataOuts"][0]
        n["dataOuts"] = [o, o] if len(n["dataOuts"]) == 1 or rng.random() < 0.5 else n["dataOuts"] + [o]
        n["body"] = {"b": "multi", "t": n["name"], "k": len(n["dataOuts"])}
    elif flaw == "bad_graph_name":
        g["name"] = rng.choice(["a.b", "a/b"])
    elif flaw == "bad_graph_node_name":
        # a nested-graph node renamed (with_name) to a name holding a path separator of the hierarchical node ids
        gns = [n for n in nodes if n["kind"] == "graph"]
        if not gns:
            return None
        gn = rng.choice(gns)
        new = rng.choice(["a/b", "sub.x", gn["name"] + "/" + gn["name"], "."])
        for gt in gates:
            gt["targets"] = [new if t == gn["name"] else t for t in gt["targets"]]
        gn["name"] = new
        gn["nameVia"] = "with_name"
    elif flaw == "inconsistent_default":
        # two consumers of one external input: one with a default, one without (or different values)
        cons: dict[str, list] = {}
        produced = {o for n in nodes for o in n.get("dataOuts", [])}
        for n in fns:
            ren = dict(n.get("inRen", []))
            for prm in n.get("params", []):
                cons.setdefault(ren.get(prm[0], prm[0]), []).append(prm)
        shared = [k for k, v in cons.items() if len(v) >= 2 and k not in produced]
        if not shared:
            return None
        prms = cons[rng.choice(shared)]
        if all(q[1] is None for q in prms):
            prms[0][1] = {"d": 5}
        else:
            with_d = [q for q in prms if q[1] is not None]
            with_d[0][1] = {"d": "other-default"}
            if len({repr(q[1]) for q in prms}) == 1:
                return None
    elif flaw == "inconsistent_default_fed":
        # the same, for a parameter that some node of the graph PRODUCES: its consumers' defaults are not dead (an entry point below the
        # producer, or a cycle seed, makes the name an input again) and must agree all the same
        cons2: dict[str, list] = {}
        produced2 = {o for n in nodes for o in n.get("dataOuts", [])}
        for n in fns:
            ren = dict(n.get("inRen", []))
            for prm in n.get("params", []):
                cons2.setdefault(ren.get(prm[0], prm[0]), []).append(prm)
        shared2 = [k for k, v in cons2.items() if len(v) >= 2 and k in produced2]
        if not shared2:
            return None
        prms = cons2[rng.choice(shared2)]
        if all(q[1] is None for q in prms):
            prms[0][1] = {"d": 5}
        else:
            with_d = [q for q in prms if q[1] is not None]
            with_d[0][1] = {"d": "other-default"}
            if len({repr(q[1]) for q in prms}) == 1:
                return None
    elif flaw == "wait_for_unknown":
        cands = [n for n in nodes if n["kind"] != "graph"]
        if not cands:
            return None
        rng.choice(cands)["waitFor"] = ["never_produced"]
    elif flaw in ("edge_unknown_node", "edge_unknown_value"):
        if len(fns) < 2 or gates or any(n["kind"] == "graph" for n in nodes):
            return None
        # explicit edges for the whole graph, one of them broken
        edges = []
        outs = {o: n["name"] for n in nodes for o in n.get("dataOuts", []) + n.get("emits", [])}
        for n in nodes:
            ren = dict(n.get("inRen", []))
            for prm in n.get("params", []):
                cur = ren.get(prm[0], prm[0])
                if cur in outs:
                    edges.append([outs[cur], n["name"], [cur]])
        if not edges:
            return None
        e = rng.choice(edges)
        if flaw == "edge_unknown_node":
            e[rng.randrange(2)] = "ghost"
        else:
            e[2] = ["no_such_value"]
        g["edges"] = edges
    elif flaw == "type_mismatch":
        if not g.get("strict"):
            return None
        b = _find(nodes, "b")
        a = _find(nodes, "a") or _find(p[0]["nodes"], "a")
        if b is None or a is None:
            return None
        b["ann"][b["params"][0][0]] = rng.choice(["str", {"g": "list", "a": ["str"]}, "float"])
        a["ann"]["return"] = rng.choice(["int", {"g": "list", "a": ["int"]}])
    elif flaw == "missing_annotation":
        if not g.get("strict"):
            return None
        cands = [x for x in nodes if x["name"] in ("a", "b")]
        if not cands:
            return None
        n = rng.choice(cands)
        if n["name"] == "a":
            del n["ann"]["return"]
        else:
            del n["ann"][n["params"][0][0]]
    else:
        return None
    return p


def _reaches(nodes: list[dict], src: str, dst: str) -> bool:
    """Is there a dependency path src -> dst (data, ordering or control)?"""
    outs = {n["name"]: set(n.get("dataOuts", [])) | set(n.get("emits", [])) for n in nodes}
    ins = {}
    for n in nodes:
        ren = dict(n.get("inRen", []))
        ins[n["name"]] = {ren.get(p[0], p[0]) for p in n.get("params", [])} | set(n.get("waitFor", []))
    succ = {n["name"]: {m["name"] for m in nodes if outs[n["name"]] & ins[m["name"]]} | {t for t in n.get("targets", []) if t != "__END__"} for n in nodes}
    seen, work = {src}, [src]
    while work:
        x = work.pop()
        for y in succ.get(x, ()):
            if y == dst:
                return True
            if y not in seen:
                seen.add(y)
                work.append(y)
    return False


class C19(Prop):
    id = "C19"
    level = "proof"
    nontrivial_rule = (
        "(a) every valid generated graph (DAG with nesting, gated, strictly typed chains) x one injected structural flaw of each applicable class at a "
        "random position, also inside nested graphs: the flawed graph must be rejected by the constructor with GraphConfigError, the original accepted; "
        "(b) is_type_compatible vs the Lean judgement on blocks of ordered pairs of the closed type universe (depth 0 exhaustive in quick, depth 1 "
        "exhaustive in thorough, depth 2-3 sampled) plus algebraic laws (reflexivity, Any top, union laws, generic covariance) checked on the real "
        "function; non-trivial = a flaw was injected or the block contains a compatible and an incompatible pair; distinct by canonical hash"
    )
    budgets = {"quick": 260, "thorough": 6000}

    def cases(self, rng: random.Random, tier: str) -> Iterable[dict]:
        from .. import type_universe as tu

        d0 = [e for _, e in tu.type_universe(0)]
        d1 = [e for _, e in tu.type_universe(1)] if tier == "thorough" else None
        i = 0
        # every dedicated family is visited several times per run, whatever the seed
        forced = [n_way_gate, signal_branches, explicit_typed, mapped_typed, signal_branches, tuple_typed, branch_typed] * 4 + [three_producers, hidden_wait] * 3 + [self_typed] * 4
        while True:
            i += 1
            if i % 4 == 0:
                # a block of type pairs
                if tier == "quick":
                    pool = d0 + [e for _, e in tu.sample_universe(rng.choice([1, 2]), 30, seed=rng.randint(0, 10**6))]
                else:
                    pool = d1 if rng.random() < 0.7 else [e for _, e in tu.sample_universe(rng.choice([2, 3]), 60, seed=rng.randint(0, 10**6))]
                rows = rng.sample(pool, min(len(pool), 12))
                cols = rng.sample(pool, min(len(pool), 40))
                yield {"kind": "types", "rows": rows, "cols": cols}
                continue
            r = rng.random()
            if forced or r < 0.09:
                fam = forced.pop() if forced else rng.choice([n_way_gate, signal_branches, signal_branches, explicit_typed, mapped_typed, tuple_typed, branch_typed, three_producers, hidden_wait, self_typed])
                valid, flawed, flaw = fam(rng)
                if rng.random() < 0.3 and fam is not mapped_typed and fam is not hidden_wait:
                    # the same inside a nested graph
                    wrap = lambda pr: [pr[0], {"name": "outer", "nodes": [{"name": "w", "kind": "graph", "inner": 0}], "bound": []}]   # noqa: E731
                    valid, flawed = wrap(valid), wrap(flawed)
                yield {"kind": "struct", "program": valid, "flaw": flaw, "flawed": flawed, "gi": 0, "late": rng.random() < 0.5}
                continue
            r = rng.random()
            if r < 0.06:
                c = two_gate_program(rng)
                if rng.random() < 0.4:
                    # the same inside a nested graph
                    c["program"] = [c["program"][0], {"name": "outer", "nodes": [{"name": "w", "kind": "graph", "inner": 0}], "bound": []}]
                program = c["program"]
                flawed = inject(rng, program, "dup_producer_two_gates", 0)
                yield {"kind": "struct", "program": program, "flaw": "dup_producer_two_gates" if flawed is not None else None, "flawed": flawed, "gi": 0,
                       "late": rng.random() < 0.5}
                continue
            if r < 0.4:
                c = gen.gen_dag_program(rng, max_nodes=6, depth=rng.choice([0, 0, 1]), allow_fed_default=False)
            elif r < 0.8:
                c = gen.gen_gated_dag(rng, max_nodes=rng.choice([8, 8, 12]))
            else:
                c = typed_chain(rng)
            program = c["program"]
            gi = rng.randrange(len(program))
            flaw, flawed = None, None
            order = rng.sample(FLAWS, len(FLAWS))
            if rng.random() < 0.6:
                # flaw classes that need a particular structure are tried first (the generic ones apply almost everywhere)
                rare = ["bad_graph_node_name", "bad_graph_output_name", "inconsistent_default_fed", "dup_output_in_node", "dup_producer_two_gates", "dup_producer_two_names", "inconsistent_default", "type_mismatch", "missing_annotation",
                        "unknown_target_multi", "edge_unknown_node", "edge_unknown_value", "dup_producer", "gate_self_target", "unknown_target"]
                rng.shuffle(rare)
                order = rare + [f for f in order if f not in rare]
            for flaw in order:
                flawed = inject(rng, program, flaw, gi)
                if flawed is not None:
                    break
            yield {"kind": "struct", "program": program, "flaw": flaw if flawed is not None else None, "flawed": flawed, "gi": gi,
                   "late": rng.random() < 0.5}

    # ---------------------------------------------------------------- implementation
    @staticmethod
    def _construct(program: list[dict], late: bool = False) -> str:
        try:
            env = Env()
            env.late_renames = late      # node objects are used first (placed in a graph, defaults read) and renamed afterwards
            build.build_program(program, env)
            return "ok"
        except GraphConfigError:
            return "GraphConfigError"
        except Exception as e:  # noqa: BLE001
            return "other:" + type(e).__name__

    def impl(self, case: dict) -> Any:
        if case["kind"] == "types":
            from .. import type_universe as tu
            import warnings

            rows = [tu.decode(e) for e in case["rows"]]
            cols = [tu.decode(e) for e in case["cols"]]
            with warnings.catch_warnings():
                warnings.simplefilter("ignore")
                m = ["".join("1" if tu.is_type_compatible(a, b) else "0" for b in cols) for a in rows]
                refl = [tu.is_type_compatible(a, a) for a in rows]
                top = [tu.is_type_compatible(a, tu.Any) for a in rows]
            return {"m": m, "refl": refl, "top": top}
        late = bool(case.get("late"))
        out = {"valid": self._construct(case["program"], late), "flawed": self._construct(case["flawed"], late) if case["flawed"] is not None else None}
        if out["flawed"] == "ok" and str(case.get("flaw", "")).startswith("dup_producer"):
            out["both_ran"] = self._both_producers_run(case["flawed"], case["gi"])
        return out

    @staticmethod
    def _both_producers_run(program: list[dict], gi: int) -> Any:
        """An ACCEPTED graph with two producers of one name: is it a mistake?  Semantically: some input valuation makes both of them run in
        one run (searched over small values of the graph's inputs).  Returns the witness [valuation, name, producers] or None."""
        import warnings

        from hypergraph import SyncRunner

        prods: dict[str, list[str]] = {}
        for n in program[gi]["nodes"]:
            for o in n.get("dataOuts", []):
                prods.setdefault(o, []).append(n["name"])
        dups = {o: ns for o, ns in prods.items() if len(ns) > 1}
        if not dups or gi != len(program) - 1:
            return None
        rng = random.Random(canonical_hash(program))
        for _ in range(60):
            env = Env()
            try:
                g = build.build_program(program, env)[-1]
                vals = {k: rng.randint(0, 4) for k in list(g.inputs.required) + list(g.inputs.optional)}
                with warnings.catch_warnings():
                    warnings.simplefilter("ignore")
                    SyncRunner().run(g, vals, error_handling="continue", max_iterations=30)
            except Exception:  # noqa: BLE001
                continue
            ran = {f.split(":", 1)[1] for f, _ in env.log if f.startswith(f"{gi}:")}
            for o, ns in dups.items():
                hit = [n for n in ns if n in ran]
                if len(hit) > 1 and not any(_reaches(program[gi]["nodes"], a, b) for a in hit for b in hit if a != b):
                    return [sorted(vals.items()), o, hit]
        return None

    def oracle(self, case: dict, obs: Any) -> str | None:
        if case["kind"] == "types":
            from .. import type_universe as tu
            import warnings

            for e, r, t in zip(case["rows"], obs["refl"], obs["top"]):
                if not r:
                    return f"type compatibility is not reflexive on {e!r}"
                if not t:
                    return f"{e!r} is not compatible with Any"
            rows = [tu.decode(e) for e in case["rows"]]
            cols = [tu.decode(e) for e in case["cols"]]
            with warnings.catch_warnings():
                warnings.simplefilter("ignore")
                for i, a in enumerate(rows):
                    ea = case["rows"][i]
                    is_union_a = isinstance(ea, dict) and "u" in ea
                    for j, b in enumerate(cols):
                        eb = case["cols"][j]
                        ok = obs["m"][i][j] == "1"
                        # A -> A | B for a non-union A
                        if not is_union_a and not (isinstance(eb, dict) and ("u" in eb or "ann" in eb)) and not (isinstance(ea, dict) and "ann" in ea):
                            try:
                                u = tu.Union[a, b]
                            except TypeError:
                                continue
                            if tu.encode(u) != ea and not tu.is_type_compatible(a, u):
                                return f"{ea!r} is not compatible with the union of itself and {eb!r}"
                        # plain classes: subclassing
                        if isinstance(ea, str) and isinstance(eb, str) and ea in tu._NAME_TO_CLASS and eb in tu._NAME_TO_CLASS:
                            if ok != issubclass(tu._NAME_TO_CLASS[ea], tu._NAME_TO_CLASS[eb]):
                                return f"plain classes {ea} -> {eb}: judged {ok}, issubclass says {not ok}"
            return None
        if obs["valid"] != "ok":
            return f"a valid generated graph was rejected at construction: {obs['valid']}"
        if case["flawed"] is not None:
            if obs["flawed"] == "ok":
                if str(case["flaw"]).startswith("dup_producer"):
                    # whether two un-ordered producers can both run is decided semantically: a run in which both of them executed
                    w = obs.get("both_ran")
                    if w is None:
                        return None
                    return (f"graph with the structural mistake {case['flaw']!r} was accepted by the constructor: with inputs {w[0]} the producers {w[2]} of "
                            f"{w[1]!r} all ran in one run")
                return f"graph with the structural mistake {case['flaw']!r} was accepted by the constructor"
            if obs["flawed"] != "GraphConfigError":
                return f"structural mistake {case['flaw']!r} was rejected with {obs['flawed']} instead of a configuration error"
        return None

    # ---------------------------------------------------------------- model
    def model(self, case: dict, driver: Any) -> Any:
        if case["kind"] == "types":
            return driver.ask({"op": "compat", "rows": case["rows"], "cols": case["cols"]})
        out = {"valid": self._model_construct(driver, case["program"])}
        out["flawed"] = self._model_construct(driver, case["flawed"]) if case["flawed"] is not None else None
        return out

    @staticmethod
    def _model_construct(driver: Any, program: list[dict]) -> str:
        """The Lean constructor model applied graph by graph in build order: the first rejected graph decides."""
        for gi in range(len(program)):
            cls = driver.ask({"op": "build", "program": program, "gi": gi})["class"]
            if cls != "ok":
                return cls
        return "ok"

    def compare(self, case: dict, i: Any, m: Any) -> str | None:
        if case["kind"] == "types":
            if i["m"] != m["m"]:
                for a, (x, y) in enumerate(zip(i["m"], m["m"])):
                    for b, (p, q) in enumerate(zip(x, y)):
                        if p != q:
                            return f"is_type_compatible({case['rows'][a]!r}, {case['cols'][b]!r}) = {p}, Lean compat = {q}"
            return None
        for k in ("valid", "flawed"):
            if i[k] is None:
                continue
            if (i[k] == "ok") != (m[k] == "ok"):
                return f"{k} graph: constructor {i[k]} vs Lean buildGraph {m[k]}"
        return None

    def nontrivial(self, case: dict, obs: Any) -> bool:
        if case["kind"] == "types":
            flat = "".join(obs["m"])
            return "0" in flat and "1" in flat
        return case["flawed"] is not None

    def features(self, case: dict, obs: Any) -> dict:
        if case["kind"] == "types":
            return {"kind": "types", "pairs": len(case["rows"]) * len(case["cols"])}
        return {"kind": "struct", "flaw": case["flaw"] or "none-applicable", "nested_position": case["gi"] < len(case["program"]) - 1, "outcome": obs["flawed"]}

    def signature(self, case: dict, obs: Any, why: str) -> str:
        return "case:" + canonical_hash(case)

    def sample(self, case: dict, obs: Any) -> Any:
        if case["kind"] == "types":
            return {"rows": case["rows"][:3], "cols": case["cols"][:3]}
        return {"flaw": case["flaw"], "gi": case["gi"], "flawed": case["flawed"]}

    def neighbours(self, case: dict, rng: random.Random) -> Iterable[dict]:
        yield from self.cases(rng, "quick")


PROP = C19()
