"""C08 — input contract: the reported input spec is exact; violations fail before execution."""
from __future__ import annotations

import asyncio
import copy
import random
import warnings
from typing import Any, Iterable

from .. import build, common, gen, impl
from ..build import Env, enc_val, py_val
from ..engine import Prop, canonical_hash

common.use_repo()
from hypergraph import AsyncRunner, SyncRunner  # noqa: E402
from hypergraph.exceptions import MissingInputError  # noqa: E402


def spec_obs(g: Any) -> dict:
    s = g.inputs
    return {
        "required": list(s.required),
        "optional": list(s.optional),
        "entrypoints": sorted([k, list(v)] for k, v in s.entrypoints.items()),
        "bound": sorted(s.bound.keys()),
    }


def classify(e: BaseException) -> str:
    if isinstance(e, MissingInputError):
        return "MissingInputError"
    from hypergraph.graph.validation import GraphConfigError

    if isinstance(e, GraphConfigError):
        return "GraphConfigError"
    if type(e) is ValueError:
        return "ValueError"
    return "other:" + type(e).__name__


def _feeds(root: dict, a: str, b: str) -> bool:
    """Does node a (transitively, through data) feed node b in this graph?"""
    outs = {n["name"]: set(n.get("dataOuts", [])) for n in root["nodes"]}
    ins = {}
    for n in root["nodes"]:
        ren = dict(n.get("inRen", []))
        ins[n["name"]] = {ren.get(q[0], q[0]) for q in n.get("params", [])}
    seen, work = {a}, [a]
    while work:
        x = work.pop()
        for y in ins:
            if y not in seen and outs.get(x, set()) & ins[y]:
                if y == b:
                    return True
                seen.add(y)
                work.append(y)
    return False


def _entry_groups(root: dict, entry_nodes: list[str]) -> list[list[str]]:
    """Entry-point nodes grouped by the data cycle they lie on (order of first appearance)."""
    import networkx as nx

    g = nx.DiGraph()
    outs: dict[str, list[str]] = {}
    for n in root["nodes"]:
        g.add_node(n["name"])
        for o in n.get("dataOuts", []):
            outs.setdefault(o, []).append(n["name"])
    for n in root["nodes"]:
        ren = dict(n.get("inRen", []))
        for prm in n.get("params", []):
            for src in outs.get(ren.get(prm[0], prm[0]), []):
                g.add_edge(src, n["name"])
    comp = {}
    for i, scc in enumerate(nx.strongly_connected_components(g)):
        for v in scc:
            comp[v] = i
    groups: dict[int, list[str]] = {}
    for e in entry_nodes:
        groups.setdefault(comp.get(e, -1 - len(groups)), []).append(e)
    return list(groups.values())


class C08(Prop):
    id = "C08"
    level = "proof"
    nontrivial_rule = (
        "generated graphs (DAG with nesting, gated, cyclic loop families) x random bind / graph-level select / with_entrypoint / "
        "run-time select; trials: all required inputs (+ one listed entry point) supplied, then each single required input omitted; "
        "non-trivial = at least one required input and at least one configuration operation; distinct by canonical hash"
    )
    budgets = {"quick": 250, "thorough": 4000}

    @staticmethod
    def _sibling_nested_binding(rng: random.Random, plain: str = "none") -> dict:
        """Two sibling NESTED graphs share an input name and only one binds it inside: the outer spec reports the name as bound, so a call
        supplying the required inputs is accepted and completes — the un-binding sibling receives that value like a plain sibling would."""
        fn = gen._fn_node
        v = rng.randint(1, 9)
        g1 = {"name": "g1", "nodes": [fn("scale", [["k", None], ["x", None]], ["a"], {"b": "tag", "t": "scale"})], "bound": [["k", v]]}
        g2 = {"name": "g2", "nodes": [fn("offset", [["k", None], ["u", None]], ["s"], {"b": "tag", "t": "offset"})], "bound": []}
        top = [{"name": "g1", "kind": "graph", "inner": 0}, {"name": "g2", "kind": "graph", "inner": 1}]
        if plain != "none":
            # a PLAIN consumer of the name too, listed before or after the nested graphs: whichever consumer is listed first, the name is bound
            top.insert(0 if plain == "first" else len(top), fn("third", [["k", None]], ["t"], {"b": "tag", "t": "third"}))
        # (the binding sibling listed FIRST: which of two DIFFERENT inner bindings surfaces is the recorded finding C02-F3)
        return {"program": [g1, g2, {"name": "root", "nodes": top, "bound": []}], "values": [["x", rng.randint(0, 3)], ["u", rng.randint(0, 3)], ["k", rng.randint(10, 19)]]}

    @staticmethod
    def _renamed_onto_bound_name(rng: random.Random) -> dict:
        """The inner graph binds `y` and leaves `x` free; the wrapper renames both in ONE call so that the free parameter takes the NAME of
        the bound one (y -> cfg, x -> y): the wrapper's `y` is the free inner `x` — required — whatever the inner graph binds under that name."""
        fn = gen._fn_node
        inner = {"name": "g0", "nodes": [fn("work", [["x", None], ["y", None]], ["out"], {"b": "tag", "t": "work"})], "bound": [["y", rng.randint(1, 9)]]}
        ren = rng.choice([[["y", "cfg"], ["x", "y"]], [["x", "y"], ["y", "x"]]])
        top = [fn("prep", [["seed", None]], ["pre"], {"b": "sum", "k": 1}), {"name": "w", "kind": "graph", "inner": 0, "inRen": ren},
               fn("fin", [["out", None], ["pre", None]], ["res"], {"b": "tag", "t": "fin"})]
        rng.shuffle(top)
        prog = [inner, {"name": "root", "nodes": top, "bound": []}]
        if rng.random() < 0.4:
            prog.append({"name": "root2", "nodes": [{"name": "lvl", "kind": "graph", "inner": 1}], "bound": []})
        return {"program": prog, "values": [["seed", rng.randint(0, 3)], ["y", rng.randint(10, 19)], ["x", rng.randint(20, 29)], ["cfg", rng.randint(30, 39)]]}

    @staticmethod
    def _entry_reaches_by_control_or_signal(rng: random.Random, how: str) -> dict:
        """Entry points: what is downstream of the entry node INCLUDES nodes reached only through a gate's control edge (a gate target that
        reads nothing computed downstream) and nodes reached only through an ordering signal — their own inputs are required."""
        fn = gen._fn_node
        if how == "control":
            nodes = [fn("pre", [["seed", None]], ["a"], {"b": "sum", "k": 1}), fn("b1", [["a", None]], ["m"], {"b": "sum", "k": 1}),
                     {"name": "check", "kind": "ifelse", "params": [["m", None]], "targets": ["fin", "__END__"], "body": {"b": "lt", "k": 50}, "defaultOpen": rng.random() < 0.5},
                     fn("fin", [["label", None]], ["report"], {"b": "tag", "t": "fin"})]
            entry, vals = "b1", [["seed", 1], ["a", 2], ["label", 7]]
        else:
            nodes = [fn("pre", [["seed", None]], ["src"], {"b": "sum", "k": 1}), fn("load", [["src", None]], ["rows"], {"b": "tag", "t": "load"}, emits=["loaded"]),
                     fn("report", [["title", None]], ["text"], {"b": "tag", "t": "report"}, waitFor=["loaded"])]
            entry, vals = "load", [["seed", 1], ["src", 2], ["title", 7]]
        rng.shuffle(nodes)
        return {"program": [{"name": "g0", "nodes": nodes, "bound": [], "entrypoints": [entry]}], "values": vals}

    def cases(self, rng: random.Random, tier: str) -> Iterable[dict]:
        C08._variant = -1
        for how in ("control", "signal"):      # whatever the seed
            c = self._entry_reaches_by_control_or_signal(rng, how)
            for runner in ("sync", "async"):
                yield {"program": copy.deepcopy(c["program"]), "known": c["values"], "rtselect": None, "ops": {"entrypoints": c["program"][0]["entrypoints"]}, "runner": runner}
        for _ in range(3):      # whatever the seed
            c = self._renamed_onto_bound_name(rng)
            yield {"program": copy.deepcopy(c["program"]), "known": c["values"], "rtselect": None, "ops": {"renamedOntoBound": 1}, "runner": rng.choice(["sync", "async"])}
        for plain in ("first", "none", "last"):      # whatever the seed
            c = self._sibling_nested_binding(rng, plain)
            for runner in ("sync", "async"):
                yield {"program": copy.deepcopy(c["program"]), "known": c["values"], "rtselect": None, "ops": {"siblings": 1}, "runner": runner}
        forced = [0.05, 0.14, 0.17, 0.18, 0.18, 0.18, 0.18, 0.18, 0.23, 0.265, 0.265, 0.275, 0.275, 0.285] * 2      # every dedicated family, whatever the seed
        while True:
            r = forced.pop() if forced else rng.random()
            if 0.26 <= r < 0.27:
                c = self._mapped_default(rng)
            elif 0.27 <= r < 0.28:
                c = self._narrowed_after_bind(rng)
            elif 0.28 <= r < 0.29:
                for c in self._inner_binding_twins(rng):
                    yield {"program": copy.deepcopy(c["program"]), "known": c["values"], "rtselect": c["rtselect"], "ops": {"twins": 1}, "runner": "sync"}
                continue
            elif r < 0.12:
                c = self._entry_bypass(rng)
            elif r < 0.16:
                c = self._cycle_seed_default(rng)
            elif r < 0.175:
                c = self._signal_select(rng)
            elif r < 0.2:
                c = self._inner_binding_renamed(rng)
            elif r < 0.26:
                c = self._two_cycles(rng)
            elif r < 0.45:
                c = gen.gen_dag_program(rng, max_nodes=7, depth=rng.choice([0, 0, 1]), allow_fed_default=rng.random() < 0.3)
            elif r < 0.75:
                c = gen.gen_gated_dag(rng)
            else:
                c = gen.gen_loop(rng)
            program = copy.deepcopy(c["program"])
            root = program[-1]
            known = dict((k, v) for k, v in c["values"])
            if c.get("fixed_ops"):
                yield {"program": program, "known": [[k, v] for k, v in known.items()], "rtselect": None, "ops": {"entrypoints": root.get("entrypoints")},
                       "runner": rng.choice(["sync", "async"])}
                continue
            outs = list(dict.fromkeys(o for n in root["nodes"] for o in n.get("dataOuts", [])))
            ops: dict[str, Any] = {}
            if rng.random() < 0.35:
                # bind some external inputs
                ext = [k for k in known if rng.random() < 0.4]
                extra = dict(root.get("bound", []))
                for k in ext:
                    extra[k] = known[k]
                root["bound"] = [[k, v] for k, v in extra.items()]
                ops["bind"] = ext
            consumed = {dict(n.get("inRen", [])).get(q[0], q[0]) for n in root["nodes"] for q in n.get("params", [])}
            mids = [o for o in outs if o in consumed and o not in dict(root.get("bound", []))]
            if mids and rng.random() < 0.12 and not any(n["kind"] == "graph" for n in root["nodes"]):
                # bind an INTERMEDIATE value (allowed: "a graph input or output"): its producer is by-passed
                m = rng.choice(mids)
                root["bound"] = list(root.get("bound", [])) + [[m, 5]]
                ops["bind_mid"] = [m]
            if outs and rng.random() < 0.3:
                root["selected"] = rng.sample(outs, rng.randint(1, min(2, len(outs))))
                ops["select"] = root["selected"]
            non_gates = [n["name"] for n in root["nodes"] if n["kind"] not in ("route", "ifelse")]
            if non_gates and rng.random() < 0.3:
                eps = rng.sample(non_gates, rng.randint(1, min(2, len(non_gates))))
                if len(eps) == 2 and (_feeds(root, eps[0], eps[1]) or _feeds(root, eps[1], eps[0])):
                    # one entry point feeding another: the fed one's input is reported as required AND supplying it by-passes the
                    # feeding one, whose own inputs are then not demanded (known finding C08-F1, exact input in findings/); kept out
                    eps = eps[:1]
                root["entrypoints"] = eps
                ops["entrypoints"] = root["entrypoints"]
            rtsel = None
            if outs and rng.random() < 0.3:
                rtsel = rng.sample(outs, rng.randint(1, min(2, len(outs))))
                ops["rtselect"] = rtsel
            yield {"program": program, "known": [[k, v] for k, v in known.items()], "rtselect": rtsel, "ops": ops,
                   "runner": rng.choice(["sync", "async"]), "rtselectTuple": rtsel is not None and rng.random() < 0.5}

    @staticmethod
    def _narrowed_after_bind(rng: random.Random) -> dict:
        """A name bound INSIDE a nested graph whose selection (applied after the bind) no longer needs it: the binding is private to the
        inner graph — an outer node that takes the same name still requires it from the caller."""
        inner = {"name": "inner", "nodes": [{"name": "f", "kind": "fn", "params": [["x", None]], "dataOuts": ["a"], "body": {"b": "sum", "k": 1}},
                                            {"name": "g", "kind": "fn", "params": [["a", None], ["lang", None]], "dataOuts": ["b"], "body": {"b": "tag", "t": "g"}}],
                 "bound": [["lang", rng.randint(1, 9)]], "selected": ["a"]}
        prog = [inner]
        w = {"name": "w", "kind": "graph", "inner": 0}
        if rng.random() < 0.4:
            prog.append({"name": "mid", "nodes": [w, {"name": "m", "kind": "fn", "params": [["a", None]], "dataOuts": ["am"], "body": {"b": "sum", "k": 0}}], "bound": [], "selected": ["a", "am"]})
            w = {"name": "mid", "kind": "graph", "inner": 1}
        top = [w, {"name": "h", "kind": "fn", "params": [["a", None], ["lang", None]], "dataOuts": ["c"], "body": {"b": "tag", "t": "h"}}]
        rng.shuffle(top)
        prog.append({"name": "root", "nodes": top, "bound": []})
        return {"program": prog, "values": [["x", rng.randint(0, 3)], ["lang", rng.randint(10, 19)]], "fixed_ops": True}

    @staticmethod
    def _inner_binding_twins(rng: random.Random) -> list[dict]:
        """TWO graphs of one process with the same wiring and the same run-time selection that differ only in what is bound INSIDE their nested
        graph (or in how an input that is on no edge is named): what each one requires is its own."""
        def prog(bound_inside: bool, ren: bool) -> list[dict]:
            inner = {"name": "inner", "nodes": [{"name": "f", "kind": "fn", "params": [["x", None], ["k", None]], "dataOuts": ["a"], "body": {"b": "tag", "t": "f"}}],
                     "bound": [["k", 5]] if bound_inside else []}
            top = [{"name": "w", "kind": "graph", "inner": 0, "inRen": [["x", "text"]] if ren else []},
                   {"name": "h", "kind": "fn", "params": [["a", None], ["top_k", None]], "dataOuts": ["hits"], "body": {"b": "tag", "t": "h"}},
                   {"name": "side", "kind": "fn", "params": [["a", None]], "dataOuts": ["s"], "body": {"b": "tag", "t": "side"}}]
            return [inner, {"name": "root", "nodes": top, "bound": []}]
        variants = [(True, False), (False, False), (False, True), (True, True)]
        rng.shuffle(variants)
        out = []
        for b, r in variants[: rng.randint(2, 4)]:
            vals = [["text" if r else "x", 1], ["k", 2], ["top_k", 3]]
            out.append({"program": prog(b, r), "values": vals, "fixed_ops": True, "rtselect": ["hits"]})
        return out

    @staticmethod
    def _mapped_default(rng: random.Random) -> dict:
        """A mapping wrapper whose mapped-over parameter has only a SIGNATURE default inside (one item, not a collection to map over), or a
        collection BOUND inside (usable): what the spec reports must be what a run needs."""
        d = rng.randint(2, 9)
        inner_nodes = [{"name": "dbl", "kind": "fn", "params": [["x", {"d": d}], ["f", None]], "dataOuts": ["y"], "body": {"b": "sum", "k": 0}}]
        bound_inside = rng.random() < 0.35
        inner = {"name": "m", "nodes": inner_nodes, "bound": [["x", {"l": [1, 2, 3]}]] if bound_inside else []}
        ren = [["x", "xs"]] if rng.random() < 0.5 else []
        cur = "xs" if ren else "x"
        w = {"name": "w", "kind": "graph", "inner": 0, "inRen": ren, "outRen": [], "mapOver": [cur], "mapMode": "zip", "errMode": "raise"}
        nodes = [w, {"name": "after", "kind": "fn", "params": [["y", None]], "dataOuts": ["fin"], "body": {"b": "tag", "t": "after"}}]
        rng.shuffle(nodes)
        return {"program": [inner, {"name": "g1", "nodes": nodes, "bound": []}], "values": [[cur, {"l": [rng.randint(0, 4) for _ in range(rng.randint(1, 3))]}], ["f", rng.randint(0, 3)]],
                "fixed_ops": True}

    @staticmethod
    def _two_cycles(rng: random.Random) -> dict:
        """Two independent data cycles (two self-feeding accumulators) steered by ONE gate that reads both: one entry point per cycle."""
        n = rng.randint(1, 4)
        rows = [[v, rng.choice(["gen", "count"])] for v in range(0, n)]
        nodes = [
            {"name": "gen", "kind": "fn", "params": [["msgs", None], ["prompt", None]], "dataOuts": ["msgs"], "body": {"b": "append"}},
            {"name": "count", "kind": "fn", "params": [["total", None], ["step", None]], "dataOuts": ["total"], "body": {"b": "sum", "k": 0}},
            {"name": "decide", "kind": "route", "params": [["total", None], ["msgs", None]], "targets": ["gen", "count", "__END__"], "multiTarget": False, "fallback": None,
             "defaultOpen": rng.random() < 0.7, "body": {"b": "table", "rows": rows, "dflt": "__END__"}},
        ]
        rng.shuffle(nodes)
        values = [["prompt", 1], ["step", 1], ["msgs", {"l": []}], ["total", 0]]
        return {"program": [{"name": "g0", "nodes": nodes, "bound": []}], "values": values, "fixed_ops": True}

    @staticmethod
    def _signal_select(rng: random.Random) -> dict:
        """load(cfg) emits `ready`; work(x) waits for it; a selection names work's output only: load is still needed (its signal orders work),
        so its input stays required."""
        chain = rng.randint(0, 2)
        nodes = [{"name": "load", "kind": "fn", "params": [["cfg", None]], "dataOuts": [] if rng.random() < 0.6 else ["conf"], "body": {"b": "tag", "t": "load"}, "emits": ["ready"]},
                 {"name": "work", "kind": "fn", "params": [["x", None]], "dataOuts": ["out"], "body": {"b": "tag", "t": "work"}, "waitFor": ["ready"]}]
        prev = "out"
        for j in range(chain):
            nodes.append({"name": f"post{j}", "kind": "fn", "params": [[prev, None]], "dataOuts": [f"fin{j}"], "body": {"b": "tag", "t": f"post{j}"}})
            prev = f"fin{j}"
        rng.shuffle(nodes)
        g: dict[str, Any] = {"name": "g0", "nodes": nodes, "bound": [], "selected": [prev]}
        return {"program": [g], "values": [["cfg", 1], ["x", 2]], "fixed_ops": True}

    @staticmethod
    def _cycle_seed_default(rng: random.Random) -> dict:
        """load(raw)->scale ; accumulate(step, scale, carry=0)->total ; advance(total)->carry ; gate(total) -> advance | END.  The cycle
        is seeded through `advance` only (accumulate's own cycle input has a default); entering the cycle below `load` makes `scale`
        required next to `step`: supplying the entry point's `total` boot-straps the cycle, it does not by-pass `accumulate`."""
        limit = rng.randint(3, 9)
        nodes = [
            {"name": "load", "kind": "fn", "params": [["raw", None]], "dataOuts": ["scale"], "body": {"b": "sum", "k": 0}},
            {"name": "accumulate", "kind": "fn", "params": [["step", None], ["scale", None], ["carry", {"d": 0}]], "dataOuts": ["total"], "body": {"b": "sum", "k": 0}},
            {"name": "advance", "kind": "fn", "params": [["total", None]], "dataOuts": ["carry"], "body": {"b": "sum", "k": 0}},
            {"name": "more", "kind": "route", "params": [["total", None]], "targets": ["advance", "__END__"], "multiTarget": False, "fallback": None,
             "defaultOpen": True, "body": {"b": "table", "rows": [[v, "advance"] for v in range(0, limit)], "dflt": "__END__"}},
        ]
        if rng.random() < 0.5:
            rng.shuffle(nodes)
        g: dict[str, Any] = {"name": "g0", "nodes": nodes, "bound": []}
        ep = rng.choice([["advance"], ["advance"], ["accumulate"], None])
        if ep:
            g["entrypoints"] = ep
        if rng.random() < 0.3:
            g["selected"] = [rng.choice(["carry", "total"])]
        return {"program": [g], "values": [["raw", 1], ["step", 1], ["scale", 1], ["total", 1], ["carry", 1]], "fixed_ops": True}

    @staticmethod
    def _inner_binding_renamed(rng: random.Random) -> dict:
        """inner: f(k, u) -> r with k BOUND on the inner graph; the wrapper renames k -> k2 (sometimes not); the outer graph has an unrelated
        node reading a parameter called k (or k2): the inner binding must be visible under the wrapper's CURRENT name only."""
        how = "default" if getattr(C08, "_variant", -1) % 4 == 2 else "bound"
        inner = {"name": "inner", "nodes": [{"name": "f", "kind": "fn", "params": [["k", {"d": 7} if how == "default" else None], ["u", None]], "dataOuts": ["r"],
                                             "body": {"b": "tag", "t": "f"}}],
                 "bound": [["k", rng.randint(1, 9)]] if how == "bound" else []}
        # the wrapper renames k away, not at all, or onto a name the inner graph ALSO uses (a swap k <-> u, or a shift u -> w, k -> u in one call):
        # the binding / default must follow the parameter, not the name
        C08._variant = getattr(C08, "_variant", -1) + 1      # the wrapper shapes are visited in turn (every shape, whatever the seed)
        ren = [[["k", "k2"]], [], [["k", "u"], ["u", "k"]], [], [["u", "w"], ["k", "u"]]][C08._variant % 5]
        wrapper = {"name": "w", "kind": "graph", "inner": 0, "inRen": ren, "outRen": []}
        other_param = "k" if (C08._variant // 5) % 3 != 2 else "k2"
        exposed = {"k": dict(ren).get("k", "k"), "u": dict(ren).get("u", "u")}
        if how == "default" and other_param == exposed["k"]:
            other_param = "k2" if exposed["k"] != "k2" else "k"     # (a default inside and none outside for ONE name is rejected by design)
        nodes = [wrapper, {"name": "other", "kind": "fn", "params": [[other_param, None], ["r", None]] if rng.random() < 0.5 else [[other_param, None]],
                           "dataOuts": ["o"], "body": {"b": "tag", "t": "other"}}]
        rng.shuffle(nodes)
        used = {exposed["k"], exposed["u"], other_param}
        values = [[nm, rng.randint(10, 19)] for nm in sorted(used)]
        return {"program": [inner, {"name": "outer", "nodes": nodes, "bound": []}], "values": values}

    @staticmethod
    def _entry_bypass(rng: random.Random) -> dict:
        """prepare(x..)->a ; work(a)->b ; [more chain] ; a gate (or an output-less node) consuming a chain value AND a raw input of `prepare`;
        entry point at `work`: the raw input stays required although its other consumer is upstream of the entry point."""
        n_chain = rng.randint(1, 3)
        nodes = [{"name": "prepare", "kind": "fn", "params": [["x", None]] + ([["x2", None]] if rng.random() < 0.4 else []), "dataOuts": ["a"], "body": {"b": "sum", "k": 1}}]
        prev = "a"
        for i in range(n_chain):
            nodes.append({"name": f"work{i}", "kind": "fn", "params": [[prev, None]], "dataOuts": [f"b{i}"], "body": {"b": "sum", "k": 1}})
            prev = f"b{i}"
        nodes.append({"name": "finish", "kind": "fn", "params": [[prev, None]], "dataOuts": ["c"], "body": {"b": "tag", "t": "finish"}})
        shared = rng.choice(["x", "x"] + (["x2"] if len(nodes[0]["params"]) > 1 else []))
        if rng.random() < 0.6:
            nodes.append({"name": "gate", "kind": "ifelse", "params": [[prev, None], [shared, None]], "targets": ["finish", "__END__"], "body": {"b": "lt", "k": 99},
                          "defaultOpen": rng.random() < 0.7})
        else:
            nodes.append({"name": "logit", "kind": "fn", "params": [[prev, None], [shared, None]], "dataOuts": [], "body": {"b": "tag", "t": "logit"}})
        if rng.random() < 0.5:
            rng.shuffle(nodes)
        g = {"name": "g0", "nodes": nodes, "bound": [], "entrypoints": ["work0"]}
        return {"program": [g], "values": [["x", 3], ["x2", 4], ["a", 5]], "fixed_ops": True}

    # ---------------------------------------------------------------- implementation side
    def _trials(self, spec: dict, known: dict, root: dict | None = None) -> list[dict]:
        base = {}
        for r in spec["required"]:
            base[r] = known.get(r, 1)
        ep = None
        if spec["entrypoints"]:
            ep = spec["entrypoints"][0][0]
            # one listed entry point PER CYCLE: entry points are grouped by the data cycle (strongly connected component of the
            # data edges) their node lies on; the first listed entry point of each group is supplied
            groups = _entry_groups(root, [e[0] for e in spec["entrypoints"]]) if root is not None else [[e[0] for e in spec["entrypoints"]]]
            firsts = {g[0] for g in groups}
            if len(groups) > 1:
                ep = None
            for name, params in spec["entrypoints"]:
                if name in firsts:
                    for p in params:
                        base[p] = known.get(p, 1)
        trials = [{"values": [[k, v] for k, v in base.items()], "entrypoint": ep, "omit": None}]
        for r in spec["required"]:
            vals = [[k, v] for k, v in base.items() if k != r]
            trials.append({"values": vals, "entrypoint": ep, "omit": r})
        return trials

    def impl(self, case: dict) -> Any:
        env = Env()
        try:
            graphs = build.build_program(case["program"], env, async_bodies=False)
        except Exception as e:
            return {"build_error": type(e).__name__, "detail": str(e)[:300]}
        g = graphs[-1]
        try:
            obs: dict[str, Any] = {"spec": spec_obs(g)}
        except Exception as e:  # noqa: BLE001 - a graph that was built has an input specification
            return {"build_error": "inputs:" + type(e).__name__, "detail": f"reading .inputs of the constructed graph raised {type(e).__name__}: {e}"[:300]}
        eff = g
        if case["rtselect"] is not None:
            try:
                eff = g.select(*case["rtselect"])
            except Exception as e:
                return {"build_error": "select:" + type(e).__name__}
        obs["effspec"] = spec_obs(eff)
        known = dict((k, v) for k, v in case["known"])
        # bind / unbind laws on the configured graph
        laws = []
        for k in obs["spec"]["required"][:3]:
            try:
                gb = g.bind(**{k: 0})
                gu = gb.unbind(k)
                laws.append([k, k not in gb.inputs.required, k in gb.inputs.optional, list(gu.inputs.required) == obs["spec"]["required"]])
            except Exception as e:
                laws.append([k, "exc:" + type(e).__name__])
        obs["laws"] = laws
        # history: SIBLINGS of the configured graph (other entry points derived from the same base object) are validated first,
        # with the same run-time select; what they computed must not leak into this graph
        base = env.bases.get(len(graphs) - 1)
        if base is not None:
            root_spec = case["program"][-1]
            for other in [n["name"] for n in reversed(root_spec["nodes"]) if n["kind"] not in ("route", "ifelse") and n["name"] not in root_spec["entrypoints"]][:2]:
                try:
                    sib = base.with_entrypoint(other)
                    self._outcome(sib, {k: py_val(v) for k, v in known.items()}, case)
                except Exception:  # noqa: BLE001 - the sibling's own fate is irrelevant
                    pass
        trials = []
        for t in self._trials(obs["effspec"], known, case["program"][-1]):
            rec = impl.Recorder()
            start = len(env.log)
            kwargs: dict[str, Any] = {"event_processors": [rec]}
            if case["rtselect"] is not None:
                kwargs["select"] = tuple(case["rtselect"]) if case.get("rtselectTuple") else case["rtselect"]
            if t["entrypoint"] is not None and obs["effspec"]["entrypoints"] and len(obs["effspec"]["entrypoints"]) > 1:
                kwargs["entrypoint"] = t["entrypoint"]
            vals = {k: py_val(v) for k, v in t["values"]}
            produced: list = []
            outcome: str
            with warnings.catch_warnings():
                warnings.simplefilter("ignore")
                try:
                    if case["runner"] == "sync":
                        r = SyncRunner().run(g, vals, error_handling="continue", max_iterations=60, **kwargs)
                    else:
                        r = asyncio.run(AsyncRunner().run(g, vals, error_handling="continue", max_iterations=60, **kwargs))
                    outcome = "ran"
                    produced = sorted(r.values.keys())
                    err = impl.canon_error(r.error, env) if r.error is not None else None
                    if err is not None and not str(err).startswith("user") and err != "InfiniteLoopError":
                        # accepted, but the run then died for want of a value (not a node's own error)
                        outcome = "ran:" + str(err)
                except Exception as e:
                    outcome = classify(e)
            calls, events, shutdowns = len(env.log) - start, len(rec.events), rec.shutdowns
            # the same call made through map(): one supplied input carries a 2-element list and is mapped over; in the omit trials the
            # mapped-over name is, every other time, the omitted input itself
            rec2 = impl.Recorder()
            start2 = len(env.log)
            kw2 = dict(kwargs, event_processors=[rec2])
            names = [k for k, _ in t["values"]]
            self._n_map = getattr(self, "_n_map", 0) + 1
            over = t["omit"] if (t["omit"] is not None and self._n_map % 2 == 0) else (names[self._n_map % len(names)] if names else None)
            map_outcome = None
            if over is not None:
                mvals = {k: ([v, v] if k == over else v) for k, v in vals.items()}
                mode = "continue" if self._n_map % 3 == 0 else "raise"
                with warnings.catch_warnings():
                    warnings.simplefilter("ignore")
                    try:
                        if case["runner"] == "sync":
                            rs = SyncRunner().map(g, mvals, map_over=over, error_handling=mode, **kw2)
                        else:
                            rs = asyncio.run(AsyncRunner().map(g, mvals, map_over=over, error_handling=mode, **kw2))
                        errs = [type(x.error).__name__ for x in rs if x.error is not None]
                        map_outcome = "MissingInputError" if rs and len(errs) == len(rs) and set(errs) == {"MissingInputError"} else "ran"
                    except Exception as e:
                        map_outcome = classify(e)
            trials.append({"omit": t["omit"], "values": t["values"], "entrypoint": kwargs.get("entrypoint"), "outcome": outcome, "produced": produced if outcome == "ran" else None,
                           "calls": calls, "events": events, "shutdowns": shutdowns,
                           "map": None if map_outcome is None else {"over": over, "outcome": map_outcome, "calls": len(env.log) - start2, "events": len(rec2.events), "shutdowns": rec2.shutdowns}})
        obs["trials"] = trials
        # history: derive graphs from the one that has just been run (same run-time select) and check their contract too
        derived = []
        eff_req = obs["effspec"]["required"]
        if eff_req:
            r0 = eff_req[0]
            try:
                g2 = g.bind(**{r0: py_val(known.get(r0, 1))})
                vals = {k: py_val(known.get(k, 1)) for k in eff_req if k != r0}
                if obs["effspec"]["entrypoints"]:
                    firsts = {grp[0] for grp in _entry_groups(case["program"][-1], [e[0] for e in obs["effspec"]["entrypoints"]])}
                    for ename, eparams in obs["effspec"]["entrypoints"]:
                        if ename in firsts:
                            for pnm in eparams:
                                vals.setdefault(pnm, py_val(known.get(pnm, 1)))
                derived.append(["bind-then-omit", r0, self._outcome(g2, vals, case)])
                g3 = g2.unbind(r0)
                derived.append(["unbind-then-omit", r0, self._outcome(g3, vals, case)])
            except Exception as e:  # noqa: BLE001
                derived.append(["derive-failed", r0, type(e).__name__])
        obs["derived"] = derived
        return obs

    @staticmethod
    def _outcome(g: Any, vals: dict, case: dict) -> str:
        kwargs: dict[str, Any] = {}
        if case["rtselect"] is not None:
            kwargs["select"] = tuple(case["rtselect"]) if case.get("rtselectTuple") else case["rtselect"]
        with warnings.catch_warnings():
            warnings.simplefilter("ignore")
            try:
                if case["runner"] == "sync":
                    SyncRunner().run(g, vals, error_handling="continue", max_iterations=60, **kwargs)
                else:
                    asyncio.run(AsyncRunner().run(g, vals, error_handling="continue", max_iterations=60, **kwargs))
                return "ran"
            except Exception as e:  # noqa: BLE001
                return classify(e)

    def oracle(self, case: dict, obs: Any) -> str | None:
        if "build_error" in obs:
            return None if obs["build_error"].startswith("select:") else f"valid configuration rejected at construction: {obs['build_error']} {obs.get('detail', '')}"
        for which in ("spec", "effspec"):
            s = obs[which]
            ep_params = {p for _, ps in s["entrypoints"] for p in ps}
            if set(s["required"]) & set(s["optional"]) or set(s["required"]) & ep_params or set(s["optional"]) & ep_params:
                return f"{which}: required / optional / entry-point parameters are not disjoint: {s}"
        for law in obs["laws"]:
            if law[1:] != [True, True, True]:
                return f"bind/unbind law fails for {law[0]!r}: (not required after bind, optional after bind, restored by unbind) = {law[1:]}"
        def bypass(omitted: str, supplied: set[str]) -> str | None:
            """The mechanism of C08-F1: EVERY consumer of the omitted input is a node one of whose outputs was supplied as a required
            name, so the validator treats all of them as by-passed and waives the input.  (Parameters of a listed cycle entry point are
            not by-passes: they boot-strap the cycle.  A consumer none of whose outputs is supplied — a gate, an output-less node, any
            other live node — still needs the input: that is not this mechanism.)"""
            supplied = supplied & set(obs["effspec"]["required"])
            consumers = []
            for n in case["program"][-1]["nodes"]:
                ren = dict(n.get("inRen", []))
                ins = {ren.get(q[0], q[0]) for q in n.get("params", [])}
                if omitted in ins:
                    consumers.append((n["name"], set(n.get("dataOuts", [])) & supplied))
            if consumers and all(hit for _, hit in consumers):
                name, hit = consumers[0]
                return f" — the supplied {sorted(hit)[0]!r} by-passes its producer {name!r}, whose input {omitted!r} is then not demanded (entry-point by-pass)"
            return None

        produced = {o for n in case["program"][-1]["nodes"] for o in n.get("dataOuts", [])}
        internal = sorted(k for k, _ in case["program"][-1].get("bound", []) if k in produced)
        inote = (f" (a name the graph itself produces is bound: {internal[0]!r} — the reported spec ignores that the binding injects the value and "
                 "by-passes / seeds its producer)") if internal else ""
        req_all = set(obs["effspec"]["required"])
        for kind, r0, outcome in obs.get("derived", []):
            if kind == "unbind-then-omit" and outcome != "MissingInputError" and case["program"][-1].get("entrypoints"):
                note = bypass(r0, req_all - {r0})
                if note:
                    return f"after bind({r0}=...).unbind({r0!r}) omitting the again-required {r0!r} was not rejected (outcome {outcome})" + note
            if kind == "bind-then-omit" and outcome == "MissingInputError":
                return f"after bind({r0}=...) the run with every other required input supplied was rejected with MissingInputError" + inote
            if kind == "unbind-then-omit" and outcome != "MissingInputError":
                return f"after bind({r0}=...).unbind({r0!r}) omitting the again-required {r0!r} was not rejected (outcome {outcome})" + inote
        # map() is judged only where the complete call is accepted through map() as well (map() refuses some graphs altogether)
        map_ok = any(t["omit"] is None and t["outcome"] == "ran" and (t.get("map") or {}).get("outcome") == "ran" for t in obs["trials"])
        for t in obs["trials"]:
            if t["omit"] is None:
                if t["outcome"] == "MissingInputError":
                    return f"all required inputs (and one listed entry point) supplied, yet rejected with MissingInputError; values={t['values']}"
                if t["outcome"] != "ran" and not t["outcome"].startswith("ran:"):
                    return f"all required inputs (and one listed entry point) supplied, yet the call was rejected with {t['outcome']}; values={t['values']}" + inote
                root_spec = case["program"][-1]
                plain = len(case["program"]) == 1 and not root_spec.get("entrypoints") and all(n["kind"] == "fn" and n["body"]["b"] not in ("fail", "failIf", "failGe")
                                                                                                 for n in root_spec["nodes"])
                want = case["rtselect"] if case["rtselect"] is not None else root_spec.get("selected")
                if plain and t["outcome"] == "ran" and want:
                    # a gate-free, failure-free, flat graph given everything its spec asks for produces what was selected
                    lost = [o for o in want if o not in (t.get("produced") or [])]
                    if lost:
                        return (f"all required inputs supplied and accepted, yet the selected output {lost[0]!r} was never produced: something outside the "
                                f"reported spec is needed; values={t['values']}")
                if t["outcome"].startswith("ran:"):
                    return f"all required inputs (and one listed entry point) supplied and accepted, yet the run then failed with {t['outcome'][4:]}: something else was needed; values={t['values']}"
            else:
                if t["outcome"] != "MissingInputError":
                    note = bypass(t["omit"], {k for k, _ in t["values"]}) if case["program"][-1].get("entrypoints") else None
                    return f"required input {t['omit']!r} omitted but the call was not rejected with MissingInputError (outcome {t['outcome']})" + (note or inote)
                if t["calls"] or t["events"] or t["shutdowns"]:
                    return f"rejected call invoked {t['calls']} node functions and delivered {t['events']} events / {t['shutdowns']} shutdowns"
                m = t.get("map")
                if m is not None and map_ok:
                    if m["outcome"] != "MissingInputError":
                        return (f"required input {t['omit']!r} omitted in a map() call (map_over={m['over']!r}) but the call was not rejected with "
                                f"MissingInputError (outcome {m['outcome']})")
                    if m["calls"] or m["events"] or m["shutdowns"]:
                        return (f"map() call rejected for the omitted {t['omit']!r} (map_over={m['over']!r}) invoked {m['calls']} node functions and delivered "
                                f"{m['events']} events / {m['shutdowns']} shutdowns before rejecting")
        return None

    # ---------------------------------------------------------------- model side
    def model(self, case: dict, driver: Any) -> Any:
        specs = driver.ask({"op": "spec", "program": case["program"]})
        s = specs[-1]["spec"]
        out = {"spec": {"required": s["required"], "optional": s["optional"], "entrypoints": sorted(s["entrypoints"]), "bound": sorted(k for k, _ in s["bound"])}}
        if case["rtselect"] is not None:
            e = driver.ask({"op": "specsel", "program": case["program"], "select": case["rtselect"]})
            if "rejected" in e:
                return {"rejected": e["rejected"]}
            out["effspec"] = {"required": e["required"], "optional": e["optional"], "entrypoints": sorted(e["entrypoints"]), "bound": sorted(k for k, _ in e["bound"])}
        else:
            out["effspec"] = out["spec"]
        known = dict((k, v) for k, v in case["known"])
        trials = []
        for t in self._trials(out["effspec"], known, case["program"][-1]):
            req = {"op": "runc", "program": case["program"], "values": t["values"], "runner": "sync",
                   "cfg": {"errMode": "continue", "maxIter": 60, **({"select": case["rtselect"]} if case["rtselect"] is not None else {})}}
            if t["entrypoint"] is not None and len(out["effspec"]["entrypoints"]) > 1:
                req["entrypoint"] = t["entrypoint"]
            r = driver.ask(req)
            trials.append({"omit": t["omit"], "outcome": r["rejected"] if "rejected" in r else "ran"})
        out["trials"] = trials
        return out

    def compare(self, case: dict, i: Any, m: Any) -> str | None:
        if "build_error" in i:
            if i["build_error"].startswith("select:") and m.get("rejected"):
                return None
            return f"impl build error {i['build_error']} vs model {str(m)[:200]}"
        if "rejected" in m:
            return f"model rejects the run-time select, impl accepted it"
        for which in ("spec", "effspec"):
            if i[which] != m[which]:
                return f"{which}: impl={i[which]} model={m[which]}"
        it = [(t["omit"], t["outcome"]) for t in i["trials"]]
        mt = [(t["omit"], t["outcome"]) for t in m["trials"]]
        if it != mt:
            return f"accept/reject per trial: impl={it} model={mt}"
        return None

    def signature(self, case: dict, obs: Any, why: str) -> str:
        if "(a name the graph itself produces is bound" in why:
            return "site:compute_input_spec/bound-internal-name"      # one mechanism (known finding C08-F2)
        if "(entry-point by-pass)" in why:
            return "site:validate_inputs/entry-point-by-pass"      # one mechanism (known finding C08-F1), whatever the program
        return "case:" + canonical_hash(case)

    def nontrivial(self, case: dict, obs: Any) -> bool:
        return "spec" in obs and bool(obs["effspec"]["required"]) and bool(case["ops"])

    def features(self, case: dict, obs: Any) -> dict:
        if "spec" not in obs:
            return {"build_error": obs.get("build_error")}
        return {"ops": "+".join(sorted(case["ops"])) or "none", "required": len(obs["effspec"]["required"]),
                "entrypoints": len(obs["effspec"]["entrypoints"]), "runner": case["runner"],
                "outcomes": "/".join(sorted({t["outcome"] for t in obs["trials"]}))}

    def sample(self, case: dict, obs: Any) -> Any:
        return {"program": case["program"], "ops": case["ops"], "rtselect": case["rtselect"]}

    def neighbours(self, case: dict, rng: random.Random) -> Iterable[dict]:
        yield from self.cases(rng, "quick")


PROP = C08()
