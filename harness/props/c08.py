"""C08 — input contract: the reported input spec is exact; violations fail before execution."""
from __future__ import annotations

import asyncio
import copy
import random
import warnings
from typing import Any, Iterable

from .. import build, common, gen, impl
from ..build import Env, enc_val, py_val
from ..engine import Prop

common.use_repo()
from hypergraph import AsyncRunner, SyncRunner  # noqa: E402
from hypergraph.exceptions import MissingInputError  # noqa: E402


def spec_obs(g: Any) -> dict:
    s = g.inputs
    return {
        "required": list(s.required),
        "optional": list(s.optional),
        "entrypoints": sorted([k, list(v)] for k, v in s.entrypoints.items()),
        "bound": sorted(s.bound.keys()),
    }


def classify(e: BaseException) -> str:
    if isinstance(e, MissingInputError):
        return "MissingInputError"
    from hypergraph.graph.validation import GraphConfigError

    if isinstance(e, GraphConfigError):
        return "GraphConfigError"
    if type(e) is ValueError:
        return "ValueError"
    return "other:" + type(e).__name__


class C08(Prop):
    id = "C08"
    level = "proof"
    nontrivial_rule = (
        "generated graphs (DAG with nesting, gated, cyclic loop families) x random bind / graph-level select / with_entrypoint / "
        "run-time select; trials: all required inputs (+ one listed entry point) supplied, then each single required input omitted; "
        "non-trivial = at least one required input and at least one configuration operation; distinct by canonical hash"
    )
    budgets = {"quick": 250, "thorough": 4000}

    def cases(self, rng: random.Random, tier: str) -> Iterable[dict]:
        while True:
            r = rng.random()
            if r < 0.45:
                c = gen.gen_dag_program(rng, max_nodes=7, depth=rng.choice([0, 0, 1]), allow_fed_default=rng.random() < 0.3)
            elif r < 0.75:
                c = gen.gen_gated_dag(rng)
            else:
                c = gen.gen_loop(rng)
            program = copy.deepcopy(c["program"])
            root = program[-1]
            known = dict((k, v) for k, v in c["values"])
            outs = list(dict.fromkeys(o for n in root["nodes"] for o in n.get("dataOuts", [])))
            ops: dict[str, Any] = {}
            if rng.random() < 0.35:
                # bind some external inputs
                ext = [k for k in known if rng.random() < 0.4]
                extra = dict(root.get("bound", []))
                for k in ext:
                    extra[k] = known[k]
                root["bound"] = [[k, v] for k, v in extra.items()]
                ops["bind"] = ext
            if outs and rng.random() < 0.3:
                root["selected"] = rng.sample(outs, rng.randint(1, min(2, len(outs))))
                ops["select"] = root["selected"]
            non_gates = [n["name"] for n in root["nodes"] if n["kind"] not in ("route", "ifelse")]
            if non_gates and rng.random() < 0.3:
                root["entrypoints"] = rng.sample(non_gates, rng.randint(1, min(2, len(non_gates))))
                ops["entrypoints"] = root["entrypoints"]
            rtsel = None
            if outs and rng.random() < 0.3:
                rtsel = rng.sample(outs, rng.randint(1, min(2, len(outs))))
                ops["rtselect"] = rtsel
            yield {"program": program, "known": [[k, v] for k, v in known.items()], "rtselect": rtsel, "ops": ops,
                   "runner": rng.choice(["sync", "async"])}

    # ---------------------------------------------------------------- implementation side
    def _trials(self, spec: dict, known: dict) -> list[dict]:
        base = {}
        for r in spec["required"]:
            base[r] = known.get(r, 1)
        ep = None
        if spec["entrypoints"]:
            ep = spec["entrypoints"][0][0]
            for p in spec["entrypoints"][0][1]:
                base[p] = known.get(p, 1)
        trials = [{"values": [[k, v] for k, v in base.items()], "entrypoint": ep, "omit": None}]
        for r in spec["required"]:
            vals = [[k, v] for k, v in base.items() if k != r]
            trials.append({"values": vals, "entrypoint": ep, "omit": r})
        return trials

    def impl(self, case: dict) -> Any:
        env = Env()
        try:
            graphs = build.build_program(case["program"], env, async_bodies=False)
        except Exception as e:
            return {"build_error": type(e).__name__, "detail": str(e)[:300]}
        g = graphs[-1]
        obs: dict[str, Any] = {"spec": spec_obs(g)}
        eff = g
        if case["rtselect"] is not None:
            try:
                eff = g.select(*case["rtselect"])
            except Exception as e:
                return {"build_error": "select:" + type(e).__name__}
        obs["effspec"] = spec_obs(eff)
        known = dict((k, v) for k, v in case["known"])
        # bind / unbind laws on the configured graph
        laws = []
        for k in obs["spec"]["required"][:3]:
            try:
                gb = g.bind(**{k: 0})
                gu = gb.unbind(k)
                laws.append([k, k not in gb.inputs.required, k in gb.inputs.optional, list(gu.inputs.required) == obs["spec"]["required"]])
            except Exception as e:
                laws.append([k, "exc:" + type(e).__name__])
        obs["laws"] = laws
        trials = []
        for t in self._trials(obs["effspec"], known):
            rec = impl.Recorder()
            start = len(env.log)
            kwargs: dict[str, Any] = {"event_processors": [rec]}
            if case["rtselect"] is not None:
                kwargs["select"] = case["rtselect"]
            if t["entrypoint"] is not None and obs["effspec"]["entrypoints"] and len(obs["effspec"]["entrypoints"]) > 1:
                kwargs["entrypoint"] = t["entrypoint"]
            vals = {k: py_val(v) for k, v in t["values"]}
            outcome: str
            with warnings.catch_warnings():
                warnings.simplefilter("ignore")
                try:
                    if case["runner"] == "sync":
                        r = SyncRunner().run(g, vals, error_handling="continue", max_iterations=60, **kwargs)
                    else:
                        r = asyncio.run(AsyncRunner().run(g, vals, error_handling="continue", max_iterations=60, **kwargs))
                    outcome = "ran"
                except Exception as e:
                    outcome = classify(e)
            trials.append({"omit": t["omit"], "values": t["values"], "entrypoint": kwargs.get("entrypoint"), "outcome": outcome,
                           "calls": len(env.log) - start, "events": len(rec.events), "shutdowns": rec.shutdowns})
        obs["trials"] = trials
        return obs

    def oracle(self, case: dict, obs: Any) -> str | None:
        if "build_error" in obs:
            return None if obs["build_error"].startswith("select:") else f"valid configuration rejected at construction: {obs['build_error']} {obs.get('detail', '')}"
        for which in ("spec", "effspec"):
            s = obs[which]
            ep_params = {p for _, ps in s["entrypoints"] for p in ps}
            if set(s["required"]) & set(s["optional"]) or set(s["required"]) & ep_params or set(s["optional"]) & ep_params:
                return f"{which}: required / optional / entry-point parameters are not disjoint: {s}"
        for law in obs["laws"]:
            if law[1:] != [True, True, True]:
                return f"bind/unbind law fails for {law[0]!r}: (not required after bind, optional after bind, restored by unbind) = {law[1:]}"
        for t in obs["trials"]:
            if t["omit"] is None:
                if t["outcome"] == "MissingInputError":
                    return f"all required inputs (and one listed entry point) supplied, yet rejected with MissingInputError; values={t['values']}"
            else:
                if t["outcome"] != "MissingInputError":
                    return f"required input {t['omit']!r} omitted but the call was not rejected with MissingInputError (outcome {t['outcome']})"
                if t["calls"] or t["events"] or t["shutdowns"]:
                    return f"rejected call invoked {t['calls']} node functions and delivered {t['events']} events / {t['shutdowns']} shutdowns"
        return None

    # ---------------------------------------------------------------- model side
    def model(self, case: dict, driver: Any) -> Any:
        specs = driver.ask({"op": "spec", "program": case["program"]})
        s = specs[-1]["spec"]
        out = {"spec": {"required": s["required"], "optional": s["optional"], "entrypoints": sorted(s["entrypoints"]), "bound": sorted(k for k, _ in s["bound"])}}
        if case["rtselect"] is not None:
            e = driver.ask({"op": "specsel", "program": case["program"], "select": case["rtselect"]})
            if "rejected" in e:
                return {"rejected": e["rejected"]}
            out["effspec"] = {"required": e["required"], "optional": e["optional"], "entrypoints": sorted(e["entrypoints"]), "bound": sorted(k for k, _ in e["bound"])}
        else:
            out["effspec"] = out["spec"]
        known = dict((k, v) for k, v in case["known"])
        trials = []
        for t in self._trials(out["effspec"], known):
            req = {"op": "runc", "program": case["program"], "values": t["values"], "runner": "sync",
                   "cfg": {"errMode": "continue", "maxIter": 60, **({"select": case["rtselect"]} if case["rtselect"] is not None else {})}}
            if t["entrypoint"] is not None and len(out["effspec"]["entrypoints"]) > 1:
                req["entrypoint"] = t["entrypoint"]
            r = driver.ask(req)
            trials.append({"omit": t["omit"], "outcome": r["rejected"] if "rejected" in r else "ran"})
        out["trials"] = trials
        return out

    def compare(self, case: dict, i: Any, m: Any) -> str | None:
        if "build_error" in i:
            if i["build_error"].startswith("select:") and m.get("rejected"):
                return None
            return f"impl build error {i['build_error']} vs model {str(m)[:200]}"
        if "rejected" in m:
            return f"model rejects the run-time select, impl accepted it"
        for which in ("spec", "effspec"):
            if i[which] != m[which]:
                return f"{which}: impl={i[which]} model={m[which]}"
        it = [(t["omit"], t["outcome"]) for t in i["trials"]]
        mt = [(t["omit"], t["outcome"]) for t in m["trials"]]
        if it != mt:
            return f"accept/reject per trial: impl={it} model={mt}"
        return None

    def nontrivial(self, case: dict, obs: Any) -> bool:
        return "spec" in obs and bool(obs["effspec"]["required"]) and bool(case["ops"])

    def features(self, case: dict, obs: Any) -> dict:
        if "spec" not in obs:
            return {"build_error": obs.get("build_error")}
        return {"ops": "+".join(sorted(case["ops"])) or "none", "required": len(obs["effspec"]["required"]),
                "entrypoints": len(obs["effspec"]["entrypoints"]), "runner": case["runner"],
                "outcomes": "/".join(sorted({t["outcome"] for t in obs["trials"]}))}

    def sample(self, case: dict, obs: Any) -> Any:
        return {"program": case["program"], "ops": case["ops"], "rtselect": case["rtselect"]}

    def neighbours(self, case: dict, rng: random.Random) -> Iterable[dict]:
        yield from self.cases(rng, "quick")


PROP = C08()
