"""C18 — run isolation: no state leaks between runs; caller-owned objects untouched."""
from __future__ import annotations

import asyncio
import contextvars
import copy
import json
import linecache
import random
import warnings
from typing import Any, Iterable

from .. import common, sched
from ..engine import Prop, canonical_hash

common.use_repo()
from hypergraph import AsyncRunner, Graph, SyncRunner  # noqa: E402
from hypergraph.nodes.function import FunctionNode  # noqa: E402

CUR_RUN: contextvars.ContextVar[int] = contextvars.ContextVar("verif_c18_run", default=-1)


class World:
    """Real Python objects behind the case description: list cells, caller dicts, graphs, the call log."""

    _n = 0

    def __init__(self, case: dict, is_async: bool, park: Any = None) -> None:
        self.case = case
        self.cells: list[list] = [list(c) for c in case["cells"]]
        self.initial = [list(c) for c in case["cells"]]
        self.dicts: list[dict] = [{k: self.cells[r] for k, r in d} for d in case["dicts"]]
        self.log: list[dict] = []
        self.is_async = is_async
        self.park = park
        self.graphs: dict[str, Any] = {}
        self.funcs: dict[str, list] = {}
        self.none_defaults: list[tuple[Any, str]] = []

    # ------------------------------------------------------------ node functions
    def make_fn(self, gkey: str, sid: int, nd: dict) -> tuple[Any, dict]:
        params, defaults, bound = [], {}, {}
        for j, s in enumerate(nd["srcs"]):
            if "default" in s:
                p = f"d{sid}_{j}"
                defaults[p] = tuple(self.cells[s["default"]]) if s.get("frozen") else ((self.cells[s["default"]],) if s.get("wrapped") else self.cells[s["default"]])
            elif "bound" in s:
                p = f"b{sid}_{j}"
                bound[p] = self.cells[s["bound"]]
            else:
                p = s["provided"]
            params.append(p)
        extra = ""
        if nd.get("noneDefault"):
            extra = ", seen=_DEF['seen']"       # an immutable default next to the mutable ones (never an argument of the model)
            defaults["seen"] = None
        sig = ", ".join(p if p not in defaults else f"{p}=_DEF[{p!r}]" for p in params)
        # required parameters first (Python syntax): reorder the signature, keep the argument ORDER of the model in the body
        req = [p for p in params if p not in defaults]
        opt = [p for p in params if p in defaults]
        sig = ", ".join(req + [f"{p}=_DEF[{p!r}]" for p in opt]) + extra
        eff = nd.get("eff")
        # a default may be an immutable container HOLDING the mutable object (a 1-tuple around the list): the function works on the inner list
        body = [f"_args = [(_p[0] if isinstance(_p, tuple) and len(_p) == 1 and isinstance(_p[0], list) else _p) for _p in [{', '.join(params)}]]",
                "_before = [list(a) for a in _args]"]
        if eff:
            body.append(f"if isinstance(_args[{eff[0]}], list): _args[{eff[0]}].append({eff[1]})")
            body.append(f"_after = list(_args[{eff[0]}])")
        else:
            body.append("_after = []")
        body.append(f"_W.log.append({{'rid': _CUR.get(), 'sid': {sid}, 'g': _GK, 'before': _before, 'after': list(_after), 'ids': [id(a) for a in _args]}})")
        body.append("return _after")
        if self.is_async:
            lines = [f"async def _node_fn({sig}):", f"    if _W.park is not None: await _W.park(_GK + ':{sid}')"]
        else:
            lines = [f"def _node_fn({sig}):"]
        lines += ["    " + b for b in body]
        glob = {"_W": self, "_DEF": defaults, "_CUR": CUR_RUN, "_GK": gkey, "__name__": "verif_c18_generated"}
        src = "\n".join(lines) + "\n"
        # give the function retrievable source text, as a function defined in a file has (identical text for factory-made twins)
        World._n += 1
        fname = f"/verif-generated/c18_{World._n}.py"
        linecache.cache[fname] = (len(src), None, src.splitlines(True), fname)
        exec(compile(src, fname, "exec"), glob)  # noqa: S102 - generated from a closed description
        fn = glob["_node_fn"]
        fn.__name__ = fn.__qualname__ = f"n{sid}"
        self.funcs.setdefault(gkey, []).append((fn, defaults))
        return fn, bound

    def graph_for(self, spec: dict) -> Any:
        gkey = canonical_hash({"nodes": spec["nodes"], "wrap": spec.get("wrap")})
        if gkey in self.graphs:
            return self.graphs[gkey]
        nodes, bound = [], {}
        for sid, nd in enumerate(spec["nodes"]):
            fn, b = self.make_fn(gkey, sid, nd)
            bound.update(b)
            nodes.append(FunctionNode(fn, name=f"n{sid}", output_name=nd["out"]))
        g = Graph(nodes, name="g")
        if bound:
            g = g.bind(**bound)
        wrap = spec.get("wrap")
        if wrap:
            gn = g.as_node(name="sub")
            if wrap.get("mapOver"):
                kw: dict[str, Any] = {}
                if "clone" in wrap:
                    kw["clone"] = wrap["clone"]
                gn = gn.map_over(*wrap["mapOver"], **kw)
            g = Graph([gn], name="outer")
            for j in range(wrap.get("plain", 0)):
                g = Graph([g.as_node(name=f"lvl{j}")], name=f"outer{j}")
            if wrap.get("rebind"):
                # the outer graph as user code often obtains it: DERIVED through bind()/unbind() of one of its own inputs (a net no-op) —
                # what the nested graph binds inside stays the nested graph's business
                free = [k for k in g.inputs.required] or [k for k in g.inputs.optional]
                if free:
                    g = g.bind(**{free[0]: 0}).unbind(free[0])
        self.graphs[gkey] = g
        return g

    # ------------------------------------------------------------ runs
    def inputs_for(self, spec: dict) -> tuple[Any, dict]:
        values = self.dicts[spec["values"]] if spec.get("values") is not None else None
        kwargs = {k: self.cells[r] for k, r in spec.get("kwargs", [])}
        return values, kwargs


def sp_inputs(case: dict, sp: dict) -> set:
    return {k for k, _ in case["dicts"][sp["values"]] + sp["kwargs"]}


def _status(r: Any) -> str:
    return str(getattr(r.status, "value", r.status)).lower()


class C18(Prop):
    id = "C18"
    level = "proof"
    nontrivial_rule = (
        "histories of 2-6 runs over 1-2 generated graphs (chains of 1-3 nodes; every parameter a mutable signature default, a bound object, "
        "or a caller-provided / upstream value; functions append to one argument), flat, nested, and nested+mapped (clone False/True/list); "
        "same or fresh runner instances, sync sequential, async sequential, async concurrent under random interleavings on the controllable "
        "loop; caller dicts shared between runs or fresh; the REAL call schedule is replayed through the Lean memory model and every call's "
        "argument contents compared; non-trivial = some default-valued argument is mutated and its graph runs at least twice; distinct by hash"
    )
    budgets = {"quick": 200, "thorough": 4000}

    # ------------------------------------------------------------ generation
    @staticmethod
    def _single_cloned_mutated(case: dict) -> bool:
        """A map over exactly ONE item whose cloned broadcast value is mutated by a node."""
        for sp in case["specs"]:
            w = sp.get("wrap", {})
            if not (w.get("mapOver") and w.get("single") and w.get("clone")):
                continue
            for nd in sp["nodes"]:
                if nd["eff"]:
                    s_ = nd["srcs"][nd["eff"][0]]
                    k = s_.get("provided")
                    if k in sp_inputs(case, sp) and k not in w["mapOver"] and (w["clone"] is True or k in w["clone"]):
                        return True
        return False

    @staticmethod
    def _rebound_mapped_bound(case: dict) -> bool:
        """A cloning map whose inner graph BINDS an object, run through an outer graph derived by bind()/unbind()."""
        for sp in case["specs"]:
            w = sp.get("wrap", {})
            if w.get("mapOver") and w.get("clone") is True and w.get("rebind") and any("bound" in s_ for nd in sp["nodes"] for s_ in nd["srcs"]):
                return True
        return False

    def cases(self, rng: random.Random, tier: str) -> Iterable[dict]:
        # whatever the seed: maps over exactly one item with a cloned broadcast value that a node mutates; cloning maps over an inner
        # binding behind an outer graph that was derived through bind()/unbind()
        want = [self._single_cloned_mutated] * 3 + [self._rebound_mapped_bound] * 3
        for c in self._cases(rng, tier):
            if want:
                if not want[0](c):
                    continue
                want.pop(0)
            yield c

    def _cases(self, rng: random.Random, tier: str) -> Iterable[dict]:
        while True:
            cells: list[list[int]] = []
            dicts: list[list] = []

            def cell(content: list[int]) -> int:
                cells.append(list(content))
                return len(cells) - 1

            shapes = []
            wrap_kind = rng.choice([None, None, "nested", "mapped"])
            for _g in range(rng.randint(1, 2)):
                nodes = []
                avail = ["x"] + (["y"] if rng.random() < 0.4 else [])
                inputs = list(avail)
                for sid in range(rng.randint(1, 3)):
                    srcs: list[dict] = []
                    used: set[str] = set()
                    for _ in range(rng.randint(1, 3)):
                        r = rng.random()
                        if r < 0.45:
                            srcs.append({"default": cell(rng.choice([[], [], [7], [1, 2]]))})
                            if rng.random() < 0.25:
                                srcs[-1]["wrapped"] = True
                        elif r < 0.6:
                            srcs.append({"bound": cell(rng.choice([[], [5]]))})
                        else:
                            k = rng.choice(avail)
                            if k not in used:
                                used.add(k)
                                srcs.append({"provided": k})
                    if not srcs:
                        srcs.append({"default": cell([])})
                    # effects: prefer mutating a default-valued argument
                    d_idx = [j for j, s in enumerate(srcs) if "default" in s]
                    if d_idx and rng.random() < 0.75:
                        eff = [rng.choice(d_idx), rng.randint(1, 9)]
                    elif rng.random() < 0.7:
                        eff = [rng.randrange(len(srcs)), rng.randint(1, 9)]
                    else:
                        eff = None
                    nd = {"srcs": srcs, "eff": eff, "out": f"o{sid}"}
                    if rng.random() < 0.2:
                        nd["noneDefault"] = True
                    nodes.append(nd)
                    avail.append(f"o{sid}")
                used_inputs = sorted({s["provided"] for nd in nodes for s in nd["srcs"] if "provided" in s and s["provided"] in inputs})
                shape = {"nodes": nodes, "inputs": used_inputs}
                if wrap_kind == "nested":
                    shape["wrap"] = {}
                elif wrap_kind == "mapped" and used_inputs:
                    mo = [used_inputs[0]]
                    others = [k for k in used_inputs if k not in mo]
                    clone = rng.choice([None, False, True, others or False, []])
                    shape["wrap"] = {"mapOver": mo}
                    if clone is not None:
                        shape["wrap"]["clone"] = clone
                    if rng.random() < 0.35:
                        shape["wrap"]["single"] = True      # a map over exactly one item: cloning is about the CALLER's object, not about siblings
                elif wrap_kind == "mapped":
                    shape["wrap"] = {}
                if "wrap" in shape and rng.random() < 0.35:
                    shape["wrap"]["rebind"] = True
                if "wrap" in shape and rng.random() < 0.4:
                    # further PLAIN nesting levels around the (mapped) wrapper: transparent, every level leaves the inner graph's own
                    # defaults and bindings to the inner run
                    shape["wrap"]["plain"] = rng.choice([1, 1, 2])
                shapes.append(shape)
            # an identical-source twin whose default is immutable / mutable (definition hashes coincide)
            if rng.random() < 0.25 and not wrap_kind:
                tw = copy.deepcopy(shapes[0])
                for nd in tw["nodes"]:
                    for s in nd["srcs"]:
                        if "default" in s:
                            s["default"] = cell(cells[s["default"]])
                            s["frozen"] = True       # same source text, an immutable default object of equal content
                if rng.random() < 0.5:
                    shapes.append(tw)
                else:
                    shapes.insert(0, tw)
            specs = []
            shared_dict: dict[int, tuple] = {}
            for _r in range(rng.randint(2, 6)):
                gi = rng.randrange(len(shapes))
                sh = shapes[gi]
                mapped = bool(sh.get("wrap", {}).get("mapOver"))
                share = rng.random() < 0.3
                if share and gi in shared_dict:
                    dref, kwargs = shared_dict[gi]
                else:
                    entries = []
                    kwargs: list = []
                    for k in sh["inputs"]:
                        c = cell(rng.choice([[], [0], [4, 4]]))
                        if rng.random() < 0.2 and not mapped:
                            kwargs.append([k, c])
                        else:
                            entries.append([k, c])
                        if mapped and k in sh["wrap"]["mapOver"]:
                            cell(cells[c])      # the second item: a distinct object of equal content, always the cell right after the first
                    dicts.append(entries)
                    dref = len(dicts) - 1
                    if share:
                        shared_dict[gi] = (dref, kwargs)
                specs.append({"nodes": sh["nodes"], "values": dref, "kwargs": kwargs, "shape": gi, **({"wrap": sh["wrap"]} if "wrap" in sh else {})})
            mode = rng.choice(["sync-seq", "sync-seq", "async-seq", "async-conc", "async-conc"])
            yield {"cells": cells, "dicts": dicts, "specs": specs, "mode": mode, "same_runner": rng.random() < 0.5, "seed": rng.randint(0, 10**6)}

    # ------------------------------------------------------------ implementation
    def impl(self, case: dict) -> Any:
        is_async = case["mode"] != "sync-seq"
        ctl = sched.Controller("random", case["seed"]) if case["mode"] == "async-conc" else None
        w = World(case, is_async, ctl.park if ctl else None)
        try:
            graphs = [w.graph_for(s) for s in case["specs"]]
        except Exception as e:  # noqa: BLE001
            return {"error": f"build: {type(e).__name__}: {e}"[:300]}
        before_dicts = [[(k, id(v)) for k, v in d.items()] for d in w.dicts]
        results: list[Any] = [None] * len(case["specs"])
        shared = (AsyncRunner() if is_async else SyncRunner()) if case["same_runner"] else None

        def mapped_inputs(spec: dict, values: dict) -> dict:
            mo = spec.get("wrap", {}).get("mapOver")
            # two items: the caller's object and a second tracked object of equal content (distinct objects, so items do not alias)
            if not mo:
                return values
            ref_of = {id(c): i for i, c in enumerate(w.cells)}
            if spec["wrap"].get("single"):
                return {k: ([v] if k in mo else v) for k, v in values.items()}
            return {k: ([v, w.cells[ref_of[id(v)] + 1]] if k in mo else v) for k, v in values.items()}

        def outcome(rid: int, fn: Any) -> Any:
            try:
                r = fn()
                return [_status(r), sorted((k, json.dumps(v, default=str)) for k, v in r.values.items())]
            except Exception as e:  # noqa: BLE001
                return ["raised", type(e).__name__ + ": " + str(e)[:120]]

        with warnings.catch_warnings():
            warnings.simplefilter("ignore")
            if not is_async:
                for rid, spec in enumerate(case["specs"]):
                    values, kwargs = w.inputs_for(spec)
                    runner = shared or SyncRunner()
                    CUR_RUN.set(rid)
                    snapshot = dict(values) if values is not None else None
                    sent = mapped_inputs(spec, values) if spec.get("wrap", {}).get("mapOver") else values
                    results[rid] = outcome(rid, lambda: runner.run(graphs[rid], sent, **kwargs))
                    if values is not None and dict(values) != snapshot:
                        results[rid].append("caller dict changed")
            else:
                async def one(rid: int) -> Any:
                    spec = case["specs"][rid]
                    values, kwargs = w.inputs_for(spec)
                    runner = shared or AsyncRunner()
                    CUR_RUN.set(rid)
                    sent = mapped_inputs(spec, values) if spec.get("wrap", {}).get("mapOver") else values
                    try:
                        r = await runner.run(graphs[rid], sent, **kwargs)
                        return [_status(r), sorted((k, json.dumps(v, default=str)) for k, v in r.values.items())]
                    except Exception as e:  # noqa: BLE001
                        return ["raised", type(e).__name__ + ": " + str(e)[:120]]

                async def all_runs() -> list:
                    if case["mode"] == "async-seq":
                        return [await asyncio.create_task(one(r)) for r in range(len(case["specs"]))]
                    return list(await asyncio.gather(*(asyncio.create_task(one(r)) for r in range(len(case["specs"])))))

                try:
                    if ctl is not None:
                        results = sched.run_controlled(all_runs, ctl)
                    else:
                        results = asyncio.run(all_runs())
                except sched.Deadlock:
                    return {"error": "deadlock"}
        # ---- canonical observation
        ref_of = {id(c): i for i, c in enumerate(w.cells)}
        calls = []
        for c in w.log:
            calls.append({"rid": c["rid"], "sid": c["sid"], "before": c["before"], "after": c["after"], "refs": [ref_of.get(i) for i in c["ids"]]})
        defaults_now = {gk: [[(p, list(v) if isinstance(v, list) else v) for p, v in d.items()] for _, d in fl] for gk, fl in w.funcs.items()}
        return {
            "calls": calls,
            "results": results,
            "cells": [list(c) for c in w.cells],
            "dict_same": [[(k, id(v)) for k, v in d.items()] == b for d, b in zip(w.dicts, before_dicts)],
            "dicts": [[[k, ref_of.get(id(v))] for k, v in d.items()] for d in w.dicts],
            "defaults_now": defaults_now,
        }

    # ------------------------------------------------------------ the property on the implementation alone
    def oracle(self, case: dict, obs: Any) -> str | None:
        if "error" in obs:
            return f"isolation history could not run: {obs['error']}"
        for rid, r in enumerate(obs["results"]):
            if r is None or r[0] != "completed":
                return f"run {rid} did not complete: {r}"
            if len(r) > 2:
                return f"run {rid}: the caller's input mapping was modified by the run"
        # the caller's input mappings are untouched (same keys, same objects)
        if not all(obs["dict_same"]):
            return "a caller's input mapping was modified"
        specs = case["specs"]
        for c in obs["calls"]:
            nd = specs[c["rid"]]["nodes"][c["sid"]]
            for j, s in enumerate(nd["srcs"]):
                if "default" in s:
                    # signature defaults: never the default object itself, always its pristine content
                    if c["refs"][j] == s["default"] and not s.get("frozen"):
                        return f"run {c['rid']} node n{c['sid']}: received the signature default OBJECT itself (argument {j})"
                    if c["before"][j] != case["cells"][s["default"]]:
                        return (f"run {c['rid']} node n{c['sid']}: default-valued argument {j} arrived as {c['before'][j]}, "
                                f"the signature default is {case['cells'][s['default']]} — state leaked from an earlier call")
                elif "provided" in s and specs[c["rid"]].get("wrap", {}).get("mapOver"):
                    # a broadcast value of a cloning map: every item works on its own copy, never on the caller's object — with one item too
                    wr = specs[c["rid"]]["wrap"]
                    k = s["provided"]
                    mine = dict((kk, rr) for kk, rr in case["dicts"][specs[c["rid"]]["values"]] + specs[c["rid"]]["kwargs"])
                    if k in mine and k not in wr["mapOver"] and (wr.get("clone") is True or (isinstance(wr.get("clone"), list) and k in wr["clone"])):
                        if c["refs"][j] == mine[k]:
                            return (f"run {c['rid']} node n{c['sid']}: the broadcast value {k!r} of a map with clone={wr.get('clone')!r} arrived as the caller's own object "
                                    f"({len(wr['mapOver'])} mapped name(s), {'one item' if wr.get('single') else 'two items'})")
                elif "bound" in s:
                    if c["refs"][j] != s["bound"]:
                        return f"run {c['rid']} node n{c['sid']}: bound argument {j} is not the very object that was bound (a copy or another object)"
        for cidx, content in enumerate(obs["cells"]):
            is_default = any("default" in s and s["default"] == cidx for sp in specs for nd in sp["nodes"] for s in nd["srcs"])
            if is_default and content != case["cells"][cidx]:
                return f"a function's signature default object changed from {case['cells'][cidx]} to {content}"
        # equal graph + equal, unshared inputs and only default / fresh sources => equal results
        groups: dict[str, list] = {}
        for rid, sp in enumerate(specs):
            if any("bound" in s for nd in sp["nodes"] for s in nd["srcs"]):
                continue
            if any(nd["eff"] and "default" not in nd["srcs"][nd["eff"][0]] for nd in sp["nodes"]):
                continue        # mutating a provided / upstream object shared by two nodes of one step is the caller's own race
            drefs = [sp["values"]]
            if sum(1 for o in specs if o["values"] == sp["values"]) > 1:
                continue        # the same caller objects are deliberately shared with another run
            content = sorted((k, case["cells"][r]) for k, r in case["dicts"][sp["values"]] + sp["kwargs"])
            key = canonical_hash({"shape": sp["shape"], "in": content})
            groups.setdefault(key, []).append(obs["results"][rid])
            _ = drefs
        for key, rs in groups.items():
            if any(r != rs[0] for r in rs):
                return f"equal graph and equal inputs gave different results across runs: {rs[0]} vs {[r for r in rs if r != rs[0]][0]}"
        return None

    # ------------------------------------------------------------ model: the real schedule replayed through the Lean memory model
    def model(self, case: dict, driver: Any) -> Any:
        return driver

    def compare(self, case: dict, i: Any, driver: Any) -> str | None:
        if any(s.get("frozen") for sp in case["specs"] for nd in sp["nodes"] for s in nd["srcs"]):
            return None     # immutable twins of a default are not objects of the memory model; judged by the oracle alone
        if "error" in i:
            return None
        if any("wrap" in sp for sp in case["specs"]):
            return self._compare_nested(case, i, driver)
        sched_pairs = [[rid, 0] for rid in range(len(case["specs"]))] + [[c["rid"], c["sid"] + 1] for c in i["calls"]]
        specs = [{"nodes": [{"srcs": nd["srcs"], "eff": nd["eff"], "out": nd["out"]} for nd in sp["nodes"]], "values": sp["values"], "kwargs": sp["kwargs"]}
                 for sp in case["specs"]]
        m = driver.ask({"op": "isorun", "cells": case["cells"], "dicts": case["dicts"], "specs": specs, "sched": sched_pairs})
        if len(m["log"]) != len(i["calls"]):
            return f"{len(i['calls'])} node calls on the implementation, {len(m['log'])} in the model replay of the same schedule"
        for n, (a, b) in enumerate(zip(i["calls"], m["log"])):
            if (a["rid"], a["sid"]) != (b["rid"], b["sid"]):
                return f"call {n}: impl run {a['rid']} node {a['sid']} vs model run {b['rid']} node {b['sid']}"
            if a["before"] != b["before"]:
                return f"call {n} (run {a['rid']} node n{a['sid']}): argument contents on entry impl={a['before']} model={b['before']}"
            if a["after"] != b["after"]:
                return f"call {n} (run {a['rid']} node n{a['sid']}): result impl={a['after']} model={b['after']}"
            for j, (ref, (mref, copy_of)) in enumerate(zip(a["refs"], b["args"])):
                if copy_of is None and mref < len(case["cells"]) and ref != mref:
                    return f"call {n}: argument {j} is object #{ref} on the implementation, the model passes object #{mref} by reference"
                if copy_of is not None and ref is not None:
                    return f"call {n}: argument {j} is the original object #{ref}; the model passes a private copy of #{copy_of}"
        if i["cells"] != m["cells"]:
            return f"final contents of the caller-visible objects: impl={i['cells']} model={m['cells']}"
        if i["dicts"] != [[list(kv) for kv in d] for d in m["dicts"]]:
            return f"caller dicts after the runs: impl={i['dicts']} model={m['dicts']}"
        return None

    def _compare_nested(self, case: dict, i: Any, driver: Any) -> str | None:
        """Nested / mapped shapes: the Lean model with sub nodes (HG.IsoN), driven by the real order of TOP-LEVEL steps.

        The model executes a sub node atomically, inner nodes in list order, items one after the other. When the real run ordered the
        inner calls differently (supersteps, concurrent items or runs) the contents of SHARED objects may legitimately differ, so the
        comparison is made only when the real call order is the model's order; otherwise the case is judged by the oracle alone."""
        if case["mode"] == "async-conc" and any(sp.get("wrap", {}).get("mapOver") for sp in case["specs"]):
            return None     # items of a map run concurrently here: their calls interleave, the model runs them one after the other
        specs = []
        for sp in case["specs"]:
            fns = [{"fn": {"srcs": [{k: v for k, v in s.items() if k not in ("frozen", "wrapped")} for s in nd["srcs"]], "eff": nd["eff"], "out": nd["out"]}} for nd in sp["nodes"]]
            if "wrap" not in sp:
                specs.append({"nodes": fns, "values": sp["values"], "kwargs": sp["kwargs"]})
                continue
            mo = sp["wrap"].get("mapOver") or []
            entries = case["dicts"][sp["values"]] + sp["kwargs"]
            fwd = [[k, {"provided": k}] for k, _ in entries if k not in mo]
            items = [[[k, r] for k, r in entries if k in mo], [[k, r + 1] for k, r in entries if k in mo]] if mo else None
            if mo and sp["wrap"].get("single"):
                items = items[:1]
            sub = {"sub": {"inner": fns, "fwd": fwd, "items": items, "clone": sp["wrap"].get("clone"), "outs": [nd["out"] for nd in sp["nodes"]]}}
            specs.append({"nodes": [sub], "values": sp["values"], "kwargs": sp["kwargs"]})
        # the real order of top-level steps: a wrapped run contributes ONE step (its sub node), when its first inner call happens
        sched_pairs = [[rid, 0] for rid in range(len(case["specs"]))]
        seen_wrapped: set[int] = set()
        for c in i["calls"]:
            if "wrap" in case["specs"][c["rid"]]:
                if c["rid"] not in seen_wrapped:
                    seen_wrapped.add(c["rid"])
                    sched_pairs.append([c["rid"], 1])
            else:
                sched_pairs.append([c["rid"], c["sid"] + 1])
        m = driver.ask({"op": "isorunN", "cells": case["cells"], "dicts": case["dicts"], "specs": specs, "sched": sched_pairs})
        if not m.get("wf", True):
            return None     # the generated situation hands a default object out explicitly: outside the theorem's hypothesis
        # map the model's calls to (rid, inner sid, item)
        mlog = []
        for b in m["log"]:
            if b["path"]:
                item, idx = b["path"][-1]
                mlog.append((b["rid"], idx, b))
            else:
                mlog.append((b["rid"], b["sid"], b))
        real = [(c["rid"], c["sid"], c) for c in i["calls"]]
        if [(r, s_) for r, s_, _ in real] != [(r, s_) for r, s_, _ in mlog]:
            return None     # different inner order (supersteps / concurrency): not comparable call by call
        for n, ((_, _, a), (_, _, b)) in enumerate(zip(real, mlog)):
            if a["before"] != b["before"]:
                return f"call {n} (run {a['rid']} node n{a['sid']}): argument contents on entry impl={a['before']} model(nested)={b['before']}"
            if a["after"] != b["after"]:
                return f"call {n} (run {a['rid']} node n{a['sid']}): result impl={a['after']} model(nested)={b['after']}"
            for j, (ref, (mref, copy_of)) in enumerate(zip(a["refs"], b["args"])):
                if copy_of is None and mref < len(case["cells"]) and ref != mref:
                    return f"call {n}: argument {j} is object #{ref} on the implementation, the nested model passes object #{mref} by reference"
                if copy_of is not None and ref is not None:
                    return f"call {n}: argument {j} is the original object #{ref}; the nested model passes a private copy of #{copy_of}"
        if i["cells"] != m["cells"]:
            return f"final contents of the caller-visible objects: impl={i['cells']} model(nested)={m['cells']}"
        return None

    def nontrivial(self, case: dict, obs: Any) -> bool:
        if "error" in obs:
            return False
        count: dict[int, int] = {}
        for sp in case["specs"]:
            count[sp["shape"]] = count.get(sp["shape"], 0) + 1
        return any(count[sp["shape"]] >= 2 and any(nd["eff"] and "default" in nd["srcs"][nd["eff"][0]] for nd in sp["nodes"]) for sp in case["specs"])

    def features(self, case: dict, obs: Any) -> dict:
        w = next((sp.get("wrap") for sp in case["specs"] if "wrap" in sp), None)
        wrap = "flat" if w is None else ("mapped" if w.get("mapOver") else "nested")
        return {"mode": case["mode"], "runs": len(case["specs"]), "same_runner": case["same_runner"], "wrap": wrap,
                "clone": str(w.get("clone", "-")) if w else "-", "calls": min(len(obs.get("calls", [])), 20)}

    def signature(self, case: dict, obs: Any, why: str) -> str:
        return "case:" + canonical_hash({k: case[k] for k in ("cells", "dicts", "specs", "mode")})

    def neighbours(self, case: dict, rng: random.Random) -> Iterable[dict]:
        for _ in range(20):
            c = copy.deepcopy(case)
            c["seed"] = rng.randint(0, 10**6)
            c["mode"] = rng.choice(["sync-seq", "async-seq", "async-conc"])
            yield c
        yield from self.cases(rng, "quick")


PROP = C18()
