"""C12 — events of every terminated run form a complete, well-nested span tree."""
from __future__ import annotations

import copy
import random
from typing import Any, Iterable

from .. import gen, impl, sched, spantree
from ..build import Env
from ..runprop import RunProp


class QuotaCache:
    """A cache backend that refuses entries once its budget is used up: `set` RAISES (a full disk, a value whose pickling fails, a remote
    store that is down)."""

    def __init__(self, budget: int, get_budget: int | None = None) -> None:
        self.budget = budget
        self.get_budget = get_budget        # lookups answered before `get` starts RAISING (a remote store that went away)
        self.data: dict[str, Any] = {}

    def get(self, key: str) -> tuple[bool, Any]:
        if self.get_budget is not None:
            if self.get_budget <= 0:
                raise ConnectionError("cache backend unreachable")
            self.get_budget -= 1
        return (True, self.data[key]) if key in self.data else (False, None)

    def set(self, key: str, value: Any) -> None:
        if self.budget <= 0:
            raise OSError("cache quota exceeded")
        self.budget -= 1
        self.data[key] = value


class C12(RunProp):
    id = "C12"
    level = "proof"
    compare_events = True
    nontrivial_rule = (
        "programs from all generators (nested to depth 2, mapping nodes, loops, gated, failing at any node, selections) under run and "
        "runner.map, both runners; async on the controllable loop under random completion orders; a recording processor; "
        "non-trivial = a nested run or a failure or >= 4 node spans; distinct by canonical hash"
    )
    budgets = {"quick": 300, "thorough": 6000}

    def cases(self, rng: random.Random, tier: str) -> Iterable[dict]:
        gens = [lambda: gen.gen_dag_program(rng, max_nodes=7, depth=rng.choice([0, 1, 2])), lambda: gen.gen_gated_cfg(rng),
                lambda: gen.gen_loop_bounded(rng), lambda: gen.gen_failing_dag(rng), lambda: gen.gen_map_node(rng)]
        # whatever the seed: user code that re-seeds the GLOBAL random generator inside every node body (the "reproducible sampling" idiom):
        # items of a map and iterations of a loop then start from the same generator state — span ids must still be unique
        for mk in (lambda: gen.gen_map_node(rng, force="product-order"), lambda: gen.gen_loop_bounded(rng), lambda: gen.gen_dag_program(rng, max_nodes=6, depth=1)):
            c = mk()
            for runner in ("sync", "async"):
                yield {"kind": "run", "program": c["program"], "values": c["values"], "cfg": c.get("cfg", {}), "runner": runner, "seed": rng.randint(0, 10**6),
                       "yielding": False, "reseed": rng.randint(0, 99)}
        # whatever the seed: REJECTED calls — an option value the call refuses (unknown on_missing policy, a selected output the graph does not
        # have, a concurrency limit without a single slot): nothing is delivered, nothing is shut down, no node runs; run and map alike
        for bad in ({"onMissing": "bogus"}, {"select": ["no_such_output"]}, {"k": 0}):
            c = gen.gen_dag_program(rng, max_nodes=4, depth=0, allow_fed_default=False, allow_emit=False)
            m = gen.gen_map_node(rng)
            a_node = next(nd for nd in m["program"][0]["nodes"] if nd["name"] == "a")
            n = rng.randint(2, 3)
            mvals = [[p[0], 1] if p[0] == "c" else [p[0], {"l": [rng.randint(0, 4) for _ in range(n)]}] for p in a_node["params"]]
            mvals = [["x", {"l": [rng.randint(0, 4) for _ in range(n)]}]] + [v for v in mvals if v[0] not in ("x", "px")]
            for runner in ("sync", "async"):
                if "k" in bad and runner == "sync":
                    continue
                cfg = {k: v for k, v in bad.items() if k != "k"}
                yield {"kind": "run", "program": c["program"], "values": c["values"], "cfg": cfg, "runner": runner, "seed": rng.randint(0, 10**6), "yielding": False,
                       "rejected": True, "k": bad.get("k")}
                yield {"kind": "map", "program": [m["program"][0]], "values": mvals, "mapOver": [v[0] for v in mvals if isinstance(v[1], dict)], "mode": "zip",
                       "mapErr": rng.choice(["raise", "continue"]), "cfg": cfg, "runner": runner, "seed": rng.randint(0, 10**6), "yielding": False, "k": bad.get("k"),
                       "rejected": True}
        # whatever the seed: a BOUNDED async map in raise mode in which one item fails while others are still in flight (suspending bodies, yielding
        # recorder): the map's RunEnd and the shutdown come after every item's spans are closed
        from . import c10 as _c10
        for _ in range(4):
            m = _c10.PROP._map_case(rng, force="raise-multi", bounded=True)
            yield {"kind": "map", "program": m["program"], "values": m["values"], "mapOver": m["mapOver"], "mode": m["mode"], "mapErr": "raise", "cfg": {}, "runner": "async",
                   "seed": rng.randint(0, 10**6), "yielding": rng.choice([True, True, "syncmethods"]), "k": rng.choice([2, 3])}
        # whatever the seed: a value whose comparison RAISES is written a second time (two ordered producers of one name): the framework's own
        # bookkeeping fails after the node completed — whatever the run then reports, every span is closed exactly once
        for runner in ("sync", "async"):
            fnn = gen._fn_node
            nodes = [fnn("p1", [["x", None]], ["h"], {"b": "const", "v": {"badeq": 1}}, emits=["d1"]),
                     fnn("p2", [["x", None]], ["h"], {"b": "const", "v": {"badeq": 2}}, waitFor=["d1"]),
                     fnn("side", [["x", None]], ["s"], {"b": "tag", "t": "side"})]
            rng.shuffle(nodes)
            yield {"kind": "run", "program": [{"name": "g0", "nodes": nodes, "bound": []}], "values": [["x", 1]], "cfg": {"errMode": rng.choice(["raise", "continue"])},
                   "runner": runner, "seed": rng.randint(0, 10**6), "yielding": False, "pyOnly": True}
        # whatever the seed: ONE processor object kept across top-level calls (run, run again, map): each call shuts it down exactly once
        for mk in (lambda: gen.gen_dag_program(rng, max_nodes=5, depth=1), lambda: gen.gen_failing_dag(rng), lambda: gen.gen_gated_cfg(rng)):
            c = mk()
            for runner in ("sync", "async"):
                yield {"kind": "run", "program": c["program"], "values": c["values"], "cfg": c.get("cfg", {}), "runner": runner, "seed": rng.randint(0, 10**6), "yielding": "kept"}
        forced_bad = 3      # whatever the seed: cacheable nodes on a backend whose LOOKUP raises after a few answers
        while True:
            c = rng.choice(gens)()
            top = c["program"][-1]["nodes"]
            if any(n["kind"] in ("route", "ifelse") for n in top) and rng.random() < 0.5:
                # strict selection of outputs some of which the taken branch does not produce (result assembly itself can fail)
                outs = [o for n in top for o in n.get("dataOuts", [])]
                if outs:
                    c.setdefault("cfg", {})
                    c["cfg"] = dict(c["cfg"], select=rng.sample(outs, rng.randint(1, len(outs))), onMissing="error")
            bad_cache = rng.randint(0, 2) if (rng.random() < 0.15 or forced_bad) else None
            bad_get = rng.randint(0, 2) if bad_cache is not None and (rng.random() < 0.5 or forced_bad) else None
            forced_bad = max(0, forced_bad - 1)
            for runner in ("sync", "async"):
                case = {"kind": "run", "program": c["program"], "values": c["values"], "cfg": c.get("cfg", {}), "runner": runner, "seed": rng.randint(0, 10**6),
                        "yielding": (rng.choice([False, True, True, "syncmethods"]) if runner == "async" else False)}
                if bad_cache is not None:
                    # every function node cacheable, on a backend whose `set` raises after `bad_cache` entries: the run fails in the middle of
                    # a node's bookkeeping — the span of that node must still be closed exactly once
                    prog = copy.deepcopy(c["program"])
                    for g in prog:
                        for n in g["nodes"]:
                            if n["kind"] == "fn":
                                n["cache"] = True
                    case.update(program=prog, badCache=bad_cache if bad_get is None else 99, badGet=bad_get)
                yield case
            if rng.random() < 0.25:
                m = gen.gen_map_node(rng)
                inner = [m["program"][0]]
                mo = ["x"]
                n = rng.randint(1, 3)
                vals = [["x", {"l": [rng.randint(0, 4) for _ in range(n)]}]]
                a_node = next(nd for nd in inner[0]["nodes"] if nd["name"] == "a")
                for p in a_node["params"][1:]:
                    vals.append([p[0], 1] if p[0] == "c" else [p[0], {"l": [rng.randint(0, 4) for _ in range(n)]}])
                    if p[0] != "c":
                        mo.append(p[0])
                map_err = rng.choice(["raise", "continue"])
                if a_node["body"]["b"] == "failGe":
                    # several failing items with their own errors, bounded worker pool: a failure must not end the map while items are in flight
                    n = rng.randint(3, 5)
                    vals = [[k, ({"l": rng.sample(range(0, 8), n)} if k == "x" else ({"l": [rng.randint(0, 4) for _ in range(n)]} if k in mo else v))] for k, v in vals]
                    map_err = "raise" if rng.random() < 0.7 else map_err
                for runner in ("sync", "async"):
                    yield {"kind": "map", "program": inner, "values": vals, "mapOver": mo, "mode": "zip", "mapErr": map_err,
                           "cfg": {}, "runner": runner, "seed": rng.randint(0, 10**6), "yielding": (rng.choice([False, True, True, "syncmethods"]) if runner == "async" else False),
                           "k": rng.choice([None, None, 2, 3]) if runner == "async" else None}

    def impl(self, case: dict) -> Any:
        ctl = sched.Controller("random", case["seed"]) if case["runner"] == "async" else None
        env = Env()
        env.reseed = case.get("reseed")
        if case["kind"] == "map":
            o = impl.map_case(case["program"], case["values"], case["mapOver"], case["mode"], case["mapErr"], case["cfg"], case["runner"], ctl=ctl, record_events=True,
                              yielding_recorder=case.get("yielding"), max_concurrency=case.get("k"), env=env)
            o["status"] = "build-error" if o.get("status") == "build-error" else ("failed" if o["raised"] is not None else "completed")
            return o
        return impl.run_case(case["program"], None, case["values"], case["cfg"], case["runner"], record_events=True, ctl=ctl, env=env, max_concurrency=case.get("k"),
                             yielding_recorder=case.get("yielding"), cache=QuotaCache(case["badCache"], case.get("badGet")) if case.get("badCache") is not None else None)

    def request(self, case: dict) -> dict:
        if case["kind"] == "map":
            return {"op": "map", "program": case["program"], "values": case["values"], "mapOver": case["mapOver"], "mode": case["mode"],
                    "mapErr": case["mapErr"], "cfg": case["cfg"], "runner": case["runner"]}
        return super().request(case)

    def model(self, case: dict, driver: Any) -> Any:
        if case.get("pyOnly"):
            return None
        if case.get("rejected"):
            if case["kind"] != "map" or "onMissing" in case["cfg"]:
                return None      # an on_missing value outside the enumeration has no counterpart in the model (it is an enum there)
            return driver.ask({"op": "mapc", "program": case["program"], "values": case["values"], "mapOver": case["mapOver"], "mode": case["mode"],
                               "mapErr": case["mapErr"], "cfg": case["cfg"], "runner": case["runner"], "k": case.get("k")})
        r = driver.ask(self.request(case))
        if case["kind"] == "map":
            return {"status": "failed" if r["raised"] is not None else "completed", "raised": r["raised"],
                    "events": [x for x in r["log"] if "ev" in x or "shutdown" in x]}
        return impl.model_obs(r)

    def compare(self, case: dict, i: Any, m: Any) -> str | None:
        if case.get("pyOnly"):
            return None
        if case.get("rejected"):
            if m is None:
                return None      # judged by the oracle alone
            # the checked map of the model (`mapChecked`): rejected with the same class, or run
            cls = {"other:GraphConfigError": "GraphConfigError"}.get(i.get("raised"), i.get("raised"))
            if m.get("rejected") != (cls if not i["calls"] and not i["events"] else None):
                return f"checked map: impl raised {i.get('raised')!r} after {len(i['calls'])} calls / {len(i['events'])} events, model says rejected={m.get('rejected')!r}"
            return None
        if case.get("badCache") is not None:
            return None          # a failing cache backend is outside the run model: the span-tree oracle judges these cases
        if i["status"] != m["status"]:
            return f"status: impl={i['status']} model={m['status']}"
        if case["runner"] == "sync":
            ie, me = impl.ordinalise(i["events"]), impl.ordinalise(m["events"])
            if ie != me:
                return f"event stream differs: impl={ie!r} model={me!r}"
        else:
            # a failing async step may cut siblings short differently under a concurrency-free interleaving; compare trees when nothing failed
            if i["status"] == "completed" and spantree.tree_form(i["events"]) != spantree.tree_form(m["events"]):
                return f"span trees differ: impl={spantree.tree_form(i['events'])!r} model={spantree.tree_form(m['events'])!r}"
        return None

    def oracle(self, case: dict, obs: Any) -> str | None:
        if obs["status"] == "build-error":
            return f"valid program rejected at construction: {obs.get('detail')}"
        if obs["status"] == "paused":
            return None
        if case.get("rejected"):
            raised = obs.get("raised") if case["kind"] == "map" else (obs.get("error") if obs.get("raised") else None)
            if raised in (None, False) or str(raised).startswith("other:Deadlock"):
                return None      # accepted after all (or never finished): not a rejected call, nothing for this clause to say
            if obs["calls"] or obs["events"] or obs.get("shutdowns"):
                return (f"rejected call ({raised}) ran {len(obs['calls'])} node functions and delivered {len(obs['events'])} events / "
                        f"{obs.get('shutdowns')} shutdowns")
            return None
        if case["kind"] == "map" and not obs["events"]:
            # zero combinations: nothing delivered (finding C12-F1 covers the missing shutdown)
            import json

            if any(v == {"l": []} for k, v in case["values"] if k in case["mapOver"]):
                return "map over zero combinations delivered no events and never shut the processors down"
        return spantree.check_span_tree(obs["events"], obs["status"], top_is_map=case["kind"] == "map")

    def nontrivial(self, case: dict, obs: Any) -> bool:
        evs = [e for e in obs.get("events", []) if "ev" in e]
        return sum(1 for e in evs if e["ev"] == "NodeStart") >= 4 or sum(1 for e in evs if e["ev"] == "RunStart") >= 2 or obs["status"] == "failed"

    def features(self, case: dict, obs: Any) -> dict:
        evs = [e for e in obs.get("events", []) if "ev" in e]
        return {"kind": case["kind"], "runner": case["runner"], "status": obs["status"], "runs": min(sum(1 for e in evs if e["ev"] == "RunStart"), 6),
                "node_errors": sum(1 for e in evs if e["ev"] == "NodeError"), "routes": min(sum(1 for e in evs if e["ev"] == "RouteDecision"), 4)}

    def signature(self, case: dict, obs: Any, why: str) -> str:
        from ..engine import canonical_hash

        return "case:" + canonical_hash({k: case[k] for k in case if k not in ("runner", "seed")})

    def expand_fixed(self, case: dict) -> list[dict]:
        if "runner" in case:
            return [case]
        return [dict(case, runner=r) for r in ("sync", "async")]

    def neighbours(self, case: dict, rng: random.Random) -> Iterable[dict]:
        for _ in range(20):
            c = copy.deepcopy(case)
            c["seed"] = rng.randint(0, 10**6)
            yield c
        yield from self.cases(rng, "quick")


PROP = C12()
