"""C17 — ordering signals: a waiting node runs after, and once per, each production."""
from __future__ import annotations

import copy
import random
from typing import Any, Iterable

from .. import gen, impl, sched
from ..runprop import RunProp
from .c04 import sequential


def gen_signal_program(rng: random.Random) -> dict:
    """DAG with emit/wait_for pairs: producers that are functions, gates or interrupts; several waiters per signal."""
    names = gen.Names()
    nodes: list[dict] = []
    values = [["x", rng.randint(0, 3)]]
    signals: list[str] = []
    data = ["x"]
    async_only = False
    for _ in range(rng.randint(2, 6)):
        nn = names.fresh("n")
        kind = rng.choice(["fn", "fn", "fn", "ifelse", "interrupt"])
        src = rng.choice(data)
        node: dict[str, Any]
        if kind == "fn":
            out = names.fresh("v")
            node = {"name": nn, "kind": "fn", "params": [[src, None]], "dataOuts": [out] if rng.random() < 0.8 else [], "body": {"b": "sum", "k": 1}}
            data.extend(node["dataOuts"])
        elif kind == "ifelse":
            node = {"name": nn, "kind": "ifelse", "params": [["x", None]], "targets": ["__END__", "__END__"], "body": {"b": "lt", "k": 2}}
            node["targets"] = [names.fresh("ghost"), "__END__"]
            ghost = node["targets"][0]
            nodes.append({"name": ghost, "kind": "fn", "params": [], "dataOuts": [], "body": {"b": "const", "v": 0}})
        else:
            out = names.fresh("a")
            node = {"name": nn, "kind": "interrupt", "params": [[src, None]], "dataOuts": [out], "body": {"b": "handler", "k": 1}}
            data.append(out)
            async_only = True
        if rng.random() < 0.6:
            sig = names.fresh("s")
            node["emits"] = [sig]
        if signals and rng.random() < 0.6:
            node["waitFor"] = rng.sample(signals, rng.randint(1, min(2, len(signals))))
        if node.get("emits"):
            signals.extend(node["emits"])
        nodes.append(node)
    if rng.random() < 0.5:
        rng.shuffle(nodes)
    return {"program": [{"name": "g0", "nodes": nodes, "bound": []}], "values": values, "async_only": async_only}


class C17(RunProp):
    id = "C17"
    level = "proof"
    compare_events = True
    nontrivial_rule = (
        "programs with emit/wait_for pairs in DAGs (producers: functions, gates, interrupts; several waiters per signal; waiters on data "
        "names) and signal-synchronised loops; sync runner and async runner on the controllable loop under random completion orders; "
        "non-trivial = at least one waiter started; distinct by canonical hash"
    )
    budgets = {"quick": 300, "thorough": 6000}

    def cases(self, rng: random.Random, tier: str) -> Iterable[dict]:
        while True:
            if rng.random() < 0.6:
                c = gen_signal_program(rng)
                kind = "dag"
            else:
                c = gen.gen_loop(rng)
                while c["loop"]["family"] != "signal":
                    c = gen.gen_loop(rng)
                kind = "loop"
            runners = ["async"] if c.get("async_only") else ["sync", "async"]
            for runner in runners:
                yield {"program": c["program"], "values": c["values"], "cfg": {}, "runner": runner, "kind": kind, "loop": c.get("loop"),
                       "seed": rng.randint(0, 10**6)}

    def impl(self, case: dict) -> Any:
        ctl = sched.Controller("random", case["seed"]) if case["runner"] == "async" else None
        try:
            return impl.run_case(case["program"], None, case["values"], case["cfg"], case["runner"], record_events=True, ctl=ctl)
        except sched.Deadlock:
            return {"status": "deadlock", "values": [], "error": None, "raised": False, "calls": [], "events": [], "pause": None, "warnings": 0}

    def oracle(self, case: dict, obs: Any) -> str | None:
        if obs["status"] in ("build-error", "deadlock"):
            return f"signal program could not run: {obs['status']} {obs.get('detail', '')}"
        nodes = case["program"][-1]["nodes"]
        producers: dict[str, list[str]] = {}
        for n in nodes:
            for o in n.get("dataOuts", []) + n.get("emits", []):
                producers.setdefault(o, []).append(n["name"])
        waiters = {n["name"]: n["waitFor"] for n in nodes if n.get("waitFor")}
        provided = {k for k, _ in case["values"]}
        ended: dict[str, int] = {}
        seen_at_last_start: dict[tuple[str, str], int] = {}
        root = None
        for e in obs["events"]:
            if "shutdown" in e:
                continue
            if e["ev"] == "RunStart" and root is None:
                root = e["span"]
            if e.get("parent") != root:
                continue
            if e["ev"] == "NodeEnd":
                ended[e["name"]] = ended.get(e["name"], 0) + 1
            elif e["ev"] == "NodeStart" and e["name"] in waiters:
                w = e["name"]
                for s in waiters[w]:
                    count = sum(ended.get(p, 0) for p in producers.get(s, []) if p != w)
                    if count == 0 and s not in provided:
                        return f"waiter {w!r} started before any producer of {s!r} had completed"
                    key = (w, s)
                    if key in seen_at_last_start and count <= seen_at_last_start[key]:
                        return f"waiter {w!r} started again although {s!r} was not produced again (productions {count})"
                    seen_at_last_start[key] = count
        if case["kind"] == "loop" and obs["status"] == "completed":
            seq = sequential(case["loop"])
            gate_runs = sum(1 for f, _ in obs["calls"] if f == "0:gate")
            if gate_runs != seq["gate"] and not (case["loop"].get("separateEmitter") and case["loop"]["defaultOpen"] and gate_runs == seq["gate"] + 1):
                return f"signal-synchronised gate ran {gate_runs} times for {seq['iters']} productions of its signal (expected {seq['gate']})"
        return None

    def nontrivial(self, case: dict, obs: Any) -> bool:
        waiters = {n["name"] for n in case["program"][-1]["nodes"] if n.get("waitFor")}
        return any(f.split(":", 1)[1] in waiters for f, _ in obs.get("calls", []))

    def features(self, case: dict, obs: Any) -> dict:
        nodes = case["program"][-1]["nodes"]
        return {"kind": case["kind"], "runner": case["runner"], "waiters": sum(1 for n in nodes if n.get("waitFor")),
                "signals": sum(len(n.get("emits", [])) for n in nodes), "status": obs["status"],
                "producer_kinds": "+".join(sorted({n["kind"] for n in nodes if n.get("emits")}))}

    def neighbours(self, case: dict, rng: random.Random) -> Iterable[dict]:
        for _ in range(20):
            c = copy.deepcopy(case)
            c["seed"] = rng.randint(0, 10**6)
            yield c
        yield from self.cases(rng, "quick")


PROP = C17()
