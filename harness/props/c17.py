"""C17 — ordering signals: a waiting node runs after, and once per, each production."""
from __future__ import annotations

import copy
import random
from typing import Any, Iterable

from .. import gen, impl, sched
from ..runprop import RunProp
from .c04 import sequential


def gen_signal_program(rng: random.Random) -> dict:
    """DAG with emit/wait_for pairs: producers that are functions, gates or interrupts; several waiters per signal."""
    names = gen.Names()
    nodes: list[dict] = []
    values = [["x", rng.randint(0, 3)]]
    signals: list[str] = []
    data = ["x"]
    async_only = False
    for _ in range(rng.randint(2, 6)):
        nn = names.fresh("n")
        kind = rng.choice(["fn", "fn", "fn", "ifelse", "interrupt"])
        src = rng.choice(data)
        node: dict[str, Any]
        if kind == "fn":
            out = names.fresh("v")
            node = {"name": nn, "kind": "fn", "params": [[src, None]], "dataOuts": [out] if rng.random() < 0.8 else [], "body": {"b": "sum", "k": 1}}
            data.extend(node["dataOuts"])
        elif kind == "ifelse":
            node = {"name": nn, "kind": "ifelse", "params": [["x", None]], "targets": ["__END__", "__END__"], "body": {"b": "lt", "k": 2}}
            node["targets"] = [names.fresh("ghost"), "__END__"]
            ghost = node["targets"][0]
            nodes.append({"name": ghost, "kind": "fn", "params": [], "dataOuts": [], "body": {"b": "const", "v": 0}})
        else:
            out = names.fresh("a")
            node = {"name": nn, "kind": "interrupt", "params": [[src, None]], "dataOuts": [out], "body": {"b": "handler", "k": 1}}
            data.append(out)
            async_only = True
            if rng.random() < 0.4:
                # the resume path: the handler pauses, but the caller's response is already supplied
                node["body"] = {"b": "handler", "k": None}
                values.append([out, rng.randint(10, 20)])
        if rng.random() < 0.6:
            sig = names.fresh("s")
            node["emits"] = [sig]
        if signals and rng.random() < 0.6:
            node["waitFor"] = rng.sample(signals, rng.randint(1, min(2, len(signals))))
        if node.get("emits"):
            signals.extend(node["emits"])
        nodes.append(node)
    if rng.random() < 0.5:
        rng.shuffle(nodes)
    return {"program": [{"name": "g0", "nodes": nodes, "bound": []}], "values": values, "async_only": async_only}


def gen_two_producers(rng: random.Random) -> dict:
    """ONE signal emitted by TWO producers ordered among themselves (the second waits for the first's private signal); the waiter's data
    input arrives late, so that it becomes ready in the very step in which the second producer runs: it must wait one more step."""
    fn = gen._fn_node
    nodes = [fn("first_pass", [["x", None]], ["draft"], {"b": "sum", "k": 1}, emits=["ready", "first_done"]),
             fn("second_pass", [["y", None]], ["polished"], {"b": "sum", "k": 1}, emits=["ready"], waitFor=["first_done"]),
             fn("publish", [["material", None]], ["report"], {"b": "tag", "t": "publish"}, waitFor=["ready"])]
    # the waiter's data input: produced one step after the start (from x), or two (through an extra hop)
    nodes.append(fn("prepare", [["x", None]], ["material"] if rng.random() < 0.6 else ["m0"], {"b": "sum", "k": 10}))
    if nodes[-1]["dataOuts"] == ["m0"]:
        nodes.append(fn("prepare2", [["m0", None]], ["material"], {"b": "sum", "k": 1}))
        # ... then a third producer keeps the shape: it fires in the step in which the waiter becomes ready
        nodes.append(fn("third_pass", [["polished", None]], ["final"], {"b": "sum", "k": 1}, emits=["ready"]))
    if rng.random() < 0.4:
        nodes.append(fn("audit", [["report", None]], ["audited"], {"b": "tag", "t": "audit"}, waitFor=["first_done"]))
    rng.shuffle(nodes)
    return {"program": [{"name": "g0", "nodes": nodes, "bound": []}], "values": [["x", rng.randint(0, 3)], ["y", rng.randint(0, 3)]]}


def gen_sparse_signal_loop(rng: random.Random) -> dict:
    """A counting loop in which the waiter's data input changes EVERY iteration while its signal is produced only now and then (the
    emitter's own input changes once, when the counter crosses a threshold): the waiter runs once per production, not once per change."""
    fn = gen._fn_node
    limit = rng.randint(3, 6)
    thr = rng.randint(1, limit - 1)
    nodes = [{"name": "more", "kind": "route", "params": [["i", None]], "targets": ["bump", "__END__"], "multiTarget": False, "fallback": None, "defaultOpen": True,
              "body": {"b": "table", "rows": [[v, "bump"] for v in range(limit)], "dflt": "__END__"}},
             fn("bump", [["i", None]], ["i"], {"b": "sum", "k": 1}),
             fn("bucket_of", [["i", None]], ["bucket"], {"b": "lt", "k": thr}),
             fn("flush", [["bucket", None]], ["batch"], {"b": "tag", "t": "flush"}, emits=["flushed"]),
             fn("note", [["i", None]], ["noted"], {"b": "tag", "t": "note"}, waitFor=["flushed"])]
    rng.shuffle(nodes)
    return {"program": [{"name": "g0", "nodes": nodes, "bound": []}], "values": [["i", 0]]}


def gen_fed_producer(rng: random.Random) -> dict:
    """A producer that runs twice in a plain DAG (first on a parameter default, again when a longer branch delivers that parameter)
    and a node that waits for the producer's DATA output and becomes ready around the producer's second run."""
    L = rng.randint(1, 3)
    nodes: list[dict] = []
    prev = "x"
    mids = []
    for j in range(L):
        out = "y" if j == L - 1 else f"m{j}"
        nodes.append({"name": f"c{j}", "kind": "fn", "params": [[prev, None]], "dataOuts": [out], "body": {"b": "sum", "k": 1}})
        mids.append(out)
        prev = out
    nodes.append({"name": "prod", "kind": "fn", "params": [["x", None], ["y", {"d": 0}]], "dataOuts": ["p"], "body": {"b": "sum", "k": 0}})
    if rng.random() < 0.5:
        # the waiter reads y under the same default: ready early, stale again exactly when the producer is
        wparams = [["y", {"d": 0}]]
    else:
        # the waiter reads the end of a sibling chain of random length
        prev = "x"
        for j in range(rng.randint(max(1, L - 1), L + 1)):
            nodes.append({"name": f"d{j}", "kind": "fn", "params": [[prev, None]], "dataOuts": [f"z{j}"], "body": {"b": "sum", "k": 1}})
            prev = f"z{j}"
        wparams = [[prev, None]]
    waiter = {"name": "waiter", "kind": "fn", "params": wparams, "dataOuts": ["w"], "body": {"b": "tag", "t": "w"}, "waitFor": ["p"]}
    nodes.append(waiter)
    if rng.random() < 0.5:
        nodes.append({"name": "w2", "kind": "fn", "params": [["w", None]], "dataOuts": ["w2o"], "body": {"b": "tag", "t": "w2"}, "waitFor": ["y"]})
    rng.shuffle(nodes)
    return {"program": [{"name": "g0", "nodes": nodes, "bound": []}], "values": [["x", rng.randint(0, 3)]]}


def gen_pingpong(rng: random.Random) -> dict:
    """A two-variable cycle A(b)->a, gate, B(a)->b whose variables are BOTH read by a signalling producer P: P is ready in two
    consecutive steps, so a waiter that has already run meets 'my signal is fresh AND its producer is ready again'."""
    limit = rng.randint(2, 7)
    nodes = [
        {"name": "A", "kind": "fn", "params": [["b", None]], "dataOuts": ["a"], "body": {"b": "sum", "k": 1}},
        {"name": "G", "kind": "route", "params": [["a", None]], "targets": ["B", "__END__"], "multiTarget": False, "fallback": None, "defaultOpen": True,
         "body": {"b": "table", "rows": [[v, "B"] for v in range(0, limit)], "dflt": "__END__"}},
        {"name": "B", "kind": "fn", "params": [["a", None]], "dataOuts": ["b"], "body": {"b": "sum", "k": 1}},
        {"name": "P", "kind": "fn", "params": [["a", None], ["b", None]], "dataOuts": ["x"], "body": {"b": "sum", "k": 0}, "emits": ["s"]},
        {"name": "W", "kind": "fn", "params": [["x", None]], "dataOuts": ["seen"], "body": {"b": "tag", "t": "W"}, "waitFor": ["s"]},
    ]
    if rng.random() < 0.5:
        nodes.append({"name": "W2", "kind": "fn", "params": [["a", None]], "dataOuts": ["seen2"], "body": {"b": "tag", "t": "W2"}, "waitFor": ["s"]})
    if rng.random() < 0.5:
        rng.shuffle(nodes)
    return {"program": [{"name": "g0", "nodes": nodes, "bound": []}], "values": [["b", rng.randint(0, 2)]]}


def add_multi_wait(rng: random.Random, c: dict) -> dict:
    """Signal loop + a node waiting for TWO names produced at different rates (one per iteration, one once)."""
    c = copy.deepcopy(c)
    nodes = c["program"][-1]["nodes"]
    nodes.append({"name": "setup", "kind": "fn", "params": [["seed", None]], "dataOuts": [], "body": {"b": "tag", "t": "setup"}, "emits": ["setup_done"]})
    wf = ["turn_done", "setup_done"]
    rng.shuffle(wf)
    nodes.append({"name": "report", "kind": "fn", "params": [["x", None]], "dataOuts": ["rep"], "body": {"b": "tag", "t": "report"}, "waitFor": wf})
    c["values"] = c["values"] + [["seed", 1]]
    if rng.random() < 0.5:
        rng.shuffle(nodes)
    return c


class C17(RunProp):
    id = "C17"
    level = "proof"
    compare_events = True
    nontrivial_rule = (
        "programs with emit/wait_for pairs in DAGs (producers: functions, gates, interrupts; several waiters per signal; waiters on data "
        "names) and signal-synchronised loops; sync runner and async runner on the controllable loop under random completion orders; "
        "non-trivial = at least one waiter started; distinct by canonical hash"
    )
    budgets = {"quick": 300, "thorough": 6000}

    def cases(self, rng: random.Random, tier: str) -> Iterable[dict]:
        forced_two = 4
        forced_sparse = 4
        forced_ren = 4
        while True:
            r = rng.random()
            if forced_two or r < 0.05:
                forced_two = max(0, forced_two - 1)
                c = gen_two_producers(rng)
                kind = "dag"
            elif forced_sparse or r < 0.09:
                forced_sparse = max(0, forced_sparse - 1)
                c = gen_sparse_signal_loop(rng)
                kind = "cycle"
            elif r < 0.45:
                c = gen_signal_program(rng)
                kind = "dag"
            elif r < 0.6:
                c = gen_fed_producer(rng)
                kind = "dag"
            elif r < 0.68:
                c = gen_pingpong(rng)
                kind = "cycle"
            else:
                c = gen.gen_loop(rng)
                while c["loop"]["family"] != "signal":
                    c = gen.gen_loop(rng)
                kind = "loop"
                if rng.random() < 0.4:
                    c = add_multi_wait(rng, c)
            if forced_ren and any(n["kind"] == "fn" and n.get("emits") for n in c["program"][-1]["nodes"]):
                # whatever the seed: signals declared under one name and RENAMED (with_outputs) to the name their waiters use
                forced_ren -= 1
                prog = copy.deepcopy(c["program"])
                for n in prog[-1]["nodes"]:
                    if n["kind"] == "fn" and n.get("emits"):
                        n["renameEmits"] = True
                c = dict(c, program=prog)
            elif rng.random() < 0.1:
                prog = copy.deepcopy(c["program"])
                for n in prog[-1]["nodes"]:
                    if n["kind"] == "fn" and n.get("emits") and rng.random() < 0.5:
                        n["renameEmits"] = True
                c = dict(c, program=prog)
            runners = ["async"] if c.get("async_only") else ["sync", "async"]
            cached = kind in ("dag", "loop") and not c.get("async_only") and rng.random() < 0.2
            for runner in runners:
                case = {"program": c["program"], "values": c["values"], "cfg": {}, "runner": runner, "kind": kind, "loop": c.get("loop"),
                        "seed": rng.randint(0, 10**6)}
                if cached:
                    # the SECOND run on a shared cache, every signalling function node cacheable: a producer served from the cache has
                    # completed all the same — its signal is produced, its waiters run
                    prog = copy.deepcopy(c["program"])
                    for n in prog[-1]["nodes"]:
                        if n["kind"] == "fn" and n.get("emits"):
                            n["cache"] = True
                    case.update(program=prog, cached=True)
                yield case

    def impl(self, case: dict) -> Any:
        ctl = sched.Controller("random", case["seed"]) if case["runner"] == "async" else None
        if case.get("cached"):
            from hypergraph.cache import InMemoryCache

            cache = InMemoryCache()
            try:
                impl.run_case(case["program"], None, case["values"], case["cfg"], case["runner"], cache=cache,
                              ctl=sched.Controller("random", case["seed"] + 1) if case["runner"] == "async" else None)
                return impl.run_case(case["program"], None, case["values"], case["cfg"], case["runner"], record_events=True, ctl=ctl, cache=cache)
            except sched.Deadlock:
                return {"status": "deadlock", "values": [], "error": None, "raised": False, "calls": [], "events": [], "pause": None, "warnings": 0}
        try:
            return impl.run_case(case["program"], None, case["values"], case["cfg"], case["runner"], record_events=True, ctl=ctl)
        except sched.Deadlock:
            return {"status": "deadlock", "values": [], "error": None, "raised": False, "calls": [], "events": [], "pause": None, "warnings": 0}

    def compare(self, case: dict, i: Any, m: Any) -> str | None:
        if case.get("cached"):
            # node bodies served from the cache are not invoked: outcome and values only
            for k in ("status", "values", "error", "raised"):
                if impl.differ(i.get(k), m.get(k)):
                    return f"{k} (second run on a shared cache): impl={i.get(k)!r} model (uncached)={m.get(k)!r}"
            return None
        return super().compare(case, i, m)

    def oracle(self, case: dict, obs: Any) -> str | None:
        if obs["status"] in ("build-error", "deadlock"):
            return f"signal program could not run: {obs['status']} {obs.get('detail', '')}"
        nodes = case["program"][-1]["nodes"]
        producers: dict[str, list[str]] = {}
        for n in nodes:
            for o in n.get("dataOuts", []) + n.get("emits", []):
                producers.setdefault(o, []).append(n["name"])
        waiters = {n["name"]: n["waitFor"] for n in nodes if n.get("waitFor")}
        provided = {k for k, _ in case["values"]}
        ended: dict[str, int] = {}
        seen_at_last_start: dict[tuple[str, str], int] = {}
        root = None
        for e in obs["events"]:
            if "shutdown" in e:
                continue
            if e["ev"] == "RunStart" and root is None:
                root = e["span"]
            if e.get("parent") != root:
                continue
            if e["ev"] == "NodeEnd":
                ended[e["name"]] = ended.get(e["name"], 0) + 1
            elif e["ev"] == "NodeStart" and e["name"] in waiters:
                w = e["name"]
                for s in waiters[w]:
                    count = sum(ended.get(p, 0) for p in producers.get(s, []) if p != w)
                    if count == 0 and s not in provided:
                        return f"waiter {w!r} started before any producer of {s!r} had completed"
                    key = (w, s)
                    if key in seen_at_last_start and count <= seen_at_last_start[key]:
                        return f"waiter {w!r} started again although {s!r} was not produced again (productions {count})"
                    seen_at_last_start[key] = count
        if case["kind"] == "loop" and obs["status"] == "completed":
            seq = sequential(case["loop"])
            gate_runs = sum(1 for f, _ in obs["calls"] if f == "0:gate")
            if gate_runs != seq["gate"] and not (case["loop"].get("separateEmitter") and case["loop"]["defaultOpen"] and gate_runs == seq["gate"] + 1):
                return f"signal-synchronised gate ran {gate_runs} times for {seq['iters']} productions of its signal (expected {seq['gate']})"
        return None

    def nontrivial(self, case: dict, obs: Any) -> bool:
        waiters = {n["name"] for n in case["program"][-1]["nodes"] if n.get("waitFor")}
        return any(f.split(":", 1)[1] in waiters for f, _ in obs.get("calls", []))

    def features(self, case: dict, obs: Any) -> dict:
        nodes = case["program"][-1]["nodes"]
        return {"kind": case["kind"], "runner": case["runner"], "waiters": sum(1 for n in nodes if n.get("waitFor")),
                "signals": sum(len(n.get("emits", [])) for n in nodes), "status": obs["status"],
                "producer_kinds": "+".join(sorted({n["kind"] for n in nodes if n.get("emits")}))}

    def neighbours(self, case: dict, rng: random.Random) -> Iterable[dict]:
        for _ in range(20):
            c = copy.deepcopy(case)
            c["seed"] = rng.randint(0, 10**6)
            yield c
        yield from self.cases(rng, "quick")


PROP = C17()
