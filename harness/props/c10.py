"""C10 — map: one result per input combination, in input order, equal to a single run."""
from __future__ import annotations

import copy
import itertools
import random
from typing import Any, Iterable

from .. import gen, impl, sched
from ..build import Env, enc_val, py_val
from ..engine import Prop, canonical_hash


def combos(values: list, map_over: list[str], mode: str) -> list[dict] | None:
    """Ground truth of the combinations: zip position-wise, product row-major in map_over order."""
    vals = dict((k, v) for k, v in values)
    lists = [vals[k]["l"] for k in map_over]
    bcast = {k: v for k, v in vals.items() if k not in map_over}
    if mode == "zip":
        if len({len(l) for l in lists}) > 1:
            return None
        return [{**bcast, **{k: l[i] for k, l in zip(map_over, lists)}} for i in range(len(lists[0]) if lists else 1)]
    return [{**bcast, **dict(zip(map_over, c))} for c in itertools.product(*lists)]


def data_exposed(program: list[dict], gi: int) -> list[str]:
    """Names a graph exposes that some node inside produces as DATA (ordering signals are not data), under the graph's own names."""
    g = program[gi]
    data: list[str] = []
    for n in g["nodes"]:
        if n["kind"] == "graph":
            ren = dict(n.get("outRen", []))
            data += [ren.get(o, o) for o in data_exposed(program, n["inner"])]
        else:
            data += list(n.get("dataOuts", []))
    exposed = g["selected"] if g.get("selected") is not None else data
    return [o for o in dict.fromkeys(exposed) if o in data]


class C10(Prop):
    id = "C10"
    level = "proof"
    nontrivial_rule = (
        "runner.map on generated graphs and mapping nested-graph nodes: list lengths 0-4, 1-3 mapped parameters, zip/product, broadcast "
        "values, items that fail or take different branches, renamed mapping nodes, raise/continue, both runners, async under random "
        "completion orders with max_concurrency in {None,1,2,3}; non-trivial = >= 2 combinations; distinct by canonical hash"
    )
    budgets = {"quick": 200, "thorough": 4000}

    def _map_case(self, rng: random.Random, force: str | None = None, bounded: bool = False) -> dict:
        c = gen.gen_map_node(rng, force=force)
        inner = [c["program"][0]]
        a_node = next(n for n in inner[0]["nodes"] if n["name"] == "a")
        mo = ["x"] + [p for p in ("y", "z") if any(q[0] == p for q in a_node["params"])]
        rng.shuffle(mo)
        n = rng.randint(0, 4)
        mode = rng.choice(["zip", "product"])
        values = []
        for p in mo:
            ln = n if mode == "zip" and rng.random() < 0.9 else rng.randint(0, 3)
            values.append([p, {"l": [rng.randint(0, 4) for _ in range(ln)]}])
        if any(q[0] == "c" for q in a_node["params"]):
            values.append(["c", gen.rand_value(rng)])
        rng.shuffle(values)
        case = {"kind": "map", "program": inner, "values": values, "mapOver": mo, "mode": mode, "mapErr": rng.choice(["raise", "continue"]),
                "cfg": {}, "runner": rng.choice(["sync", "async"]), "k": rng.choice([None, 1, 2, 3]), "seed": rng.randint(0, 10**6)}
        if a_node["body"]["b"] == "failGe" and rng.random() < 0.7:
            # several items fail, each with its own error, finishing in any order: raise mode must report the FIRST failing item in input order
            ln = rng.randint(3, 5)
            for v in values:
                if v[0] in mo:
                    v[1] = {"l": rng.sample(range(0, 8), ln)} if v[0] == "x" else {"l": [rng.randint(0, 4) for _ in range(ln)]}
            case.update(mode="zip", mapErr="raise", runner=rng.choice(["async", "async", "sync"]), k=rng.choice([None, 2, 3, 4]))
        if bounded:
            # an async map under a limit of at least 2: items that fail early finish before items that run the whole chain
            ln = rng.randint(3, 5)
            for v in values:
                if v[0] in mo:
                    v[1] = {"l": rng.sample(range(0, 8), ln)} if v[0] == "x" else {"l": [rng.randint(0, 4) for _ in range(ln)]}
            case.update(runner="async", k=rng.choice([2, 3]), mode="zip", mapErr=rng.choice(["continue", "raise"]))
        return case

    def cases(self, rng: random.Random, tier: str) -> Iterable[dict]:
        forced = ["product-order"] * 3 + ["continue-fail"] * 4 + ["raise-multi"] * 2 + ["branch-renamed"] * 4      # whatever the seed
        for _ in range(4):
            yield self._map_case(rng, force="raise-multi", bounded=True)
        # whatever the seed: items that compare EQUAL without being the same value (1 / True, 0 / False) — each is its own combination and
        # gets its own result, on both runners, through runner.map and through a mapping node
        for runner in ("async", "sync", "async"):
            c = self._map_case(rng)
            xs = rng.sample([1, True, 0, False], 4) + [rng.choice([1, True])]
            for v in c["values"]:
                if v[0] in c["mapOver"]:
                    v[1] = {"l": list(xs)} if v[0] == "x" else {"l": [rng.randint(0, 1) for _ in xs]}
            c.update(mode="zip", runner=runner, mapErr="continue")
            yield c
        # whatever the seed: the wrapper renames its (selected) data output to the name of an inner signal the selection hides: still a data
        # output, one list entry per item
        for runner in ("sync", "async"):
            inner = {"name": "g0", "nodes": [gen._fn_node("a", [["x", None]], ["r"], {"b": "tag", "t": "a"}, emits=["done"])], "bound": [], "selected": ["r"]}
            gn = {"name": "mapper", "kind": "graph", "inner": 0, "inRen": [], "outRen": [["r", "done"]], "mapOver": ["x"], "mapMode": "zip", "errMode": "raise"}
            outer = {"name": "g1", "nodes": [gn], "bound": []}
            yield {"kind": "node", "program": [inner, outer], "values": [["x", {"l": [rng.randint(0, 4) for _ in range(rng.randint(2, 3))]}]], "cfg": {},
                   "runner": runner, "k": None, "seed": rng.randint(0, 10**6)}
        # whatever the seed: the collection to map over is BOUND inside the mapped graph and not supplied from outside
        for runner in ("sync", "async"):
            n_items = rng.randint(0, 3)
            inner = {"name": "g0", "nodes": [gen._fn_node("a", [["x", None], ["c", None]], ["r"], {"b": "tag", "t": "a"})],
                     "bound": [["x", {"l": [rng.randint(0, 4) for _ in range(n_items)]}]]}
            ren = [["x", "xs"]] if rng.random() < 0.5 else []
            gn = {"name": "mapper", "kind": "graph", "inner": 0, "inRen": ren, "outRen": [], "mapOver": ["xs" if ren else "x"], "mapMode": rng.choice(["zip", "product"]),
                  "errMode": rng.choice(["raise", "continue"])}
            yield {"kind": "node", "program": [inner, {"name": "g1", "nodes": [gn], "bound": []}], "values": [["c", rng.randint(0, 9)]], "cfg": {},
                   "runner": runner, "k": None, "seed": rng.randint(0, 10**6)}
        # whatever the seed: the mapped graph NESTS a graph whose function emits a signal: the signal is no output list of the mapping node
        for runner in ("sync", "async"):
            g0 = {"name": "sub", "nodes": [gen._fn_node("a", [["x", None]], ["y"], {"b": "tag", "t": "a"}, emits=["done"])], "bound": []}
            g1 = {"name": "mid", "nodes": [{"name": "sub", "kind": "graph", "inner": 0}, gen._fn_node("b", [["y", None]], ["z"], {"b": "tag", "t": "b"})], "bound": []}
            gn = {"name": "mapper", "kind": "graph", "inner": 1, "inRen": [], "outRen": [], "mapOver": ["x"], "mapMode": "zip", "errMode": rng.choice(["raise", "continue"])}
            yield {"kind": "node", "program": [g0, g1, {"name": "g2", "nodes": [gn], "bound": []}], "values": [["x", {"l": [rng.randint(0, 4) for _ in range(rng.randint(1, 3))]}]],
                   "cfg": {}, "runner": runner, "k": None, "seed": rng.randint(0, 10**6)}
        # whatever the seed: a concurrency limit without a single slot — refused, or else one result per combination all the same
        for _ in range(2):
            c = self._map_case(rng, bounded=True)
            c.update(k=0, mapErr=rng.choice(["raise", "continue"]), noSlot=True)
            yield c
        for runner in ("async", "sync"):
            inner = {"name": "g0", "nodes": [gen._fn_node("a", [["x", None]], ["r"], {"b": "tag", "t": "a"})], "bound": []}
            gn = {"name": "mapper", "kind": "graph", "inner": 0, "inRen": [], "outRen": [], "mapOver": ["x"], "mapMode": "zip", "errMode": "raise"}
            outer = {"name": "g1", "nodes": [gn], "bound": []}
            yield {"kind": "node", "program": [inner, outer], "values": [["x", {"l": rng.sample([1, True, 0, False], 4)}]], "cfg": {},
                   "runner": runner, "k": rng.choice([None, 2]), "seed": rng.randint(0, 10**6)}
        while True:
            if forced or rng.random() < 0.5:
                c = gen.gen_map_node(rng, force=forced.pop() if forced else rng.choice([None, None, None, "raise-multi", "continue-fail", "product-order", "branch-renamed"]))
                yield {"kind": "node", "program": c["program"], "values": c["values"], "cfg": c.get("cfg", {}),
                       "runner": rng.choice(["sync", "async"]), "k": rng.choice([None, 1, 2, 3]), "seed": rng.randint(0, 10**6)}
            else:
                yield self._map_case(rng)

    def impl(self, case: dict) -> Any:
        ctl = sched.Controller("random", case["seed"]) if case["runner"] == "async" else None
        try:
            if case["kind"] == "map":
                obs = impl.map_case(case["program"], case["values"], case["mapOver"], case["mode"], case["mapErr"], case["cfg"], case["runner"],
                                    max_concurrency=case["k"], ctl=ctl)
                cs = combos(case["values"], case["mapOver"], case["mode"])
                singles = []
                if cs is not None:
                    for combo in cs:
                        singles.append(impl.run_case(case["program"], None, [[k, v] for k, v in combo.items()], {"errMode": "continue"}, "sync"))
                obs["singles"] = [{k: s[k] for k in ("status", "values", "error")} for s in singles]
                return obs
            return impl.run_case(case["program"], None, case["values"], case["cfg"], case["runner"], max_concurrency=case["k"], ctl=ctl)
        except sched.Deadlock:
            return {"status": "deadlock", "results": [], "raised": None, "calls": [], "values": [], "error": None}

    def oracle(self, case: dict, obs: Any) -> str | None:
        if obs.get("status") in ("build-error", "deadlock"):
            return f"map case could not run: {obs.get('status')} {obs.get('detail', '')}"
        if case["kind"] == "map":
            cs = combos(case["values"], case["mapOver"], case["mode"])
            if cs is None:
                return None if obs["raised"] == "ValueError" else f"zip over unequal lengths was not rejected with ValueError (raised={obs['raised']})"
            singles = obs["singles"]
            if case.get("noSlot") and obs["raised"] == "ValueError" and not obs["calls"]:
                return None      # the call was refused before anything ran
            fails = [i for i, s in enumerate(singles) if s["status"] == "failed"]
            if case["mapErr"] == "raise" and fails:
                if obs["raised"] != singles[fails[0]]["error"]:
                    return f"raise mode: expected the first failing item's error {singles[fails[0]]['error']}, got {obs['raised']}"
                return None
            if obs["raised"] is not None:
                return f"map raised {obs['raised']} although no item had to raise"
            if len(obs["results"]) != len(cs):
                return f"{len(obs['results'])} results for {len(cs)} combinations"
            for i, (r, s) in enumerate(zip(obs["results"], singles)):
                if s["status"] == "failed" and case["runner"] == "async" and r["status"] == "failed" and r["error"] == s["error"] \
                        and all(kv in r["values"] for kv in s["values"]):
                    # the reference single run is synchronous; an async item that fails may additionally hold the outputs of the
                    # failing node's step-siblings that completed (C02: every partial value of the sync runner is returned by the async one)
                    continue
                if impl.differ([r["status"], r["values"], r["error"]], [s["status"], s["values"], s["error"]]):
                    return f"item {i}: map returned {r['status']}/{r['values']}/{r['error']}, a single run on that combination gives {s['status']}/{s['values']}/{s['error']}"
            return None
        # mapping node: every output is a list with one entry per combination
        node = next(n for n in case["program"][-1]["nodes"] if n["kind"] == "graph")
        cur_to_orig = {c: o for o, c in node.get("inRen", [])}
        vals = [[cur_to_orig.get(k, k), v] for k, v in case["values"]]
        # (a mapped-over collection may be BOUND inside the mapped graph instead of supplied: it is then the collection to map over)
        vals += [[k, v] for k, v in case["program"][node["inner"]].get("bound", []) if k not in {kk for kk, _ in vals}]
        mo = [cur_to_orig.get(p, p) for p in node["mapOver"]]
        cs = combos(vals, mo, node["mapMode"])
        if cs is None:
            return None if obs["status"] == "failed" and obs["error"] == "ValueError" else f"zip over unequal lengths: {obs['status']}/{obs['error']}"
        gi_m = node["inner"]
        mapped_prog = case["program"][: gi_m + 1]      # the mapped graph with whatever it nests
        singles = [impl.run_case(mapped_prog, None, [[k, v] for k, v in c.items()], {"errMode": "continue"}, "sync") for c in cs]
        fails = [i for i, s in enumerate(singles) if s["status"] == "failed"]
        if fails and node["errMode"] == "raise":
            if obs["status"] != "failed" or obs["error"] != singles[fails[0]]["error"]:
                return f"raise-mode mapping node: expected failure {singles[fails[0]]['error']}, got {obs['status']}/{obs['error']}"
            return None
        if obs["status"] != "completed":
            if obs["status"] == "failed" and obs["error"] == "ValueError" and case["cfg"].get("onMissing") == "error":
                return None
            return f"mapping node run ended {obs['status']}/{obs['error']}"
        got = dict((k, v) for k, v in obs["values"])
        ren = dict(node.get("outRen", []))
        inner_outs = [o for n in case["program"][gi_m]["nodes"] for o in n.get("dataOuts", [])]
        # nothing but what single runs return: a name no single run of the mapped graph ever returns (an ordering signal of a graph nested
        # inside it, say) is not an output list of the mapping node
        allowed = {ren.get(o, o) for o in data_exposed(case["program"], gi_m)}
        others = {o for n in case["program"][-1]["nodes"] if n is not node for o in n.get("dataOuts", [])}
        for k, v in got.items():
            if k not in allowed and k not in others:
                return (f"the mapping node returns {k!r} = {v!r}, which is no DATA output the mapped graph exposes (its exposed data outputs: {sorted(allowed)}); "
                        "no single run of the mapped graph returns such a value")
        inner_sel = case["program"][gi_m].get("selected")
        run_sel = case["cfg"].get("select")
        top_sel = case["program"][-1].get("selected")
        for o in dict.fromkeys(inner_outs):
            name = ren.get(o, o)
            if name not in got:
                # not returned: because the inner graph's selection hides it, or the run's own selection leaves it out — never because a DATA
                # output the wrapper exposes was dropped
                hidden = inner_sel is not None and o not in inner_sel
                unselected = (run_sel not in (None, "**") and name not in run_sel) or (run_sel is None and top_sel is not None and name not in top_sel)
                if not hidden and not unselected:
                    return f"the mapping node exposes the data output {name!r} (inner {o!r}) but the result does not contain it: {sorted(got)}"
                continue
            exp = []
            for s in singles:
                if s["status"] == "failed":
                    exp.append(None)
                else:
                    exp.append(dict((k, v) for k, v in s["values"]).get(o))
            if not cs:
                exp = []
            if got[name] != {"l": exp}:
                return f"output {name!r} of the mapping node is {got[name]!r}, expected one entry per combination {exp!r}"
        return None

    def model(self, case: dict, driver: Any) -> Any:
        if case["kind"] == "map":
            r = driver.ask({"op": "map", "program": case["program"], "values": case["values"], "mapOver": case["mapOver"], "mode": case["mode"],
                            "mapErr": case["mapErr"], "cfg": case["cfg"], "runner": case["runner"], "k": case["k"] if case["runner"] == "async" else None})
            return {"results": [{k: x[k] for k in ("status", "values", "error")} for x in r["results"]], "raised": r["raised"]}
        return impl.model_obs(driver.ask({"op": "run", "program": case["program"], "values": case["values"], "cfg": case["cfg"], "runner": case["runner"]}))

    def compare(self, case: dict, i: Any, m: Any) -> str | None:
        if case["kind"] == "map":
            if i["raised"] != m["raised"]:
                return f"raised: impl={i['raised']} model={m['raised']}"
            if i["raised"] is None:
                ir = [{k: x[k] for k in ("status", "values", "error")} for x in i["results"]]
                if ir != m["results"]:
                    return f"results: impl={ir} model={m['results']}"
            return None
        for k in ("status", "values", "error", "raised"):
            if i.get(k) != m.get(k):
                return f"{k}: impl={i.get(k)!r} model={m.get(k)!r}"
        return None

    def nontrivial(self, case: dict, obs: Any) -> bool:
        if case["kind"] == "map":
            return len(obs.get("singles", [])) >= 2
        return any(isinstance(v, dict) and len(v.get("l", [])) >= 2 for _, v in obs.get("values", []))

    def features(self, case: dict, obs: Any) -> dict:
        f = {"kind": case["kind"], "runner": case["runner"], "k": case["k"]}
        if case["kind"] == "map":
            f.update(mode=case["mode"], err=case["mapErr"], items=len(obs.get("singles", [])), raised=obs.get("raised"))
        else:
            f.update(status=obs.get("status"), error=obs.get("error"))
        return f

    def signature(self, case: dict, obs: Any, why: str) -> str:
        return "case:" + canonical_hash({k: case[k] for k in case if k not in ("runner", "k", "seed")})

    def sample(self, case: dict, obs: Any) -> Any:
        return {k: case[k] for k in case if k != "seed"}

    def neighbours(self, case: dict, rng: random.Random) -> Iterable[dict]:
        for _ in range(20):
            c = copy.deepcopy(case)
            c["seed"] = rng.randint(0, 10**6)
            c["k"] = rng.choice([None, 1, 2, 3])
            c["runner"] = "async"
            yield c
        yield from self.cases(rng, "quick")


PROP = C10()
