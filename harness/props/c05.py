"""C05 — composition: a nested graph behaves exactly like its nodes inlined."""
from __future__ import annotations

import copy
import random
from typing import Any, Iterable

from .. import build, common, gen, impl
from ..build import Env
from ..engine import Prop, canonical_hash


def node_io(n: dict) -> tuple[set[str], set[str]]:
    ren = dict(n.get("inRen", []))
    ins = {ren.get(p[0], p[0]) for p in n.get("params", [])} | set(n.get("waitFor", []))
    outs = set(n.get("dataOuts", [])) | set(n.get("emits", []))
    return ins, outs


def reach(nodes: list[dict]) -> dict[str, set[str]]:
    io = {n["name"]: node_io(n) for n in nodes}
    succ = {a: {b for b in io if a != b and io[a][1] & io[b][0]} for a in io}
    closure: dict[str, set[str]] = {}
    for a in io:
        seen: set[str] = set()
        work = [a]
        while work:
            x = work.pop()
            for y in succ[x]:
                if y not in seen:
                    seen.add(y)
                    work.append(y)
        closure[a] = seen
    return closure


def convex_subset(rng: random.Random, nodes: list[dict], seed_node: str | None = None) -> list[str]:
    r = reach(nodes)
    names = [n["name"] for n in nodes]
    middle = [x for x in names if r[x] and any(x in r[y] for y in names)]      # has both a predecessor and a successor
    s = {seed_node or rng.choice(middle or names)}
    for _ in range(0 if seed_node else rng.choice([0, 0, 1, 1, 2])):
        s.add(rng.choice(names))
    changed = True
    while changed:                      # close under "lies on a path between two members"
        changed = False
        for x in names:
            if x not in s and any(x in r[a] for a in s) and any(b in r[x] for b in s):
                s.add(x)
                changed = True
    return [n for n in names if n in s]


def nest(program: list[dict], gi: int, subset: list[str], rng: random.Random, wname: str, rename: bool, bind_inner: bool, dup_bind: bool = False,
         bind_shared: bool = False) -> list[dict]:
    """Wrap `subset` of graph gi into a nested graph used as one node. Returns the new program."""
    prog = copy.deepcopy(program)
    g = prog[gi]
    inner_nodes = [n for n in g["nodes"] if n["name"] in subset]
    outer_nodes = [n for n in g["nodes"] if n["name"] not in subset]
    in_names: set[str] = set()
    out_names: set[str] = set()
    for n in inner_nodes:
        i, o = node_io(n)
        in_names |= i
        out_names |= o
    iface_in = [x for x in sorted(in_names) if x not in out_names]
    used_outside: set[str] = set()
    for n in outer_nodes:
        used_outside |= node_io(n)[0]
    in_ren, out_ren = [], []
    if rename:
        # alpha-rename the inner graph's interface names; the wrapper renames them back (undone by the surrounding wiring)
        mp = {x: "in_" + x for x in list(iface_in) + sorted(out_names)}
        if rename == "perm" and len(iface_in) >= 2:
            # the inner graph knows its inputs under a ROTATION of the outer names; the wrapper undoes it in ONE parallel with_inputs call
            # (a swap for two names, a cycle for more): each name must still meet its own default / binding / value
            rot = iface_in[1:] + iface_in[:1]
            mp.update({x: r for x, r in zip(iface_in, rot)})
        for n in inner_nodes:
            if n["kind"] == "graph":
                n["inRen"] = [[o, mp.get(c, c)] for o, c in n.get("inRen", [])] + [[x, mp[x]] for x in [] ]
                n["outRen"] = [[o, mp.get(c, c)] for o, c in n.get("outRen", [])]
                return prog  # keep nested-in-nested simple: no alpha-renaming through inner wrappers
            ren = dict(n.get("inRen", []))
            new_ren = []
            for p in n.get("params", []):
                cur = ren.get(p[0], p[0])
                tgt = mp.get(cur, cur)
                if tgt != p[0]:
                    new_ren.append([p[0], tgt])
            n["inRen"] = new_ren
            n["dataOuts"] = [mp.get(o, o) for o in n.get("dataOuts", [])]
            n["emits"] = [mp.get(o, o) for o in n.get("emits", [])]
            n["waitFor"] = [mp.get(o, o) for o in n.get("waitFor", [])]
        in_ren = [[mp[x], x] for x in iface_in]
        out_ren = [[mp[o], o] for o in sorted(out_names)]
    bound_outer = dict((k, v) for k, v in g.get("bound", []))
    inner_bound = []
    def outside_default(k: str) -> bool:
        for n in outer_nodes:
            ren = dict(n.get("inRen", []))
            for prm in n.get("params", []):
                if ren.get(prm[0], prm[0]) == k and prm[1] is not None:
                    return True
        return False

    if bind_inner:
        # bindings of parameters consumed exclusively inside the subset move onto the inner graph
        for k in list(bound_outer):
            # (a shared binding moves inside only when no outside consumer has its own signature default for the name: with one, the
            #  nested form is a different program — the outside consumer would take its default — and the constructor rejects the mix)
            if k in iface_in and (k not in used_outside or (bind_shared and not outside_default(k))):
                v = bound_outer.pop(k)
                inner_bound.append([mp[k] if rename else k, v])
    if dup_bind:
        # the same name bound at both levels: the binding of the graph being run wins, exactly as flat.bind(k=decoy).bind(k=v) uses v
        for k, v in bound_outer.items():
            # (not when an outside consumer has its own signature default for the name: the constructor — which runs before bind() —
            #  sees "default outside, bound inside" and rejects the mix as inconsistent fallbacks, by design)
            if k in iface_in and not outside_default(k):
                inner_bound.append([mp[k] if rename else k, v + 100 if isinstance(v, int) and not isinstance(v, bool) else 100])
    inner = {"name": f"inner_{wname}", "nodes": inner_nodes, "bound": inner_bound}
    wrapper = {"name": wname, "kind": "graph", "inner": gi, "inRen": in_ren, "outRen": out_ren}
    new_outer = {"name": g["name"] + "_n", "nodes": outer_nodes + [wrapper], "bound": [[k, v] for k, v in bound_outer.items()]}
    rng.shuffle(new_outer["nodes"])
    # inner graph takes index gi; every graph after it shifts by one; the new outer goes to gi+1
    out = prog[:gi] + [inner, new_outer] + prog[gi + 1:]
    for k in range(gi + 2, len(out)):
        for n in out[k]["nodes"]:
            if n["kind"] == "graph" and n["inner"] >= gi:
                n["inner"] += 1
    return out


class C05(Prop):
    id = "C05"
    level = "proof"
    nontrivial_rule = (
        "random gate-free DAGs (multi-output, renamed parameters, bindings, defaults on external inputs, emit/wait_for) x a random dependency-closed "
        "(convex) node subset wrapped into a nested graph, repeated to depth 1-3, with and without interface renames on the wrapper (undone by "
        "the wiring) and with bindings moved onto the inner graph; flat vs nested: reported input spec and run results on both runners; "
        "non-trivial = the cut crosses at least one edge in each direction; distinct by canonical hash"
    )
    budgets = {"quick": 200, "thorough": 4000}

    @staticmethod
    def _gated_default_feed(rng: random.Random) -> dict:
        """The wrapped group starts on its own DEFAULT for a value whose producer a gate may or may not let run: flat and nested must agree
        whether the producer runs (default, then the value) or not (default only)."""
        d, k = rng.randint(5, 9), rng.randint(1, 3)
        nodes = [{"name": "g", "kind": "ifelse", "params": [["x", None]], "targets": ["p", "q"], "body": {"b": "lt", "k": k}, "defaultOpen": False},
                 {"name": "p", "kind": "fn", "params": [["x", None]], "dataOuts": ["v"], "body": {"b": "sum", "k": 1}},
                 {"name": "q", "kind": "fn", "params": [["x", None]], "dataOuts": ["u"], "body": {"b": "tag", "t": "q"}},
                 {"name": "f", "kind": "fn", "params": [["v", {"d": d}], ["y", None]], "dataOuts": ["w"], "body": {"b": "tag", "t": "f"}},
                 {"name": "h", "kind": "fn", "params": [["w", None]], "dataOuts": ["z"], "body": {"b": "tag", "t": "h"}}]
        rng.shuffle(nodes)
        flat = [{"name": "g0", "nodes": nodes, "bound": []}]
        subset = rng.choice([["f"], ["f", "h"]])
        nested = nest(flat, 0, subset, rng, "w0", rename=rng.choice([False, True]), bind_inner=False)
        return {"flat": flat, "nested": nested, "values": [["x", rng.randint(0, 4)], ["y", rng.randint(0, 3)]], "cuts": [subset]}

    @staticmethod
    def _cross_kind_rename(rng: random.Random) -> dict:
        """A wrapper renamed on BOTH sides where the new name on one side is the old name on the other: the wrapper's input `raw` becomes
        `clean` (fed by an outer producer of `clean`) while its output `clean` becomes `cleaner`. Input renames and output renames are two
        separate histories."""
        fn = gen._fn_node
        pre, post = rng.choice([("clean", "cleaner"), ("doc", "doc2"), ("v", "vv")])
        s1 = fn("s1", [["x", None]], [pre], {"b": "tag", "t": "s1"})
        tidy_flat = dict(fn("tidy", [["raw", None]], [post], {"b": "tag", "t": "tidy"}), inRen=[["raw", pre]])
        tidy_inner = fn("tidy", [["raw", None]], [pre], {"b": "tag", "t": "tidy"})
        cnt = fn("cnt", [[post, None]] + ([[pre, None]] if rng.random() < 0.5 else []), ["n"], {"b": "tag", "t": "cnt"})
        flat_nodes = [s1, tidy_flat, cnt]
        wrapper = {"name": "w0", "kind": "graph", "inner": 0, "inRen": [["raw", pre]], "outRen": [[pre, post]]}
        nested_nodes = [s1, wrapper, cnt]
        order = rng.sample(range(3), 3)
        flat = [{"name": "g0", "nodes": [flat_nodes[j] for j in order], "bound": []}]
        nested = [{"name": "w0", "nodes": [tidy_inner], "bound": []}, {"name": "g0", "nodes": [nested_nodes[j] for j in order], "bound": []}]
        return {"flat": flat, "nested": nested, "values": [["x", rng.randint(0, 4)]], "cuts": [["tidy"]]}

    @staticmethod
    def _two_level_binding(rng: random.Random) -> dict:
        """One input bound at TWO levels: a decoy value on the wrapped graph, the real value on the graph being run (which wins, as
        flat.bind(k=decoy).bind(k=v) uses v) — through wrapper renames, with and without a plain consumer of the name left outside."""
        v = rng.randint(1, 9)
        nodes = [{"name": "a", "kind": "fn", "params": [["x", None], ["k", None]], "dataOuts": ["va"], "body": {"b": "tag", "t": "a"}},
                 {"name": "b", "kind": "fn", "params": [["va", None], ["k", None]], "dataOuts": ["vb"], "body": {"b": "tag", "t": "b"}},
                 {"name": "c", "kind": "fn", "params": [["vb", None], ["y", None]] + ([["k", None]] if rng.random() < 0.6 else []), "dataOuts": ["vc"], "body": {"b": "tag", "t": "c"}}]
        rng.shuffle(nodes)
        flat = [{"name": "g0", "nodes": nodes, "bound": [["k", v]]}]
        subset = rng.choice([["a"], ["a", "b"], ["b"]])
        nested = nest(flat, 0, subset, rng, "w0", rename=rng.choice([False, True, "perm"]), bind_inner=False, dup_bind=True)
        cuts = [subset]
        if rng.random() < 0.4:
            # a second wrapper around another consumer of the name, with its own decoy
            rest = [n for n in ("a", "b") if n not in subset][:1]
            if rest:
                nested = nest(nested, 1, rest, rng, "w1", rename=rng.choice([False, True]), bind_inner=False, dup_bind=True)
                cuts.append(rest)
        return {"flat": flat, "nested": nested, "values": [["x", rng.randint(0, 4)], ["y", rng.randint(0, 3)]], "cuts": cuts}

    def cases(self, rng: random.Random, tier: str) -> Iterable[dict]:
        forced = 4
        forced2 = 4
        for _ in range(3):      # whatever the seed
            c = self._cross_kind_rename(rng)
            for runner in ("sync", "async"):
                yield dict(c, runner=runner)
        while True:
            if forced or rng.random() < 0.05:
                forced = max(0, forced - 1)
                c = self._gated_default_feed(rng)
                for runner in ("sync", "async"):
                    yield dict(c, runner=runner)
                continue
            if forced2 or rng.random() < 0.05:
                forced2 = max(0, forced2 - 1)
                c = self._two_level_binding(rng)
                for runner in ("sync", "async"):
                    yield dict(c, runner=runner)
                continue
            c = gen.gen_dag_program(rng, max_nodes=7 if tier == "quick" else 11, depth=0, allow_fed_default=False, allow_emit=False)
            # (ordering signals that cross the nesting boundary are never delivered: recorded finding C05-F1, kept out of the stream)
            flat = c["program"]
            if len(flat[0]["nodes"]) < 2:
                continue
            # bind an external input that has several consumers (the wrapped group may then hold only some of them)
            uses: dict[str, int] = {}
            for nd in flat[0]["nodes"]:
                for x in node_io(nd)[0]:
                    uses[x] = uses.get(x, 0) + 1
            shared_ext = [k for k, v in c["values"] if uses.get(k, 0) >= 2 and k not in dict(flat[0].get("bound", []))]
            if shared_ext and rng.random() < 0.6:
                k = rng.choice(shared_ext)
                flat[0]["bound"] = list(flat[0].get("bound", [])) + [[k, dict(map(tuple, c["values"]))[k]]]
                c["values"] = [kv for kv in c["values"] if kv[0] != k]
            nested = flat
            depth = rng.choice([1, 1, 2, 3])
            gi = 0
            cuts = []
            ok = True
            for d in range(depth):
                nodes = nested[gi]["nodes"]
                if len(nodes) < 1:
                    break
                forced_mode = None
                if d == 0 and rng.random() < 0.5:
                    # a bound name with several consumers: wrap ONE of them (the binding then moves inside while a consumer stays outside)
                    bnames = [k for k, _ in nested[gi].get("bound", [])]
                    cands = [(k, [n["name"] for n in nodes if k in node_io(n)[0]]) for k in bnames]
                    cands = [(k, cs) for k, cs in cands if len(cs) >= 2]
                    if cands:
                        k, cs = rng.choice(cands)
                        sub = convex_subset(rng, nodes, seed_node=rng.choice(cs))
                        if any(c not in sub for c in cs) and len(sub) < len(nodes):
                            cuts.append(sub)
                            nested = nest(nested, gi, sub, rng, f"w{d}", rename=rng.choice([False, True, "perm"]), bind_inner=True, bind_shared=True)
                            continue
                subset = convex_subset(rng, nodes)
                for _ in range(8):      # prefer cuts crossed by edges in both directions
                    if len(subset) < len(nodes) and _crossed(nodes, set(subset)):
                        break
                    subset = convex_subset(rng, nodes)
                if len(subset) == len(nodes) and d > 0:
                    break
                cuts.append(subset)
                nested = nest(nested, gi, subset, rng, f"w{d}", rename=rng.choice([False, True, "perm"]), bind_inner=(mode := rng.choice(["none", "move", "move-shared", "dup", "dup"])) in ("move", "move-shared"), dup_bind=mode == "dup",
                              bind_shared=mode == "move-shared")
                # next level: nest inside the inner graph just created (index gi stays the inner graph)
            for runner in ("sync", "async"):
                yield {"flat": flat, "nested": nested, "values": c["values"], "runner": runner, "cuts": cuts}

    def _spec(self, program: list[dict]) -> Any:
        try:
            g = build.build_program(program, Env())[-1]
            s = g.inputs
            return {"required": sorted(s.required), "optional": sorted(s.optional)}
        except Exception as e:  # noqa: BLE001
            return {"error": f"{type(e).__name__}: {e}"[:300]}

    def impl(self, case: dict) -> Any:
        out = {}
        for k in ("flat", "nested"):
            out[k + "_spec"] = self._spec(case[k])
            r = impl.run_case(case[k], None, case["values"], {}, case["runner"])
            out[k] = {"status": r["status"], "values": sorted(map(_kv, r["values"])), "error": r["error"], "detail": r.get("detail")}
            out[k + "_calls"] = len(r["calls"])
        return out

    def oracle(self, case: dict, obs: Any) -> str | None:
        if "error" in obs["flat_spec"] or obs["flat"]["status"] == "build-error":
            return None   # the flat graph itself is not valid: not this property's subject
        if "error" in obs["nested_spec"] or obs["nested"]["status"] == "build-error":
            return f"wrapping a dependency-closed group into a nested graph made the graph invalid: {obs['nested_spec'].get('error') or obs['nested'].get('detail')}"
        if obs["flat_spec"] != obs["nested_spec"]:
            return f"input spec changed by nesting: flat {obs['flat_spec']} vs nested {obs['nested_spec']}"
        fl, ne = obs["flat"], obs["nested"]
        if fl["status"] != ne["status"]:
            return f"run status changed by nesting: flat {fl['status']}/{fl['error']} vs nested {ne['status']}/{ne['error']}"
        if fl["status"] == "completed":
            fv, nv = dict(fl["values"]), dict(ne["values"])
            # emit names of wrapped nodes are ordering-only and never returned; compare every data output
            for k, v in fv.items():
                if k not in nv:
                    return f"output {k!r} of the flat graph is missing from the nested graph's result"
                if nv[k] != v:
                    return f"output {k!r}: flat {v} vs nested {nv[k]}"
            extra = set(nv) - set(fv)
            if extra:
                return f"nested graph returns outputs the flat graph does not: {sorted(extra)}"
        return None

    def model(self, case: dict, driver: Any) -> Any:
        out = {}
        for k in ("flat", "nested"):
            s = driver.ask({"op": "spec", "program": case[k]})[-1]["spec"]
            out[k + "_spec"] = {"required": sorted(s["required"]), "optional": sorted(s["optional"])}
            r = impl.model_obs(driver.ask({"op": "run", "program": case[k], "values": case["values"], "runner": case["runner"]}))
            out[k] = {"status": r["status"], "values": sorted(map(_kv, r["values"])), "error": r["error"]}
            out[k + "_calls"] = len(r["calls"])
        return out

    def compare(self, case: dict, i: Any, m: Any) -> str | None:
        for k in ("flat_spec", "nested_spec"):
            if "error" in i[k]:
                continue
            if i[k] != m[k]:
                return f"{k}: impl={i[k]} model={m[k]}"
        for k in ("flat", "nested"):
            if i[k]["status"] == "build-error":
                continue
            for f in ("status", "values", "error"):
                if i[k][f] != m[k][f]:
                    return f"{k}.{f}: impl={i[k][f]!r} model={m[k][f]!r}"
            if i[k + "_calls"] != m[k + "_calls"]:
                return f"{k}: number of node invocations impl={i[k + '_calls']} model={m[k + '_calls']}"
        return None

    def nontrivial(self, case: dict, obs: Any) -> bool:
        if not case["cuts"]:
            return False
        return _crossed(case["flat"][0]["nodes"], set(case["cuts"][0]))

    def features(self, case: dict, obs: Any) -> dict:
        return {"depth": len(case["cuts"]), "cut_size": len(case["cuts"][0]) if case["cuts"] else 0, "nodes": len(case["flat"][0]["nodes"]),
                "runner": case["runner"], "status": obs["flat"]["status"], "renamed": any(n.get("inRen") or n.get("outRen") for g in case["nested"] for n in g["nodes"] if n["kind"] == "graph")}

    def signature(self, case: dict, obs: Any, why: str) -> str:
        return "case:" + canonical_hash({"flat": case["flat"], "nested": case["nested"], "values": case["values"]})

    def sample(self, case: dict, obs: Any) -> Any:
        return {"flat": case["flat"], "nested": case["nested"], "values": case["values"], "cuts": case["cuts"]}

    def expand_fixed(self, case: dict) -> list[dict]:
        return [dict(case, runner=r) for r in ("sync", "async")] if "runner" not in case else [case]

    def neighbours(self, case: dict, rng: random.Random) -> Iterable[dict]:
        yield from self.cases(rng, "quick")


def _crossed(nodes: list[dict], s: set[str]) -> bool:
    ins = set().union(*[node_io(n)[0] for n in nodes if n["name"] in s] or [set()])
    outs = set().union(*[node_io(n)[1] for n in nodes if n["name"] in s] or [set()])
    rest_in = set().union(*[node_io(n)[0] for n in nodes if n["name"] not in s] or [set()])
    rest_out = set().union(*[node_io(n)[1] for n in nodes if n["name"] not in s] or [set()])
    return bool(ins & rest_out) and bool(outs & rest_in)


def _kv(kv: list) -> tuple:
    import json

    return (kv[0], json.dumps(kv[1], sort_keys=True))


PROP = C05()
