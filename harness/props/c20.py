"""C20 — visualisation shows exactly the graph's structure in every expansion state (translation validation)."""
from __future__ import annotations

import copy
import random
import re
from typing import Any, Iterable

from .. import build, common, gen
from ..build import Env
from ..engine import Prop, canonical_hash

common.use_repo()
from hypergraph.viz.renderer import render_graph  # noqa: E402


def flat_payload(fg: Any) -> list[dict]:
    out = []
    for nid, a in fg.nodes(data=True):
        parent = a.get("parent")
        bd = a.get("branch_data") or {}
        tg: list = []
        if "when_true" in bd:
            tg = [bd["when_true"], bd["when_false"]]
        elif "targets" in bd:
            t = bd["targets"]
            tg = list(t.values() if isinstance(t, dict) else t)
        tg = [(t if parent is None else f"{parent}/{t}") for t in tg if t != "END" and isinstance(t, str)]
        out.append({"id": nid, "parent": parent, "kind": a.get("node_type"), "inputs": list(a.get("inputs", ())), "outputs": list(a.get("outputs", ())),
                    "waitFor": list(a.get("wait_for", ())), "targets": tg, "hidden": bool(a.get("hide"))})
    return out


def diagram_payload(nodes: list[dict], edges: list[dict]) -> tuple[list, list]:
    ns = []
    for n in nodes:
        d = n.get("data", {})
        k = d.get("nodeType")
        k = "GRAPH" if k == "PIPELINE" else k
        ns.append({"id": n["id"], "kind": k, "parent": n.get("parentNode"), "hidden": bool(n.get("hidden")), "owner": d.get("sourceId") if k == "DATA" else None})
    es = []
    for e in edges:
        d = e.get("data", {})
        es.append({"source": e["source"], "target": e["target"], "kind": d.get("edgeType", "data"), "value": d.get("valueName") or None})
    return ns, es


def parse_state_key(key: str, containers: list[str]) -> tuple[list, bool]:
    if "|sep:" in key:
        exp, sep = key.rsplit("|sep:", 1)
    else:
        exp, sep = "", key.split("sep:", 1)[1]
    st = []
    if exp:
        for part in exp.split(","):
            cid, bit = part.rsplit(":", 1)
            st.append([cid, bit == "1"])
    return st, sep == "1"


_EDGE_RE = re.compile(r"^\s*([A-Za-z0-9_]+)\s*(-->|-\.->|==>|---)\s*(?:\|[^|]*\|\s*)?([A-Za-z0-9_]+)\s*$")
_NODE_RE = re.compile(r"^\s*([A-Za-z0-9_]+)\s*(\[|\(|\{)")
_SUB_RE = re.compile(r"^\s*subgraph\s+([A-Za-z0-9_]+)")
_INPUT_RE = re.compile(r"^\s*(input_[A-Za-z0-9_]+)\(\[\"(.*)\"\]\)\s*$", re.M)


def _san(node_id: str) -> str:
    """The documented id sanitisation of the Mermaid renderer ('/' -> '__')."""
    safe = re.sub(r"[^A-Za-z0-9_]", "_", node_id.replace("/", "__"))
    if safe and safe[0].isdigit():
        safe = "n_" + safe
    return safe


def parse_mermaid(src: str, flat: list[dict]) -> tuple[list, list, list]:
    """Mermaid source -> (diagram nodes, diagram edges, expanded container ids), ids mapped back to flat ids."""
    back = {_san(n["id"]): n["id"] for n in flat}
    kinds = {n["id"]: n["kind"] for n in flat}
    nodes: dict[str, dict] = {}
    edges = []
    expanded = []
    stack: list[str] = []

    def orig(mid: str) -> str:
        return back.get(mid, mid)

    def declare(mid: str, container: bool = False) -> None:
        oid = orig(mid)
        if oid in nodes:
            return
        if oid in kinds:
            k, owner = kinds[oid], None
        elif mid.startswith("data_"):
            k = "DATA"
            owner = None
            rest = mid[len("data_"):]
            for sid, fid in sorted(back.items(), key=lambda kv: -len(kv[0])):
                if rest.startswith(sid + "_"):
                    owner = fid
                    break
        elif mid.startswith("input_group_"):
            k, owner = "INPUT_GROUP", None
        elif mid.startswith("input_"):
            k, owner = "INPUT", None
        elif "end" in mid.lower():
            k, owner = "END", None
        else:
            k, owner = "UNKNOWN", None
        nodes[oid] = {"id": oid, "kind": k, "parent": orig(stack[-1]) if stack else None, "hidden": False, "owner": owner}

    for line in src.splitlines():
        ln = line.strip()
        if not ln or ln.startswith("%%") or ln.startswith("flowchart") or ln.startswith("classDef") or ln.startswith("class ") or ln.startswith("style") or ln.startswith("linkStyle"):
            continue
        m = _SUB_RE.match(ln)
        if m:
            declare(m.group(1), container=True)
            expanded.append(orig(m.group(1)))
            stack.append(m.group(1))
            continue
        if ln == "end":
            if stack:
                stack.pop()
            continue
        m = _EDGE_RE.match(ln)
        if m:
            edges.append({"source": orig(m.group(1)), "target": orig(m.group(3)), "kind": "data", "value": None})
            continue
        m = _NODE_RE.match(ln)
        if m:
            declare(m.group(1))
    return list(nodes.values()), edges, expanded


def _map_names(g: dict, f: Any, fnode: Any) -> dict:
    g = copy.deepcopy(g)
    for n in g["nodes"]:
        n["name"] = fnode(n["name"])
        if "params" in n and f is not None:
            ren = dict(n.get("inRen", []))
            n["inRen"] = [[p[0], f(ren.get(p[0], p[0]))] for p in n["params"] if f(ren.get(p[0], p[0])) != p[0]]
        for k in ("dataOuts", "emits", "waitFor"):
            if k in n and f is not None:
                n[k] = [f(x) for x in n[k]]
        if "targets" in n:
            n["targets"] = [t if t == "__END__" else fnode(t) for t in n["targets"]]
        if n.get("fallback") not in (None, "__END__"):
            n["fallback"] = fnode(n["fallback"])
        b = n.get("body", {})
        if b.get("b") == "table":
            def tgt(t: Any) -> Any:
                if isinstance(t, list):
                    return [tgt(x) for x in t]
                return t if t in (None, "__END__") else fnode(t)
            b["rows"] = [[v, tgt(t)] for v, t in b["rows"]]
            b["dflt"] = tgt(b["dflt"])
    if f is not None:
        g["bound"] = [[f(k), v] for k, v in g.get("bound", [])]
    return g


def prefix_graph(g: dict, pre: str) -> dict:
    """Rename every node and every value name of one (nesting-free) graph description by a prefix."""
    return _map_names(g, lambda x: pre + x, lambda x: pre + x)


def prefixify(rng: random.Random, program: list[dict]) -> list[dict]:
    """Rename some nodes so that one node name is a string prefix of a sibling's name (e.g. `n1` / `n1_report`)."""
    def io(n: dict) -> tuple[set, set]:
        if n["kind"] == "graph":
            inner = program[n["inner"]]
            ii, oo = set(), set()
            for m in inner["nodes"]:
                a, b = io(m)
                ii |= a
                oo |= b
            ir, orr = dict(n.get("inRen", [])), dict(n.get("outRen", []))
            return {ir.get(x, x) for x in ii - oo}, {orr.get(x, x) for x in oo}
        ren = dict(n.get("inRen", []))
        return {ren.get(q[0], q[0]) for q in n.get("params", [])}, set(n.get("dataOuts", []))

    out = []
    for g in program:
        names = [n["name"] for n in g["nodes"]]
        if len(names) >= 2:
            ios = {n["name"]: io(n) for n in g["nodes"]}
            # prefer pairs whose drawing depends on telling the two ids apart: a shared input, or the longer name consuming the shorter's output
            pairs = [(x, y) for x in names for y in names if x != y and (ios[x][0] & ios[y][0] or ios[x][1] & ios[y][0])]
            a, b = rng.choice(pairs) if pairs and rng.random() < 0.8 else rng.sample(names, 2)
            new_b = a + rng.choice(["_report", "2", "x"])
            if new_b not in names:
                g = _map_names(g, None, lambda x, b=b, new_b=new_b: new_b if x == b else x)
        out.append(g)
    return out


def expected_flat(program: list[dict], gi: int, parent: str | None = None) -> list[tuple[str, str | None]]:
    """(hierarchical id, parent id) of every node, from the DESCRIPTION: each nested node once, under its parent."""
    out = []
    for n in program[gi]["nodes"]:
        nid = n["name"] if parent is None else f"{parent}/{n['name']}"
        out.append((nid, parent))
        if n["kind"] == "graph":
            out.extend(expected_flat(program, n["inner"], nid))
    return out


class C20(Prop):
    id = "C20"
    level = "translation_validation"
    nontrivial_rule = (
        "generated graphs (DAGs with nesting depth 0-3, renamed wrappers, gates, emit/wait_for ordering, shared inputs) -> real to_flat_graph and "
        "render_graph diagram data for ALL valid expansion states x both output modes; every diagram is decided by the Lean checker "
        "checkFaithful (proved equivalent to the Faithful specification); flattening and the set of expansion states are compared with the "
        "model and with the description; non-trivial = at least one container (>= 2 states); distinct by canonical hash of the program"
    )
    budgets = {"quick": 120, "thorough": 2500}
    assumptions = ["the checker accepts any visible node inside a container as the endpoint for renamed ports / gate targets (stand = rep + visible descendants)",
                   "edges out of INPUT nodes are judged outside the Lean checker by a direct rule over the top-level nodes (each taker reached, no edge to a non-taker); edges into END nodes are only checked for declared endpoints", "the JavaScript half of the viewer is outside the model"]

    def __init__(self) -> None:
        self._driver: Any = None

    def driver(self) -> Any:
        if self._driver is None:
            self._driver = common.Driver()
        return self._driver

    @staticmethod
    def _multi_value_exchange(rng: random.Random) -> list[dict]:
        """Two sibling containers exchanging SEVERAL values: each value has its own producer inside `prod` and its own consumer inside
        `cons` (sometimes one level deeper): every value must be drawn between ITS producer and ITS consumers only."""
        k = rng.randint(2, 3)
        # half of the time the value names CONTAIN one another ("v", "v_r", "v_r_r"): an edge must follow the exact name, never a look-alike
        nest = rng.random() < 0.5

        def v(i: int) -> str:
            return "v" + "_r" * i if nest else f"v{i}"

        pn = [{"name": f"p{i}", "kind": "fn", "params": [["x", None]] if i == 0 or rng.random() < 0.5 else [[v(i - 1), None]],
               "dataOuts": [v(i)], "body": {"b": "tag", "t": f"p{i}"}} for i in range(k)]
        cn = []
        for i in range(k):
            params = [[v(i), None]]
            if i and rng.random() < 0.5:
                params.append([f"c{i - 1}", None])
            elif rng.random() < 0.4:
                params.append(["x", None])
            cn.append({"name": f"q{i}", "kind": "fn", "params": params, "dataOuts": [f"c{i}"], "body": {"b": "tag", "t": f"q{i}"}})
        rng.shuffle(pn)
        rng.shuffle(cn)
        prog = [{"name": "prod", "nodes": pn, "bound": []}, {"name": "cons", "nodes": cn, "bound": []}]
        ci = 1
        top: list[dict] = [{"name": "prod", "kind": "graph", "inner": 0}]
        if rng.random() < 0.5:
            prog.append({"name": "outer", "nodes": [{"name": "cons", "kind": "graph", "inner": 1},
                                                    {"name": "z", "kind": "fn", "params": [[f"c{k - 1}", None], [v(0), None]], "dataOuts": ["zz"], "body": {"b": "tag", "t": "z"}}], "bound": []})
            top.append({"name": "outer", "kind": "graph", "inner": 2})
        else:
            top.append({"name": "cons", "kind": "graph", "inner": ci})
            top.append({"name": "z", "kind": "fn", "params": [[f"c{k - 1}", None], [v(rng.randrange(k)), None]], "dataOuts": ["zz"], "body": {"b": "tag", "t": "z"}})
        rng.shuffle(top)
        prog.append({"name": "root", "nodes": top, "bound": []})
        return prog

    @staticmethod
    def _renamed_shared_input(rng: random.Random) -> list[dict]:
        """A wrapper whose inner input is exposed under ANOTHER name, which a sibling (and sometimes a second wrapper) takes too: the
        graph input must reach every one of its takers in every expansion state."""
        inner = {"name": "prep", "nodes": [{"name": "a", "kind": "fn", "params": [["t", None]], "dataOuts": ["c"], "body": {"b": "tag", "t": "a"}},
                                           {"name": "b", "kind": "fn", "params": [["c", None], ["l", None]], "dataOuts": ["tk"], "body": {"b": "tag", "t": "b"}}], "bound": []}
        prog = [inner]
        top: list[dict] = [{"name": "prep", "kind": "graph", "inner": 0, "inRen": [["t", "doc"]]}]
        if rng.random() < 0.7:
            top.append({"name": "s", "kind": "fn", "params": [["tk", None], ["doc", None]], "dataOuts": ["rep"], "body": {"b": "tag", "t": "s"}})
        else:
            top.append({"name": "s", "kind": "fn", "params": [["tk", None]], "dataOuts": ["rep"], "body": {"b": "tag", "t": "s"}})
        if rng.random() < 0.4:
            prog.append({"name": "other", "nodes": [{"name": "u", "kind": "fn", "params": [["w", None]], "dataOuts": ["uu"], "body": {"b": "tag", "t": "u"}}], "bound": []})
            top.append({"name": "other", "kind": "graph", "inner": 1, "inRen": [["w", rng.choice(["doc", "l"])]]})
        if rng.random() < 0.35:
            top.insert(0, {"name": "load", "kind": "fn", "params": [["path", None]], "dataOuts": ["doc"], "body": {"b": "tag", "t": "load"}})
        rng.shuffle(top)
        prog.append({"name": "root", "nodes": top, "bound": []})
        if rng.random() < 0.3:
            prog.append({"name": "top", "nodes": [{"name": "root", "kind": "graph", "inner": len(prog) - 1},
                                                  {"name": "fin", "kind": "fn", "params": [["rep", None], ["doc", None]], "dataOuts": ["done"], "body": {"b": "tag", "t": "fin"}}], "bound": []})
        return prog

    @staticmethod
    def _hidden_inner_producer(rng: random.Random) -> list[dict]:
        """A HIDDEN node inside a container (one or two levels down) produces a value taken outside, next to visible siblings; sometimes the
        hidden node is also the only taker of a graph input."""
        inner = {"name": "C0", "nodes": [{"name": "use", "kind": "fn", "params": [[rng.choice(["v", "q"]), None]], "dataOuts": ["o"], "body": {"b": "tag", "t": "use"}, "hide": True},
                                         {"name": "other", "kind": "fn", "params": [["v", None]], "dataOuts": ["o2"], "body": {"b": "tag", "t": "other"}}], "bound": []}
        prog = [inner]
        top: list[dict] = [{"name": "C0", "kind": "graph", "inner": 0}]
        if rng.random() < 0.4:
            prog.append({"name": "C1", "nodes": [{"name": "C0", "kind": "graph", "inner": 0},
                                                 {"name": "mid", "kind": "fn", "params": [["o2", None]], "dataOuts": ["m"], "body": {"b": "tag", "t": "mid"}}], "bound": []})
            top = [{"name": "C1", "kind": "graph", "inner": 1}]
        top.append({"name": "fin", "kind": "fn", "params": [["o", None]] + ([["o2", None]] if rng.random() < 0.5 else []), "dataOuts": ["done"], "body": {"b": "tag", "t": "fin"}})
        rng.shuffle(top)
        prog.append({"name": "root", "nodes": top, "bound": []})
        return prog

    @staticmethod
    def _renamed_lookalike_outputs(rng: random.Random) -> list[dict]:
        """A container exposing an inner output under ANOTHER name that contains (or is contained in) the name of a sibling output, one or
        two levels deep: the edge must start at the producer of the renamed value, not at the look-alike."""
        inner = {"name": "A", "nodes": [{"name": "p", "kind": "fn", "params": [["x", None]], "dataOuts": ["v"], "body": {"b": "tag", "t": "p"}},
                                        {"name": "q", "kind": "fn", "params": [["x", None]] + ([["v", None]] if rng.random() < 0.4 else []), "dataOuts": ["val"],
                                         "body": {"b": "tag", "t": "q"}}], "bound": []}
        ext = rng.choice(["value", "va", "v_all", "values"])
        prog = [inner]
        node_a = {"name": "A", "kind": "graph", "inner": 0, "outRen": [["val", ext]]}
        top: list[dict]
        if rng.random() < 0.4:
            ext2 = rng.choice([ext, ext + "_x", "vx"])
            prog.append({"name": "B", "nodes": [node_a, {"name": "m", "kind": "fn", "params": [[ext, None]], "dataOuts": ["mm"], "body": {"b": "tag", "t": "m"}}], "bound": []})
            top = [{"name": "B", "kind": "graph", "inner": 1, "outRen": ([[ext, ext2]] if ext2 != ext else [])}]
            ext = ext2
        else:
            top = [node_a]
        top.append({"name": "use", "kind": "fn", "params": [["v", None], [ext, None]], "dataOuts": ["z"], "body": {"b": "tag", "t": "use"}})
        rng.shuffle(top)
        prog.append({"name": "root", "nodes": top, "bound": []})
        return prog

    @staticmethod
    def _end_gates_two_levels(rng: random.Random) -> list[dict]:
        """An END-routing gate at the top level AND one inside a nested graph (one or two levels down): END edges come from gates that are
        visible in the state, never from gates hidden inside a collapsed container."""
        def gated(prefix: str, src: str) -> list[dict]:
            return [{"name": f"{prefix}gate", "kind": "ifelse", "params": [[src, None]], "targets": [f"{prefix}t", "__END__"], "body": {"b": "lt", "k": 2}, "defaultOpen": True},
                    {"name": f"{prefix}t", "kind": "fn", "params": [[src, None]], "dataOuts": [f"{prefix}o"], "body": {"b": "tag", "t": f"{prefix}t"}}]
        prog = [{"name": "inner", "nodes": gated("i_", "x"), "bound": []}]
        if rng.random() < 0.4:
            prog.append({"name": "mid", "nodes": [{"name": "inner", "kind": "graph", "inner": 0},
                                                  {"name": "m", "kind": "fn", "params": [["i_o", None]], "dataOuts": ["mo"], "body": {"b": "tag", "t": "m"}}], "bound": []})
        top = [{"name": prog[-1]["name"], "kind": "graph", "inner": len(prog) - 1}] + gated("o_", "y" if rng.random() < 0.5 else "x")
        if rng.random() < 0.5:
            top.append({"name": "fin", "kind": "fn", "params": [["o_o", None]], "dataOuts": ["done"], "body": {"b": "tag", "t": "fin"}})
        rng.shuffle(top)
        prog.append({"name": "root", "nodes": top, "bound": []})
        return prog

    @staticmethod
    def _same_signal_name_elsewhere(rng: random.Random) -> list[dict]:
        """An ordering signal exposed by one nested graph and awaited outside, while an UNRELATED nested graph uses the same signal name
        deeper inside and hides it (its selection names data outputs only): the ordering edge belongs to the container that exposes it."""
        fn = gen._fn_node
        ingest = {"name": "ingest", "nodes": [fn("fetch", [["x", None]], ["data"], {"b": "tag", "t": "fetch"}, emits=["done"])], "bound": []}
        sink = {"name": "sink", "nodes": [fn("flush", [["y", None]], ["z"], {"b": "tag", "t": "flush"}, emits=["done"])], "bound": [], "selected": ["z"]}
        prog = [ingest, sink]
        archive_nodes = [{"name": "sink", "kind": "graph", "inner": 1}, fn("pack", [["z", None]], ["packed"], {"b": "tag", "t": "pack"})]
        prog.append({"name": "archive", "nodes": archive_nodes, "bound": [], "selected": ["packed"]})
        top = [{"name": "ingest", "kind": "graph", "inner": 0}, {"name": "archive", "kind": "graph", "inner": 2},
               fn("announce", [["msg", None]], ["said"], {"b": "tag", "t": "announce"}, waitFor=["done"])]      # ordered after `ingest` by the signal alone
        if rng.random() < 0.5:
            top.append(fn("tail", [["packed", None], ["said", None]], ["end"], {"b": "tag", "t": "tail"}))
        rng.shuffle(top)
        prog.append({"name": "root", "nodes": top, "bound": []})
        return prog

    @staticmethod
    def _same_node_name_two_scopes(rng: random.Random) -> list[dict]:
        """A gate INSIDE a nested graph routes to a local node, and a root-level node carries the same NAME; the graph input both the inner
        gate and the root node read is still drawn into the root node (names are local to their graph, diagram ids are paths)."""
        fn = gen._fn_node
        shared = rng.choice(["score", "rank", "pick"])
        gate = {"name": "chk", "kind": "ifelse", "params": [["query", None]], "targets": [shared, "other"], "body": {"b": "lt", "k": 2}, "defaultOpen": rng.random() < 0.5}
        if rng.random() < 0.5:
            gate = {"name": "chk", "kind": "route", "params": [["query", None]], "targets": [shared, "other", "__END__"], "multiTarget": False, "fallback": None,
                    "defaultOpen": True, "body": {"b": "table", "rows": [[0, shared], [1, "other"]], "dflt": "__END__"}}
        inner_nodes = [gate, fn(shared, [["query", None]], ["in_a"], {"b": "tag", "t": "in_a"}), fn("other", [["query", None]], ["in_b"], {"b": "tag", "t": "in_b"})]
        rng.shuffle(inner_nodes)
        prog = [{"name": "sub", "nodes": inner_nodes, "bound": []}]
        top = [{"name": "sub", "kind": "graph", "inner": 0}, fn(shared, [["query", None]], ["top_v"], {"b": "tag", "t": "top"})]
        if rng.random() < 0.5:
            top.append(fn("tail", [["top_v", None]], ["end"], {"b": "tag", "t": "tail"}))
        rng.shuffle(top)
        prog.append({"name": "root", "nodes": top, "bound": []})
        return prog

    @staticmethod
    def _prefix_named_siblings(rng: random.Random) -> list[dict]:
        """Two SIBLING nested graphs one of whose names is a prefix of the other's (prep / prep_eval): every combination of expanded and
        collapsed is a valid state of the diagram."""
        fn = gen._fn_node
        a, b = rng.choice([("prep", "prep_eval"), ("rag", "rag2"), ("s", "s_long")])
        g_a = {"name": a, "nodes": [fn("load", [["src", None]], ["rows"], {"b": "tag", "t": "load"}), fn("tidy", [["rows", None]], ["clean"], {"b": "tag", "t": "tidy"})], "bound": []}
        g_b = {"name": b, "nodes": [fn("score", [["clean", None]], ["marks"], {"b": "tag", "t": "score"}), fn("avg", [["marks", None]], ["mean"], {"b": "tag", "t": "avg"})], "bound": []}
        top = [{"name": a, "kind": "graph", "inner": 0}, {"name": b, "kind": "graph", "inner": 1}]
        if rng.random() < 0.5:
            top.append(fn("report", [["mean", None]], ["text"], {"b": "tag", "t": "report"}))
        rng.shuffle(top)
        return [g_a, g_b, {"name": "root", "nodes": top, "bound": []}]

    @staticmethod
    def _container_feeds_renamed_container(rng: random.Random) -> list[dict]:
        """A nested graph's output is read ONLY by another nested graph, which takes it under a RENAMED input: the dependency is drawn in
        every mode and state."""
        fn = gen._fn_node
        g_a = {"name": "ingest", "nodes": [fn("load", [["src", None]], ["rows"], {"b": "tag", "t": "load"}), fn("embed", [["rows", None]], ["vectors"], {"b": "tag", "t": "embed"})],
               "bound": [], "selected": ["vectors"] if rng.random() < 0.5 else None}
        g_b = {"name": "indexer", "nodes": [fn("build", [["items", None]], ["index"], {"b": "tag", "t": "build"})], "bound": []}
        if g_a["selected"] is None:
            del g_a["selected"]
        top = [{"name": "ingest", "kind": "graph", "inner": 0}, {"name": "indexer", "kind": "graph", "inner": 1, "inRen": [["items", "vectors"]]}]
        if rng.random() < 0.5:
            top.append(fn("publish", [["index", None]], ["url"], {"b": "tag", "t": "publish"}))
        rng.shuffle(top)
        return [g_a, g_b, {"name": "root", "nodes": top, "bound": []}]

    @staticmethod
    def _two_level_output_renames(rng: random.Random) -> list[dict]:
        """ONE value renamed (with_outputs) at two nesting levels, read outside under its outermost name."""
        fn = gen._fn_node
        g0 = {"name": "core", "nodes": [fn("p", [["x", None]], ["a"], {"b": "tag", "t": "p"})], "bound": []}
        mid_nodes = [{"name": "core", "kind": "graph", "inner": 0, "outRen": [["a", "b"]]}]
        if rng.random() < 0.5:
            mid_nodes.append(fn("q", [["b", None]], ["c"], {"b": "tag", "t": "q"}))
        g1 = {"name": "mid", "nodes": mid_nodes, "bound": []}
        top = [{"name": "mid", "kind": "graph", "inner": 1, "outRen": [["b", "d"]]}, fn("use", [["d", None]], ["e"], {"b": "tag", "t": "use"})]
        rng.shuffle(top)
        return [g0, g1, {"name": "root", "nodes": top, "bound": []}]

    def cases(self, rng: random.Random, tier: str) -> Iterable[dict]:
        for _ in range(2):
            yield {"program": self._two_level_output_renames(rng)}
        for _ in range(3):
            yield {"program": self._container_feeds_renamed_container(rng)}
        for _ in range(3):
            yield {"program": self._prefix_named_siblings(rng)}
        for _ in range(3):
            yield {"program": self._same_node_name_two_scopes(rng)}
        for _ in range(4):
            yield {"program": self._hidden_inner_producer(rng)}
        for _ in range(3):
            yield {"program": self._same_signal_name_elsewhere(rng)}
        for _ in range(4):
            yield {"program": self._end_gates_two_levels(rng)}
        for _ in range(6):
            yield {"program": self._renamed_lookalike_outputs(rng)}
        forced = [True] * 6
        forced_in = [True] * 6
        forced_gated = 12
        forced_hide = 10
        while True:
            if forced_in or rng.random() < 0.05:
                if forced_in:
                    forced_in.pop()
                yield {"program": self._renamed_shared_input(rng)}
                continue
            if forced or rng.random() < 0.06:
                if forced:
                    forced.pop()
                yield {"program": self._multi_value_exchange(rng)}
                continue
            r = rng.random()
            if forced_gated:
                # a gated graph nested in a gated graph, END-routing gates on both levels, whatever the seed
                forced_gated -= 1
                r = 0.8
            if r < 0.55:
                c = gen.gen_dag_program(rng, max_nodes=6, depth=rng.choice([1, 1, 2, 2, 3, 3, 0]), allow_fed_default=False)
                program = c["program"]
            elif r < 0.75:
                program = gen.gen_gated_dag(rng, allow_mutex=False)["program"]
            else:
                # a gated graph (gates routing to END included) nested inside another gated graph
                inner = prefix_graph(gen.gen_gated_dag(rng, max_nodes=5, allow_mutex=False)["program"][0], "i_")
                outer = gen.gen_gated_dag(rng, max_nodes=5, allow_mutex=False)["program"][0]
                inner["name"] = "inner"
                outer["nodes"].append({"name": "sub", "kind": "graph", "inner": 0})
                rng.shuffle(outer["nodes"])
                program = [inner, outer]
            if r >= 0.75 and rng.random() < 0.35:
                # a value produced at the top and consumed ONLY two (or three) levels down; the containers on the way have other nodes too
                levels = rng.choice([2, 2, 3])
                prog = [{"name": "deep", "nodes": [{"name": "use", "kind": "fn", "params": [["v", None], ["b0", None]], "dataOuts": ["o"], "body": {"b": "tag", "t": "use"}}], "bound": []}]
                l0 = [{"name": "f0", "kind": "fn", "params": [["a0", None]], "dataOuts": ["b0"], "body": {"b": "tag", "t": "f0"}},
                      {"name": "C0", "kind": "graph", "inner": 0}]
                if rng.random() < 0.5:
                    l0.reverse()
                prog.append({"name": "L0", "nodes": l0, "bound": []})
                for lv in range(1, levels):
                    nodes_l = [{"name": f"g{lv}", "kind": "fn", "params": [[f"q{lv}", None]], "dataOuts": [f"w{lv}"], "body": {"b": "tag", "t": f"g{lv}"}},
                               {"name": f"C{lv}", "kind": "graph", "inner": len(prog) - 1}]
                    if rng.random() < 0.5:
                        nodes_l.reverse()
                    prog.append({"name": f"L{lv}", "nodes": nodes_l, "bound": []})
                top = [{"name": "prod", "kind": "fn", "params": [["x", None]], "dataOuts": ["v"], "body": {"b": "tag", "t": "prod"}},
                       {"name": f"C{levels}", "kind": "graph", "inner": len(prog) - 1},
                       {"name": "fin", "kind": "fn", "params": [["o", None]], "dataOuts": ["done"], "body": {"b": "tag", "t": "fin"}}]
                rng.shuffle(top)
                prog.append({"name": "root", "nodes": top, "bound": []})
                program = prog
            if rng.random() < 0.6:
                program = prefixify(rng, program)
            if forced_hide or rng.random() < 0.2:
                # hide=True on one or two function nodes (a sole taker of a graph input among them, when there is one): a hidden node is
                # no node of any state, and no edge may end or start there
                forced_hide = max(0, forced_hide - 1)
                program = copy.deepcopy(program)
                gsel = rng.choice(program)
                fns = [n for n in gsel["nodes"] if n["kind"] == "fn"]
                produced = {o for n in gsel["nodes"] for o in n.get("dataOuts", [])}
                takers: dict[str, list] = {}
                for n in gsel["nodes"]:
                    for q in n.get("params", []):
                        if q[0] not in produced:
                            takers.setdefault(q[0], []).append(n)
                sole = [ns[0] for ns in takers.values() if len(ns) == 1 and ns[0]["kind"] == "fn"]
                # (not a node whose output some wrapper exposes under ANOTHER name: the checker resolves a container's output to its inner
                #  producer by name and would take the container itself for the producer of the renamed value — not hidden, hence "must be drawn")
                renamed_away = {a for g_ in program for m in g_["nodes"] if m["kind"] == "graph" for a, _ in m.get("outRen", [])}
                for n in ([rng.choice(sole)] if sole and rng.random() < 0.7 else []) + (rng.sample(fns, 1) if fns else []):
                    if set(n.get("dataOuts", [])) & renamed_away:
                        continue
                    if sum(1 for m in gsel["nodes"] if not m.get("hide") and m is not n) >= 1:      # (a graph hidden altogether draws nothing)
                        n["hide"] = True
            root = program[-1]
            outs = list(dict.fromkeys(o for n in root["nodes"] if n["kind"] == "fn" for o in n.get("dataOuts", [])))
            if outs and rng.random() < 0.25 and not any(n["kind"] in ("route", "ifelse") for n in root["nodes"]):
                # the drawn graph is DERIVED (select) from a graph that was itself drawn before: its inputs are its own
                program = copy.deepcopy(program)
                program[-1]["selected"] = rng.sample(outs, 1)
            yield {"program": program}

    def impl(self, case: dict) -> Any:
        try:
            graphs = build.build_program(case["program"], Env())
            g = graphs[-1]
            fg = g.to_flat_graph()
            r = render_graph(fg)
        except Exception as e:  # noqa: BLE001
            return {"error": f"{type(e).__name__}: {e}"[:300]}
        flat = flat_payload(fg)
        spec = g.inputs
        fspec = fg.graph.get("input_spec", {})
        spec_diff = None
        if (list(fspec.get("required", ())), list(fspec.get("optional", ())), sorted(fspec.get("bound", {}))) != (list(spec.required), list(spec.optional), sorted(spec.bound)):
            spec_diff = f"flattened graph carries inputs {fspec}, the graph's own inputs are required={spec.required} optional={spec.optional} bound={sorted(spec.bound)}"
        graph_inputs = {"free": list(spec.required) + list(spec.optional), "bound": sorted(spec.bound)}
        in_edges: list[list] = []               # per diagram: [[params of the INPUT node, target id], ...]
        containers = list(r["meta"].get("expandableNodes", []))
        checks = []
        keys = []
        for key, nodes in r["meta"]["nodesByState"].items():
            edges = r["meta"]["edgesByState"].get(key)
            if edges is None:
                return {"error": f"state {key} has nodes but no edges entry"}
            st, sep = parse_state_key(key, containers)
            ns, es = diagram_payload(nodes, edges)
            checks.append({"state": st, "sep": sep, "nodes": ns, "edges": es})
            keys.append(key)
            params_of = {}
            for n in nodes:
                d = n.get("data", {})
                if d.get("nodeType") == "INPUT":
                    params_of[n["id"]] = [d.get("label")]
                elif d.get("nodeType") == "INPUT_GROUP":
                    params_of[n["id"]] = list(d.get("params") or [])
            in_edges.append([[params_of[e["source"]], e["target"]] for e in edges if e["source"] in params_of])
        extra = [k for k in r["meta"]["edgesByState"] if k not in r["meta"]["nodesByState"]]
        # Mermaid at every depth, both modes: parsed back into nodes / edges and decided by the same checker
        container_ids = [n["id"] for n in flat if n["kind"] == "GRAPH"]
        max_depth = max((cid.count("/") + 1 for cid in container_ids), default=0)
        for depth in range(0, max_depth + 1):
            for sep in (False, True):
                try:
                    src = g.to_mermaid(depth=depth, separate_outputs=sep)
                    src = getattr(src, "source", src)
                    ns, es, expanded = parse_mermaid(str(src), flat)
                except Exception as e:  # noqa: BLE001
                    return {"error": f"to_mermaid(depth={depth}): {type(e).__name__}: {e}"[:300]}
                st = [[cid, cid in expanded] for cid in container_ids]
                checks.append({"state": st, "sep": sep, "nodes": ns, "edges": es})
                params_of = {m.group(1): [q.split(":")[0].strip() for q in m.group(2).split("<br/>")] for m in _INPUT_RE.finditer(str(src))}
                in_edges.append([[params_of[e["source"]], e["target"]] for e in es if e["source"] in params_of])
                keys.append(f"mermaid:depth={depth}|sep:{int(sep)}")
        resp = self.driver().ask({"op": "viz", "flat": flat, "checks": checks})
        # Mermaid leaves out, by documented design (_get_input_targets), the input edge to a gate's target when the gate itself takes that input
        gate_fed = {n["id"]: sorted({p for m in flat if m["parent"] is None and n["id"] in m["targets"] for p in m["inputs"]}) for n in flat if n["parent"] is None}
        roots = [[n["id"], [p for p in n["inputs"] if p not in gate_fed.get(n["id"], ())], n["inputs"]] for n in flat if n["parent"] is None and not n["hidden"]]
        return {"spec_diff": spec_diff, "flat": [[n["id"], n["parent"]] for n in flat], "keys": keys, "graph_inputs": graph_inputs, "in_edges": in_edges, "roots": roots, "extra_edge_states": extra, "containers": containers,
                "results": resp["results"], "validStates": resp["validStates"], "n_deps": len(resp["deps"]),
                "sizes": [[len(c["nodes"]), len(c["edges"])] for c in checks]}

    def oracle(self, case: dict, obs: Any) -> str | None:
        if "error" in obs:
            return f"diagram data could not be produced for a valid graph: {obs['error']}"
        if obs.get("spec_diff"):
            return obs["spec_diff"]
        if obs["extra_edge_states"]:
            return f"states with edges but no nodes: {obs['extra_edge_states']}"
        # flattening: every nested node exactly once, under its parent
        want = sorted(expected_flat(case["program"], len(case["program"]) - 1), key=lambda x: x[0])
        got = sorted(((a, b) for a, b in obs["flat"]), key=lambda x: x[0])
        if got != want:
            return f"flattened graph lists {got}, expected each nested node once under its parent: {want}"
        # the set of expansion states = the parent-closed assignments (as enumerated by the proved validStates), both modes each
        model_states = sorted(",".join(f"{k}:{int(v)}" for k, v in st) for st in obs["validStates"])
        impl_states = sorted({(k.rsplit("|sep:", 1)[0] if "|sep:" in k else "") for k in obs["keys"] if not k.startswith("mermaid:")})
        norm = lambda s: ",".join(sorted(s.split(","))) if s else ""   # noqa: E731
        if sorted(map(norm, model_states)) != sorted(map(norm, impl_states)):
            return f"expansion states {impl_states} differ from the valid (parent-closed) assignments {model_states}"
        for key, res in zip(obs["keys"], obs["results"]):
            if not res["ok"]:
                return f"diagram for state {key!r} is not faithful: {res['explain'][:6]}"
        # graph inputs are the producers of the values the caller supplies: every top-level node that takes one must be reached from the
        # input's node (at the node itself or, for a container, anywhere inside it), and an input edge must lead to (or into) a taker
        free, every = obs["graph_inputs"]["free"], obs["graph_inputs"]["free"] + obs["graph_inputs"]["bound"]

        def within(t: str, nid: str) -> bool:
            return t == nid or t.startswith(nid + "/")

        for key, ies in zip(obs["keys"], obs["in_edges"]):
            for nid, ins, _all in obs["roots"]:
                for p in ins:
                    if p in free and not any(p in ps and within(t, nid) for ps, t in ies):
                        return f"diagram for state {key!r}: graph input {p!r} is taken by {nid!r} but no edge leads from the input to it (or into it); input edges: {ies}"
            for ps, t in ies:
                takers = [nid for nid, _ins, _all in obs["roots"] if within(t, nid)]
                if len(ps) == 1 and ps[0] in every and takers and not any(ps[0] in allins for nid, _ins, allins in obs["roots"] if nid in takers):
                    return f"diagram for state {key!r}: input edge {ps[0]} -> {t} leads to {takers[0]!r}, which does not take that input"
        return None

    def model(self, case: dict, driver: Any) -> Any:
        return None

    def compare(self, case: dict, i: Any, m: Any) -> str | None:
        return None

    def nontrivial(self, case: dict, obs: Any) -> bool:
        return "error" not in obs and len([k for k in obs["keys"] if not k.startswith("mermaid:")]) >= 4

    def features(self, case: dict, obs: Any) -> dict:
        if "error" in obs:
            return {"error": obs["error"][:30]}
        return {"states": min(len(obs["keys"]) // 2, 16), "depth": len(case["program"]) - 1, "deps": min(obs["n_deps"], 30) // 5 * 5,
                "gates": sum(1 for g in case["program"] for n in g["nodes"] if n["kind"] in ("route", "ifelse"))}

    def signature(self, case: dict, obs: Any, why: str) -> str:
        return "case:" + canonical_hash(case["program"])

    def sample(self, case: dict, obs: Any) -> Any:
        return {"program": case["program"], "states": obs.get("keys", [])[:4], "sizes": obs.get("sizes", [])[:4]}

    def neighbours(self, case: dict, rng: random.Random) -> Iterable[dict]:
        yield from self.cases(rng, "quick")


PROP = C20()
