"""C01 — acyclic dataflow: every output equals the dependency-order evaluation."""
from __future__ import annotations

import copy
import random
from typing import Any, Iterable

from .. import gen, impl, refeval
from ..build import Env, enc_val
from ..engine import Prop


def has_fed_default(program: list[dict]) -> bool:
    for g in program:
        produced = {o for n in g["nodes"] for o in refeval.node_outputs(program, n)}
        for n in g["nodes"]:
            if n["kind"] == "graph":
                ren = dict(n.get("inRen", []))
                for p in refeval.graph_inputs(program, n["inner"]):
                    if ren.get(p, p) in produced and refeval.inner_has_fallback(program, n["inner"], p):
                        return True
                continue
            ren = dict(n.get("inRen", []))
            for p, d in n.get("params", []):
                if d is not None and ren.get(p, p) in produced:
                    return True
    return False


class C01(Prop):
    id = "C01"
    level = "proof"
    nontrivial_rule = (
        "random gate-free DAG programs (1-8 nodes quick / 1-14 thorough; multi-output, side-effect-only, renamed, "
        "bound/defaulted/provided parameters, emit/wait_for ordering, nesting depth 0-2), both runners; "
        "non-trivial = >= 3 node invocations and >= 2 supersteps; distinct by canonical hash of (program, inputs, runner)"
    )
    budgets = {"quick": 300, "thorough": 6000}
    assumptions = ["generated values compare structurally (no bool/float/NaN)", "node functions are deterministic"]

    @staticmethod
    def _equal_distinct_defaults(rng: random.Random) -> dict:
        """Two (or three) nodes share a parameter nobody supplies, each with its OWN signature default; the defaults are equal under ==
        but distinct (1 / True, 0 / False): every node computes from its own default, whatever the node order."""
        pair = rng.choice([[1, True], [True, 1], [0, False], [False, 0]])
        nodes = [{"name": "price", "kind": "fn", "params": [["x", None], ["k", {"d": pair[0]}]], "dataOuts": ["scaled"], "body": {"b": "tag", "t": "price"}},
                 {"name": "show", "kind": "fn", "params": [["k", {"d": pair[1]}]] + ([["x", None]] if rng.random() < 0.5 else []), "dataOuts": ["rep"], "body": {"b": "tag", "t": "show"}}]
        if rng.random() < 0.5:
            nodes.append({"name": "third", "kind": "fn", "params": [["scaled", None], ["k", {"d": rng.choice(pair)}]], "dataOuts": ["t3"], "body": {"b": "tag", "t": "third"}})
        rng.shuffle(nodes)
        return {"program": [{"name": "g0", "nodes": nodes, "bound": []}], "values": [["x", rng.randint(0, 4)]]}

    @staticmethod
    def _nested_bound_outside_selection(rng: random.Random) -> dict:
        """The default selection names outputs of plain top-level nodes only; a nested graph whose one unsupplied input is BOUND INSIDE it is not
        needed for the selection, yet it is satisfiable and still runs exactly once (a selection narrows what is returned, not what runs)."""
        inner = {"name": "inner", "nodes": [{"name": "f", "kind": "fn", "params": [["k", None], ["x", None]], "dataOuts": ["o"], "body": {"b": "tag", "t": "f"}}],
                 "bound": [["k", rng.randint(1, 9)]]}
        ren = [["k", "kk"]] if rng.random() < 0.4 else []
        top = [{"name": "n1", "kind": "fn", "params": [["x", None]], "dataOuts": ["v1"], "body": {"b": "sum", "k": 1}},
               {"name": "w", "kind": "graph", "inner": 0, "inRen": ren, "outRen": []},
               {"name": "n2", "kind": "fn", "params": [["v1", None]], "dataOuts": ["v2"], "body": {"b": "tag", "t": "n2"}}]
        if rng.random() < 0.5:
            top.append({"name": "n3", "kind": "fn", "params": [["o", None]], "dataOuts": ["v3"], "body": {"b": "tag", "t": "n3"}})
        rng.shuffle(top)
        return {"program": [inner, {"name": "g1", "nodes": top, "bound": [], "selected": rng.choice([["v1"], ["v2"], ["v1", "v2"]])}], "values": [["x", rng.randint(0, 4)]]}

    def cases(self, rng: random.Random, tier: str) -> Iterable[dict]:
        for _ in range(4):
            c = self._nested_bound_outside_selection(rng)
            for runner in ("sync", "async"):
                yield {"program": c["program"], "values": c["values"], "runner": runner, "late_renames": rng.random() < 0.5}
        forced_eq = 4
        while True:
            if forced_eq or rng.random() < 0.04:
                forced_eq = max(0, forced_eq - 1)
                c = self._equal_distinct_defaults(rng)
                for runner in ("sync", "async"):
                    yield {"program": c["program"], "values": c["values"], "runner": runner, "late_renames": rng.random() < 0.5}
                continue
            mx = 8 if tier == "quick" else rng.choice([4, 8, 14])
            if rng.random() < 0.12:
                c = gen.gen_fed_cascade(rng)
            else:
                c = gen.gen_dag_program(rng, max_nodes=mx, depth=rng.choice([0, 0, 1, 2]))
            top = c["program"][-1]
            outs = [o for n in top["nodes"] if n["kind"] != "graph" for o in n.get("dataOuts", [])]
            if outs and len(c["program"]) == 1 and rng.random() < 0.3:
                # a default selection narrows what is RETURNED (and which inputs are needed), it does not switch nodes off: every node
                # whose inputs are satisfiable (e.g. through a binding) still runs exactly once
                top["selected"] = rng.sample(outs, rng.randint(1, min(2, len(outs))))
                already = {k for k, _ in top.get("bound", [])}
                ext = [kv for kv in c["values"] if kv[0] not in already]
                if ext and rng.random() < 0.7:
                    k, v = rng.choice(ext)
                    top["bound"] = list(top.get("bound", [])) + [[k, v]]
                    c["values"] = [kv for kv in c["values"] if kv[0] != k]
            wrappers = [n for n in top["nodes"] if n["kind"] == "graph"]
            if outs and wrappers and rng.random() < 0.35:
                # nested: the selection names outputs of plain top-level nodes only, and an input that only the nested graph consumes is
                # bound INSIDE it: the nested graph is not needed for the selection, yet it is satisfiable and still runs exactly once
                w = rng.choice(wrappers)
                cur_to_orig = {cur: orig for orig, cur in w.get("inRen", [])}
                inner = c["program"][w["inner"]]
                others: set[str] = set()
                for n in top["nodes"]:
                    if n is not w:
                        others |= {x for x, _ in refeval.node_inputs(c["program"], n)}
                w_inputs = {dict(w.get("inRen", [])).get(q, q) for q in refeval.graph_inputs(c["program"], w["inner"])}
                cands = [kv for kv in c["values"] if kv[0] in w_inputs and kv[0] not in others and kv[0] not in {k for k, _ in top.get("bound", [])}]
                if cands and not inner.get("selected"):
                    k, v = rng.choice(cands)
                    orig = cur_to_orig.get(k, k)
                    if orig not in {b for b, _ in inner.get("bound", [])}:
                        inner["bound"] = list(inner.get("bound", [])) + [[orig, v]]
                        c["values"] = [kv for kv in c["values"] if kv[0] != k]
                        top["selected"] = rng.sample(outs, rng.randint(1, min(2, len(outs))))
            for runner in ("sync", "async"):
                yield {"program": c["program"], "values": c["values"], "runner": runner, "late_renames": rng.random() < 0.5}

    def impl(self, case: dict) -> Any:
        return impl.run_case(case["program"], None, case["values"], {}, case["runner"], late_renames=case.get("late_renames", False))

    def model(self, case: dict, driver: Any) -> Any:
        return impl.model_obs(driver.ask({"op": "run", "program": case["program"], "values": case["values"], "runner": case["runner"]}))

    def compare(self, case: dict, i: Any, m: Any) -> str | None:
        for k in ("status", "values", "error", "raised"):
            if impl.differ(i.get(k), m.get(k)):
                return f"{k}: impl={i.get(k)!r} model={m.get(k)!r}"
        ic, mc = i["calls"], m["calls"]
        if case["runner"] == "async":
            ic, mc = impl.sort_calls(ic), impl.sort_calls(mc)
        if impl.differ(ic, mc):
            return f"call log differs: impl={ic!r} model={mc!r}"
        return None

    def oracle(self, case: dict, obs: Any) -> str | None:
        """Dependency-order evaluation of the description vs what the real run returned."""
        if obs.get("status") == "build-error":
            return f"valid program rejected at construction: {obs.get('error')}"
        program = case["program"]
        provided = {k: impl.py_val(v) for k, v in case["values"]}
        ref = refeval.eval_graph(program, len(program) - 1, provided, Env())
        if ref.error is not None:
            return None  # failing programs are C11's subject
        if obs["status"] != "completed":
            return f"run of an acyclic program with all inputs supplied ended {obs['status']} ({obs['error']})"
        exposed = refeval.graph_outputs(program, len(program) - 1)
        expect = {k: enc_val(v) for k, v in ref.values.items() if k in exposed}
        got = dict((k, v) for k, v in obs["values"])
        if impl.differ(got, expect) and got == expect and has_fed_default(program):
            # the results differ only by an equal value of another type (True vs 1) AND some parameter has a default that an upstream
            # node replaces: the version of a name does not advance when it is replaced by an EQUAL value, so consumers keep what they
            # computed from the earlier, equal one (known finding C01-F2 — its mechanism needs the fed default; the same kind of
            # difference WITHOUT one is another defect and is reported below)
            # which node is stale? one whose last invocation saw, under some parameter, a value that differs (strictly) from the final value of
            # that name. If the two differ in their TOP-LEVEL type (1 vs True) the version test itself ignores the type — that was repaired
            # (fix 55) and must not come back; if they are containers of the same type differing inside, it is the recorded residual.
            def top(v: Any) -> str:
                return type(v).__name__ if not isinstance(v, dict) else "/".join(sorted(v))[:3]

            last: dict[str, dict] = {}
            for fid, kw in obs["calls"]:
                last[fid] = dict((k, v) for k, v in kw)
            for fid, kw in last.items():
                for prm, seen in kw.items():
                    if prm in got and impl.differ(seen, got[prm]) and seen == got[prm] and top(seen) != top(got[prm]):
                        return (f"returned values differ from dependency-order evaluation: node {fid} last ran on {prm}={seen!r} although {prm} ended as the equal value of ANOTHER "
                                f"TYPE {got[prm]!r} (a top-level type change is a change): got {got!r}, expected {expect!r}")
            return f"returned values differ from dependency-order evaluation only by equal values of another type: got {got!r}, expected {expect!r}"
        if impl.differ(got, expect):
            return f"returned values differ from dependency-order evaluation: got {got!r}, expected {expect!r}"
        exp_calls = impl.sort_calls([[f, [[k, enc_val(v)] for k, v in kw.items()]] for f, kw in ref.calls])
        got_calls = impl.sort_calls(obs["calls"])
        if not has_fed_default(program):
            if impl.differ(got_calls, exp_calls):
                return f"node invocations differ: got {got_calls!r}, expected exactly once each {exp_calls!r}"
        else:
            ran = {c[0] for c in got_calls}
            if ran != {c[0] for c in exp_calls}:
                return f"set of executed nodes differs: got {sorted(ran)}, expected {sorted({c[0] for c in exp_calls})}"
        return None

    def signature(self, case: dict, obs: Any, why: str) -> str:
        from ..engine import canonical_hash

        if "only by equal values of another type" in why:
            return "site:update_value/equal-value-other-type"
        return "case:" + canonical_hash({"program": case["program"], "values": case["values"]})

    def expand_fixed(self, case: dict) -> list[dict]:
        return [dict(case, runner=r) for r in ("sync", "async")]

    def nontrivial(self, case: dict, obs: Any) -> bool:
        return len(obs.get("calls", [])) >= 3

    def features(self, case: dict, obs: Any) -> dict:
        return {
            "graphs": len(case["program"]),
            "nodes_root": len(case["program"][-1]["nodes"]),
            "calls": min(len(obs.get("calls", [])), 20),
            "runner": case["runner"],
            "status": obs.get("status"),
            "fed_default": has_fed_default(case["program"]),
        }

    def sample(self, case: dict, obs: Any) -> Any:
        return {"program": case["program"], "values": case["values"], "runner": case["runner"]}

    def shrink(self, case: dict) -> Iterable[dict]:
        # drop one node of the root graph at a time (cases that become invalid are skipped by the search)
        root = case["program"][-1]
        for i in range(len(root["nodes"])):
            c = copy.deepcopy(case)
            del c["program"][-1]["nodes"][i]
            yield c

    def neighbours(self, case: dict, rng: random.Random) -> Iterable[dict]:
        for _ in range(40):
            c = copy.deepcopy(case)
            c["values"] = [[k, gen.rand_value(rng)] for k, _ in case["values"]]
            yield c
        yield from self.cases(rng, "quick")


PROP = C01()
