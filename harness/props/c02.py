"""C02 — determinism: results independent of runner, schedule, concurrency limit, node order."""
from __future__ import annotations

import copy
import itertools
import random
from typing import Any, Iterable

from .. import gen, impl, sched
from ..engine import canonical_hash
from ..runprop import RunProp


def continue_map_with_failing_items(program: list[dict]) -> bool:
    for g in program:
        for n in g["nodes"]:
            if n["kind"] == "graph" and n.get("mapOver") and n.get("errMode") == "continue":
                inner = program[n["inner"]]
                if any(m.get("body", {}).get("b") in ("fail", "failIf", "failGe") for m in inner["nodes"]):
                    return True
    return False


def unique_outputs(program: list[dict]) -> bool:
    for g in program:
        seen: set[str] = set()
        for n in g["nodes"]:
            for o in n.get("dataOuts", []) + n.get("emits", []):
                if o in seen:
                    return False
                seen.add(o)
    return True


def gen_mutex_race(rng: random.Random) -> dict:
    """Two exclusive producers of ONE name behind a default-open gate whose condition comes from an upstream node: until the gate has run,
    both branches run in the same step; the later-LISTED write must win under every completion order and concurrency limit."""
    nodes = [
        {"name": "up", "kind": "fn", "params": [["x", None]], "dataOuts": ["flag"], "body": {"b": "sum", "k": 0}},
        {"name": "gate", "kind": "ifelse", "params": [["flag", None]], "targets": ["pa", "pb"], "body": {"b": "lt", "k": rng.randint(0, 3)}, "defaultOpen": True},
        {"name": "pa", "kind": "fn", "params": [["x", None]], "dataOuts": ["answer"], "body": {"b": "tag", "t": "pa"}},
        {"name": "pb", "kind": "fn", "params": [["x", None]], "dataOuts": ["answer"], "body": {"b": "tag", "t": "pb"}},
    ]
    if rng.random() < 0.5:
        nodes.append({"name": "use", "kind": "fn", "params": [["answer", None]], "dataOuts": ["fin"], "body": {"b": "tag", "t": "use"}})
    rng.shuffle(nodes)
    return {"program": [{"name": "g0", "nodes": nodes, "bound": []}], "values": [["x", rng.randint(0, 3)]], "cfg": {}}


def gen_shared_target(rng: random.Random) -> dict:
    """One node that is a target of TWO (or three) gates deciding differently: whether it runs must not depend on the order in which
    the gates are listed (some gate routes to it -> it runs)."""
    k = rng.choice([2, 2, 3])
    nodes: list[dict] = [{"name": "T", "kind": "fn", "params": [["x", None]], "dataOuts": ["t_out"], "body": {"b": "tag", "t": "T"}}]
    values = [["x", rng.randint(0, 3)]]
    for i in range(k):
        other = f"o{i}"
        to_t = rng.random() < 0.5
        dflt = "T" if to_t else rng.choice([other, "__END__"])
        nodes.append({"name": f"g{i}", "kind": "route", "params": [[f"c{i}", None]], "targets": ["T", other, "__END__"], "multiTarget": False, "fallback": None,
                      "defaultOpen": rng.random() < 0.6, "body": {"b": "table", "rows": [], "dflt": dflt}})
        nodes.append({"name": other, "kind": "fn", "params": [["x", None]], "dataOuts": [f"r{i}"], "body": {"b": "tag", "t": other}})
        values.append([f"c{i}", i])
    if rng.random() < 0.5:
        nodes.append({"name": "after", "kind": "fn", "params": [["t_out", None]], "dataOuts": ["fin"], "body": {"b": "tag", "t": "after"}})
    rng.shuffle(nodes)
    return {"program": [{"name": "g0", "nodes": nodes, "bound": []}], "values": values, "cfg": {}}


def gen_same_step_feed(rng: random.Random) -> dict:
    """A producer and its consumer READY IN THE SAME STEP, the producer listed first: the consumer starts on its own default (or, in the
    loop variant, on the previous turn's value) — every node of a step reads the values as they were when the step began."""
    if rng.random() < 0.5:
        d = rng.randint(5, 9)
        nodes = [{"name": "a", "kind": "fn", "params": [["x", None]], "dataOuts": ["va"], "body": {"b": "sum", "k": 1}},
                 {"name": "b", "kind": "fn", "params": [["va", {"d": d}], ["y", None]], "dataOuts": ["vb"], "body": {"b": "tag", "t": "b"}},
                 {"name": "c", "kind": "fn", "params": [["vb", None]], "dataOuts": ["vc"], "body": {"b": "tag", "t": "c"}}]
        if rng.random() < 0.5:
            nodes.insert(1, {"name": "a2", "kind": "fn", "params": [["va", {"d": d}]], "dataOuts": ["va2"], "body": {"b": "sum", "k": 2}})
        return {"program": [{"name": "g0", "nodes": nodes, "bound": []}], "values": [["x", rng.randint(0, 3)], ["y", rng.randint(0, 3)]], "cfg": {}}
    c = gen.gen_loop_bounded(rng)
    return c


def gen_late_waiter(rng: random.Random) -> dict:
    """A loop whose last body node emits a signal on every turn, and an observer that waits for that signal but whose other input comes
    out of a chain of plain nodes: the observer becomes runnable for the first time in a step in which the emitter is running AGAIN. It
    must wait for that run whatever the position of the two in the node list (listed first, listed last)."""
    fn = gen._fn_node
    limit = rng.randint(3, 5)
    L = 5       # the loop turns every 3 steps (gate, step, fold: fold runs in steps 2, 5, 8 ...); the chain delivers `late` at the end of step 4
    nodes = [{"name": "more", "kind": "ifelse", "params": [["n", None]], "targets": ["step", "__END__"], "body": {"b": "lt", "k": limit}, "defaultOpen": True},
             fn("step", [["n", None]], ["m"], {"b": "sum", "k": 1}),
             fn("fold", [["m", None]], ["n"], {"b": "first"}, emits=["folded"])]
    prev = "x"
    for j in range(L):
        out = "late" if j == L - 1 else f"t{j}"
        nodes.append(fn(f"s{j}", [[prev, None]], [out], {"b": "sum", "k": 1}))
        prev = out
    watch = fn("watch", [["n", None], ["late", None]], ["seen"], {"b": "tag", "t": "watch"}, waitFor=["folded"])
    nodes = [watch] + nodes if rng.random() < 0.5 else nodes + [watch]
    n = len(nodes)
    return {"program": [{"name": "g0", "nodes": nodes, "bound": []}], "values": [["n", 0], ["x", rng.randint(0, 3)]], "cfg": {},
            "orders": [list(range(n)), list(reversed(range(n)))]}


def gen_two_failures_mixed(rng: random.Random) -> dict:
    """Two nodes failing in ONE step, the first-listed one a nested graph (or an async function), the later one a plain synchronous function:
    both runners report the failure of the node listed first."""
    fn = gen._fn_node
    inner = {"name": "sub", "nodes": [fn("inner_bad", [["x", None]], ["iv"], {"b": "fail", "t": "E_inner_bad"})], "bound": []}
    first = {"name": "sub", "kind": "graph", "inner": 0} if rng.random() < 0.6 else fn("slow_bad", [["x", None]], ["iv"], {"b": "fail", "t": "E_slow_bad"})
    later = fn("plain_bad", [["x", None]], ["pv"], {"b": "fail", "t": "E_plain_bad"}, syncBody=True)
    ok = fn("fine", [["x", None]], ["fv"], {"b": "tag", "t": "fine"}, syncBody=rng.random() < 0.5)
    nodes = [first, later]
    nodes.insert(rng.randint(0, 2), ok)
    return {"program": [inner, {"name": "g1", "nodes": nodes, "bound": []}], "values": [["x", rng.randint(0, 3)]], "cfg": {"errMode": rng.choice(["raise", "continue"])}}


def gen_awaitable_value(rng: random.Random) -> dict:
    """A plain (non-async) function whose VALUE is an awaitable object: both runners hand that object to the consumers, neither awaits it."""
    nodes = [{"name": "make", "kind": "fn", "params": [["x", None]], "dataOuts": ["h"], "body": {"b": "lazy", "t": "make"}, "syncBody": True},
             {"name": "look", "kind": "fn", "params": [["h", None]], "dataOuts": ["seen"], "body": {"b": "tag", "t": "look"}}]
    if rng.random() < 0.5:
        nodes.append({"name": "pair", "kind": "fn", "params": [["h", None], ["x", None]], "dataOuts": ["both"], "body": {"b": "tag", "t": "pair"}})
    rng.shuffle(nodes)
    return {"program": [{"name": "g0", "nodes": nodes, "bound": []}], "values": [["x", rng.randint(0, 5)]], "cfg": {}, "pyOnly": True}


class C02(RunProp):
    id = "C02"
    level = "proof"
    nontrivial_rule = (
        "programs from all generators (DAG with nesting, gated, loops, failing nodes, mapping nodes) x configurations; each case runs "
        "the sync runner, the async runner under several completion orders on the controllable event loop (all permutations of the "
        "release policy for small steps via seeded/fifo/lifo policies), max_concurrency in {None,1,2,3} and, when output names are "
        "unique, permuted node lists; non-trivial = some step had >= 2 concurrently parked bodies; distinct by canonical hash"
    )
    budgets = {"quick": 120, "thorough": 2500}
    assumptions = ["real asyncio scheduling is replaced by the controllable loop: suspension happens only inside node bodies"]

    def cases(self, rng: random.Random, tier: str) -> Iterable[dict]:
        gens = [lambda: gen.gen_dag_program(rng, max_nodes=8, depth=rng.choice([0, 1, 2])), lambda: gen.gen_gated_cfg(rng),
                lambda: gen.gen_loop_bounded(rng), lambda: gen.gen_failing_dag(rng), lambda: gen.gen_map_node(rng)]
        gens = gens * 2 + [lambda: gen_mutex_race(rng), lambda: gen.gen_map_node(rng, force="raise-multi"), lambda: gen_shared_target(rng), lambda: gen_same_step_feed(rng)]
        # the dedicated families are visited several times per run, whatever the seed
        forced = [lambda: gen_shared_target(rng), lambda: gen_mutex_race(rng), lambda: gen.gen_map_node(rng, force="raise-multi"), lambda: gen_same_step_feed(rng)] * 3
        forced += [lambda: gen_awaitable_value(rng)] * 2 + [lambda: gen_late_waiter(rng)] * 3 + [lambda: gen_two_failures_mixed(rng)] * 3
        while True:
            c = forced.pop()() if forced else rng.choice(gens)()
            if continue_map_with_failing_items(c["program"]):
                # a continue-mode map keeps the outer run alive while items fail inside it; the sync runner stops a failing
                # item at its first failing node, the async runner lets that item's step finish: invocation multisets differ.
                # Recorded as finding C02-F1 (exact input in findings/); kept out of the random stream.
                continue
            n_sched = 4 if tier == "quick" else 10
            yield {"program": c["program"], "values": c["values"], "cfg": c.get("cfg", {}), "pyOnly": bool(c.get("pyOnly")), "orders": c.get("orders", []),
                   "schedules": [["fifo", 0], ["lifo", 0]] + [["random", rng.randint(0, 10**6)] for _ in range(n_sched - 2)],
                   "limits": [None, 1, rng.choice([2, 3])], "perm_seed": rng.randint(0, 10**6)}

    # one observation = the set of runs of one program
    def impl(self, case: dict) -> Any:
        runs: dict[str, Any] = {}
        base = dict(program=case["program"], root=None, values=case["values"], cfg=case["cfg"])
        runs["sync"] = impl.run_case(runner="sync", **base)
        peak = 0
        for pol, seed in case["schedules"]:
            for k in case["limits"]:
                ctl = sched.Controller(pol, seed)
                try:
                    o = impl.run_case(runner="async", ctl=ctl, max_concurrency=k, **base)
                except sched.Deadlock:
                    o = {"status": "deadlock", "values": [], "error": None, "raised": False, "calls": [], "pause": None, "warnings": 0}
                peak = max(peak, ctl.peak_parked)
                runs[f"async:{pol}:{seed}:k={k}"] = o
        if unique_outputs(case["program"]):
            r = random.Random(case["perm_seed"])
            prog = copy.deepcopy(case["program"])
            for g in prog:
                r.shuffle(g["nodes"])
            runs["sync:perm"] = impl.run_case(runner="sync", program=prog, root=None, values=case["values"], cfg=case["cfg"])
            for oi, order in enumerate(case.get("orders", [])):
                # dedicated families name the node orders that matter (the root graph's list, by index)
                prog = copy.deepcopy(case["program"])
                prog[-1]["nodes"] = [prog[-1]["nodes"][j] for j in order]
                for kind in ("sync", "async"):
                    runs[f"{kind}:perm{oi}"] = impl.run_case(runner=kind, program=prog, root=None, values=case["values"], cfg=case["cfg"])
        return {"runs": runs, "peak": peak}

    def oracle(self, case: dict, obs: Any) -> str | None:
        runs = obs["runs"]
        ref = runs["sync"]
        if ref["status"] == "build-error":
            return f"valid program rejected at construction: {ref.get('detail')}"
        for name, o in runs.items():
            if o["status"] == "deadlock":
                return f"{name}: the run never finished (idle loop, nothing parked)"
            if ":perm" in name and ref["status"] == "failed":
                # which of two same-step failures is reported follows the node order; only the status is order-independent
                if o["status"] != "failed":
                    return f"{name}: status {o['status']} differs from sync failed"
                continue
            if o["status"] != ref["status"] or o["error"] != ref["error"] or o["raised"] != ref["raised"]:
                return f"{name}: status/error {o['status']}/{o['error']}/raised={o['raised']} differs from sync {ref['status']}/{ref['error']}/raised={ref['raised']}"
            if ref["status"] == "failed":
                # every partial value of the sync runner is returned identically by the async runner
                if name.startswith("async"):
                    av = dict((k, v) for k, v in o["values"])
                    for k, v in ref["values"]:
                        if k in av and impl.differ(av[k], v):
                            writers = {c[0] for c in o["calls"]} & {f"{gi}:{n['name']}" for gi, g in enumerate(case["program"]) for n in g["nodes"] if k in n.get("dataOuts", [])}
                            if len(writers) >= 2:
                                return (f"{name}: partial value {k!r} = {av[k]!r} differs from sync's {v!r} — two producers of {k!r} ran in the failing step "
                                        "under the async runner, the sync runner stopped between them")
                            return f"{name}: partial value {k!r} = {av[k]!r} differs from sync's {v!r}"
                        if k not in av:
                            return f"{name}: sync partial value {k!r} missing from the async result"
                continue
            if impl.differ(dict((k, v) for k, v in o["values"]), dict((k, v) for k, v in ref["values"])):
                return f"{name}: values differ from the sync run: {o['values']!r} vs {ref['values']!r}"
            if impl.differ(impl.sort_calls(o["calls"]), impl.sort_calls(ref["calls"])):
                return f"{name}: multiset of node invocations differs from the sync run"
        return None

    def model(self, case: dict, driver: Any) -> Any:
        if case.get("pyOnly"):
            return None         # awaitable value objects are outside the model's value universe: judged by the oracle alone
        out = {}
        for runner in ("sync", "async"):
            r = driver.ask({"op": "run", "program": case["program"], "values": case["values"], "cfg": case["cfg"], "runner": runner})
            out[runner] = impl.model_obs(r)
        return out

    def compare(self, case: dict, i: Any, m: Any) -> str | None:
        if case.get("pyOnly"):
            return None
        runs = i["runs"]
        for name, o in runs.items():
            if ":perm" in name:
                continue
            mm = m["sync"] if name == "sync" else m["async"]
            for k in ("status", "error", "raised", "values"):
                if o.get(k) != mm.get(k):
                    return f"{name}.{k}: impl={o.get(k)!r} model={mm.get(k)!r}"
            if impl.sort_calls(o["calls"]) != impl.sort_calls(mm["calls"]) and not (o["status"] == "failed" and case["cfg"].get("errMode") != "continue" and False):
                # with a concurrency limit a failing step may leave later bodies un-started; calls are compared on non-failing runs
                if o["status"] != "failed":
                    return f"{name}: call multiset differs from the model"
        return None

    def nontrivial(self, case: dict, obs: Any) -> bool:
        return obs["peak"] >= 2

    def features(self, case: dict, obs: Any) -> dict:
        return {"peak_parked": obs["peak"], "status": obs["runs"]["sync"]["status"], "runs": len(obs["runs"]), "perm": "sync:perm" in obs["runs"]}

    def signature(self, case: dict, obs: Any, why: str) -> str:
        if "ran in the failing step under the async runner, the sync runner stopped between them" in why:
            return "site:failing-step/duplicate-producers"       # one mechanism (known finding C02-F2), whatever the program
        return "case:" + canonical_hash({"program": case["program"], "values": case["values"], "cfg": case["cfg"]})

    def sample(self, case: dict, obs: Any) -> Any:
        return {"program": case["program"], "values": case["values"], "cfg": case["cfg"], "schedules": case["schedules"], "limits": case["limits"]}

    def expand_fixed(self, case: dict) -> list[dict]:
        c = dict(case)
        c.setdefault("cfg", {})
        c.setdefault("schedules", [["fifo", 0], ["lifo", 0], ["random", 1]])
        c.setdefault("limits", [None, 1, 2])
        c.setdefault("perm_seed", 1)
        return [c]

    def neighbours(self, case: dict, rng: random.Random) -> Iterable[dict]:
        for _ in range(20):
            c = copy.deepcopy(case)
            c["schedules"] = [["random", rng.randint(0, 10**6)] for _ in range(4)]
            c["perm_seed"] = rng.randint(0, 10**6)
            yield c
        yield from self.cases(rng, "quick")


PROP = C02()
