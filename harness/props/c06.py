"""C06 — renames are transparent: only wiring names change, never what is computed."""
from __future__ import annotations

import asyncio
import copy
import random
from typing import Any, Iterable

from .. import build, common, gen, impl
from ..build import Env, enc_val, py_val
from ..engine import Prop

common.use_repo()
from hypergraph import AsyncRunner, Graph, SyncRunner  # noqa: E402

POOL = ["a", "b", "c", "d", "t", "u", "x", "y", "z"]


def rand_batch(rng: random.Random, cur: list[str], invalid_p: float = 0.15) -> list[list[str]]:
    """A partial map over the current names: permutations, chains through temporaries, re-use of freed names."""
    k = rng.randint(0, len(cur))
    olds = rng.sample(cur, k)
    r = rng.random()
    if r < 0.3 and k >= 2:
        news = olds[1:] + olds[:1]                      # rotation / swap
    elif r < 0.4:
        news = list(olds)                               # identity pairs
    else:
        news = [rng.choice(POOL) for _ in olds]
    batch = [[o, n] for o, n in zip(olds, news)]
    if rng.random() < invalid_p:
        if rng.random() < 0.5:
            batch.append([rng.choice(["nope", "q9"]), rng.choice(POOL)])   # unknown key
        elif cur:
            batch = [[rng.choice(cur), rng.choice(cur)]]                    # likely collision
    return batch


def truth_apply(cur: list[str], batch: list[list[str]]) -> list[str] | None:
    """Ground truth of one rename call (simultaneous substitution), None when it must be rejected."""
    m = dict(batch)
    if any(o not in cur for o in m):
        return None
    new = [m.get(c, c) for c in cur]
    if len(set(new)) != len(new):
        return None
    return new


class C06(Prop):
    id = "C06"
    level = "proof"
    nontrivial_rule = (
        "random rename histories (optional constructor batch + 1-6 call batches: partial injective maps incl. swaps, rotations, "
        "identity pairs, chains through temporaries, re-use of freed names, ~15% invalid batches) on function nodes, gates, "
        "interrupts (multi-output ones answered by a handler dict included) and nested-graph nodes (inputs and outputs; map_over follows); non-trivial = at least one accepted batch that "
        "changes a name; distinct by canonical hash of the case"
    )
    budgets = {"quick": 400, "thorough": 6000}
    assumptions = ["node functions are generated; values are small immutable data"]

    # ---------------------------------------------------------------- cases
    def cases(self, rng: random.Random, tier: str) -> Iterable[dict]:
        # whatever the seed: a CONSTRUCTOR rename that sends a parameter onto the name of another one (two parameters answering to one name)
        # is refused like the same rename through with_inputs()
        for target in ("fn", "route", "interrupt"):
            a, b = rng.sample(POOL, 2)
            yield {"target": target, "orig": [a, b], "defaults": {b: 7}, "ctor": [[a, b]], "ctorInvalid": True, "batches": [], "mapOver": [], "omit": [], "seedvals": 1,
                   "use_first": False, "use_between": False}
        # whatever the seed: a constructor rename followed by with_inputs() calls that chain onto it, played in a FRESH interpreter (the first
        # rename call of a process is a call like any other)
        for target in ("fn", "route", "interrupt"):
            a, b, c = rng.sample(POOL, 3)
            base = {"target": target, "defaults": {}, "mapOver": [], "omit": [], "seedvals": rng.randint(0, 50), "use_first": False, "use_between": False, "freshProc": True}
            yield dict(base, orig=[a, b], ctor=[[a, b], [b, a]], batches=[[[a, b], [b, a]]])          # a swap at construction, undone by a later swap
            yield dict(base, orig=[a], defaults={a: 11}, ctor=[[a, b]], batches=[[[b, c]]])             # a stepping stone: a -> b at construction, b -> c later
        # whatever the seed: TWIN histories — the same (old, new) pairs applied once as SEQUENTIAL calls on one node and once as ONE parallel
        # batch on another node of the same process (a swap / a shift): what a history means depends on how it was batched
        for target in ("fn", "graph", "fn-out", "graph-out", "interrupt"):
            a, b, c = rng.sample(POOL, 3)
            for pairs in ([[a, b], [b, a]], [[a, b], [b, c]]):
                base = {"target": target, "defaults": {}, "ctor": None, "mapOver": [], "omit": [], "seedvals": rng.randint(0, 50), "use_first": False, "use_between": False}
                yield dict(base, orig=[a], batches=[[pairs[0]], [pairs[1]]])                  # sequential: a -> b, then b -> (a | c)
                yield dict(base, orig=[a, b], batches=[[pairs[0], pairs[1]]])               # parallel: {a: b, b: (a | c)}
        while True:
            target = rng.choice(["fn", "fn", "route", "ifelse", "interrupt", "graph", "graph", "fn-out", "graph-out", "interrupt-out"])
            n = rng.randint(2 if target == "interrupt-out" else 1, 4)
            orig = rng.sample(POOL, n)
            defaults = {p: rng.randint(10, 99) for p in orig if rng.random() < 0.35}
            cur = list(orig)
            ctor = None
            if target in ("fn", "route", "ifelse", "interrupt") and rng.random() < 0.3:
                b = rand_batch(rng, cur, invalid_p=0.0)
                if truth_apply(cur, b) is not None:
                    ctor = b
                    cur = truth_apply(cur, b) or cur
            batches = []
            if rng.random() < 0.15 and ctor is None:
                # one name walks through temporaries and RETURNS to a name it held before (a -> t1 -> t2 -> t1 [-> a])
                p0 = rng.choice(cur)
                free = [q for q in POOL if q not in cur]
                if len(free) >= 2:
                    t1, t2 = rng.sample(free, 2)
                    walk = [[[p0, t1]], [[t1, t2]], [[t2, t1]]] + ([[[t1, p0]]] if rng.random() < 0.5 else [])
                    for b in walk:
                        batches.append(b)
                        cur = truth_apply(cur, b) or cur
                    if p0 not in defaults and rng.random() < 0.7:
                        defaults[p0] = rng.randint(10, 99)
            for _ in range(rng.randint(0 if batches else 1, 6 if tier == "thorough" else 4)):
                b = rand_batch(rng, cur)
                batches.append(b)
                cur = truth_apply(cur, b) or cur
            map_over = []
            if target == "graph" and rng.random() < 0.4:
                map_over = rng.sample(orig, rng.randint(1, len(orig)))
            yield {"target": target, "orig": orig, "defaults": defaults, "ctor": ctor, "batches": batches,
                   "mapOver": map_over, "omit": [p for p in defaults if rng.random() < 0.6], "seedvals": rng.randint(0, 50),
                   "use_first": rng.random() < 0.5, "use_between": rng.random() < 0.5}

    # ---------------------------------------------------------------- implementation
    def _node(self, case: dict, env: Env) -> Any:
        t = case["target"]
        orig = case["orig"]
        if t == "interrupt-out":
            # a multi-output interrupt whose handler answers with a dict keyed by the output names IT declared
            spec = {"name": "f", "kind": "interrupt", "params": [["inp", None]], "dataOuts": list(orig), "body": {"b": "handlerDict", "k": 5, "distinct": True}}
        elif t.endswith("-out"):
            spec = {"name": "f", "kind": "fn", "params": [["inp", None]], "dataOuts": list(orig), "body": {"b": "multi", "t": "f", "k": len(orig)} if len(orig) > 1 else {"b": "tag", "t": "f"}}
        else:
            kind = {"fn": "fn", "graph": "fn", "route": "route", "ifelse": "ifelse", "interrupt": "interrupt"}[t]
            spec = {"name": "f", "kind": kind, "params": [[p, ({"d": case["defaults"][p]} if p in case["defaults"] else None)] for p in orig],
                    "dataOuts": ["out"] if kind in ("fn", "interrupt") else [], "body": {"b": "tag", "t": "f"}}
            if kind == "route":
                spec.update(targets=["__END__"], body={"b": "table", "rows": [], "dflt": "__END__"})
            if kind == "ifelse":
                spec.update(targets=["__END__", "__END__"], body={"b": "lt", "k": 0})
                spec["targets"] = ["sink", "__END__"]
            if kind == "interrupt":
                spec["body"] = {"b": "handler", "k": 5}
            if case["ctor"] and t != "graph":
                spec["inRen"] = case["ctor"]
        node = build.build_node(spec, 0, [], env, async_bodies=False)
        if case.get("use_first") and t not in ("graph", "graph-out", "interrupt-out"):
            # use the node object before any rename call: read its cached views and place it in a graph
            _ = (node.inputs, node.outputs, getattr(node, "defaults", None))
            try:
                others = [build.build_node({"name": "sink", "kind": "fn", "params": [], "dataOuts": ["sunk"], "body": {"b": "const", "v": 1}}, 0, [], Env(), async_bodies=False)] if t == "ifelse" else []
                Graph([node] + others, name="warmup")
            except Exception:  # noqa: BLE001 - only a warm-up
                pass
        if t in ("graph", "graph-out"):
            inner = Graph([node], name="inner")
            node = inner.as_node(name="wrap")
            if case["mapOver"]:
                node = node.map_over(*case["mapOver"])
        return node

    def impl(self, case: dict) -> Any:
        from hypergraph.nodes._rename import RenameError

        if case.get("freshProc"):
            # the history is played in a FRESH interpreter: its first with_*() call is the first rename call of the whole process
            import json
            import os
            import subprocess
            import sys

            root = os.path.dirname(os.path.dirname(os.path.dirname(os.path.abspath(__file__))))
            r = subprocess.run([sys.executable, "-m", "harness.freshrun", "C06"], input=json.dumps(case), capture_output=True, text=True, cwd=root, timeout=120,
                               env=dict(os.environ))
            if "@@OBS@@" not in r.stdout:
                raise RuntimeError(f"fresh-process run failed: {r.stderr[-400:]}")
            return json.loads(r.stdout.split("@@OBS@@", 1)[1])
        env = Env()
        if case.get("ctorInvalid"):
            try:
                self._node(case, env)
                return {"ctor": "accepted"}
            except RenameError:
                return {"ctor": "RenameError"}
            except Exception as e:  # noqa: BLE001
                return {"ctor": "other:" + type(e).__name__}
        node = self._node(case, env)
        is_out = case["target"].endswith("-out")
        accepted = []
        for b in case["batches"]:
            if case.get("use_between"):
                build._exercise(node, env)      # the object is used (queried, placed in a graph) between rename calls
            try:
                node = node.with_outputs(dict(b)) if is_out else node.with_inputs(dict(b))
                accepted.append(True)
            except RenameError:
                accepted.append(False)
            except Exception as e:  # any other exception class is itself an observation
                accepted.append(type(e).__name__)
        obs: dict[str, Any] = {"accepted": accepted, "inputs": list(node.inputs), "outputs": list(node.outputs)}
        if not is_out:
            obs["defaulted"] = sorted(p for p in node.inputs if node.has_default_for(p))
            if case["target"] == "graph" and case["mapOver"]:
                obs["mapOver"] = list(node.map_config[0])
        # run it: values addressed by CURRENT names
        nodes = [node]
        if case["target"] == "ifelse":
            nodes.append(build.build_node({"name": "sink", "kind": "fn", "params": [], "dataOuts": ["sunk"], "body": {"b": "const", "v": 1}}, 0, [], env, async_bodies=False))
        try:
            g = Graph(nodes, name="outer")
        except Exception as e:
            obs["graph_error"] = type(e).__name__
            return obs
        vals = {}
        base = case["seedvals"]
        mapped_cur = set(obs.get("mapOver", []))
        for i, p in enumerate(node.inputs):
            v: Any = base + i
            if p in mapped_cur:
                v = [base + i, base + i + 100]
            vals[p] = v
        omit_orig = set(case["omit"])
        # omitted: parameters (identified by ORIGINAL name through the ground truth) whose default should kick in
        cur_of = self._truth(case)
        for o in omit_orig:
            c = cur_of.get(o)
            if c in vals and c not in mapped_cur:
                del vals[c]
        obs["sent"] = [[k, enc_val(v)] for k, v in vals.items()]
        try:
            if case["target"] in ("interrupt", "interrupt-out"):
                res = asyncio.run(AsyncRunner().run(g, vals))
            else:
                res = SyncRunner().run(g, vals)
            obs["status"] = str(getattr(res.status, "value", res.status)).lower()
            obs["values"] = [[k, enc_val(v)] for k, v in res.values.items()]
        except Exception as e:
            obs["status"] = "raised:" + type(e).__name__
            obs["values"] = []
        obs["calls"] = [[f, [[k, enc_val(v)] for k, v in kw.items()]] for f, kw in env.log]
        return obs

    # ---------------------------------------------------------------- ground truth + oracle
    def _truth(self, case: dict) -> dict[str, str]:
        cur = list(case["orig"])
        if case["ctor"]:
            cur = truth_apply(cur, case["ctor"]) or cur
        for b in case["batches"]:
            cur = truth_apply(cur, b) or cur
        return dict(zip(case["orig"], cur))

    def oracle(self, case: dict, obs: Any) -> str | None:
        if case.get("ctorInvalid"):
            return None if obs["ctor"] == "RenameError" else \
                f"constructor rename {case['ctor']} gives two parameters one name; it was {obs['ctor']} (with_inputs refuses the same rename with RenameError)"
        truth = self._truth(case)
        cur = list(case["orig"])
        if case["ctor"]:
            cur = truth_apply(cur, case["ctor"]) or cur
        exp_acc = []
        for b in case["batches"]:
            nxt = truth_apply(cur, b)
            exp_acc.append(nxt is not None)
            cur = nxt or cur
        if obs["accepted"] != exp_acc:
            return f"acceptance of rename calls: got {obs['accepted']}, expected {exp_acc}"
        is_out = case["target"].endswith("-out")
        names = obs["outputs"] if is_out else obs["inputs"]
        if sorted(names) != sorted(truth.values()) or (case["target"] not in ("graph",) and names != [truth[o] for o in case["orig"]]):
            return f"current names {names} differ from ground truth {[truth[o] for o in case['orig']]}"
        if "graph_error" in obs:
            return f"renamed node rejected by Graph: {obs['graph_error']}"
        if not str(obs.get("status", "")).startswith("completed"):
            return f"run of the renamed node ended {obs.get('status')}"
        sent = dict((k, v) for k, v in obs["sent"])
        if is_out:
            vals = dict((k, v) for k, v in obs["values"])
            n = len(case["orig"])
            for i, o in enumerate(case["orig"]):
                got = vals.get(truth[o])
                inp = sent.get("inp")
                exp = {"t": ["f", i, inp]} if n > 1 else {"t": ["f", inp]}
                if case["target"] == "interrupt-out":
                    exp = 5 + i
                if case["target"] == "graph-out" or True:
                    if impl.differ(got, exp):
                        return f"output originally named {o!r} (now {truth[o]!r}) holds {got!r}, expected {exp!r}"
            return None
        # inputs: the wrapped function must receive, under each ORIGINAL parameter, the value addressed by its current name,
        # or its default when omitted
        # (a mapped-over parameter of a nested-graph node has no usable default: the signature default inside is one item, not the
        #  collection to map over — such an input is required, under every name it is given)
        exp_def = sorted(truth[o] for o in case["defaults"] if not (case["target"] == "graph" and o in case["mapOver"]))
        if obs["defaulted"] != exp_def:
            return f"defaults do not follow their parameter: defaulted inputs {obs['defaulted']}, expected {exp_def}"
        mapped = set(case["mapOver"])
        calls = [kw for f, kw in obs["calls"] if f == "0:f"]
        n_exp = 2 if mapped else 1
        if len(calls) != n_exp:
            return f"wrapped function called {len(calls)} times, expected {n_exp}"
        if "mapOver" in obs and sorted(obs["mapOver"]) != sorted(truth[o] for o in mapped):
            return f"map_over names {obs['mapOver']} do not follow renames (expected {sorted(truth[o] for o in mapped)})"
        for idx, kw in enumerate(calls):
            got = dict((k, v) for k, v in kw)
            for o in case["orig"]:
                c = truth[o]
                if c in sent:
                    exp = sent[c]["l"][idx] if o in mapped else sent[c]
                else:
                    exp = case["defaults"][o]
                if got.get(o) != exp:
                    return f"parameter {o!r} (external name {c!r}) received {got.get(o)!r}, expected {exp!r}"
        return None

    # ---------------------------------------------------------------- model
    def model(self, case: dict, driver: Any) -> Any:
        if case.get("ctorInvalid"):
            return None
        is_out = case["target"].endswith("-out")
        kind = "outputs" if is_out else "inputs"
        acc_batches: list = []
        accepted = []
        ctor = case["ctor"] if case["target"] != "graph" else None
        for b in case["batches"]:
            r = driver.ask({"op": "rename", "orig": case["orig"], "ctor": ctor, "batches": acc_batches + [b], "kind": kind})
            accepted.append(bool(r["valid"]))
            if r["valid"]:
                acc_batches.append(b)
        r = driver.ask({"op": "rename", "orig": case["orig"], "ctor": ctor, "batches": acc_batches, "kind": kind})
        return {"accepted": accepted, "current": r["current"], "track": r["track"], "resolve": r["resolve"], "forward": r["outputsForward"], "reverse": r["reverse"]}

    def compare(self, case: dict, i: Any, m: Any) -> str | None:
        if case.get("ctorInvalid"):
            return None
        if i["accepted"] != m["accepted"]:
            return f"accepted: impl={i['accepted']} model={m['accepted']}"
        names = i["outputs"] if case["target"].endswith("-out") else i["inputs"]
        if case["target"] != "graph" and names != m["current"]:
            return f"current names: impl={names} model={m['current']}"
        if sorted(names) != sorted(m["current"]):
            return f"current names (as sets): impl={names} model={m['current']}"
        # the model's reverse map must send every current name to the original the implementation delivers to
        calls = [kw for f, kw in i.get("calls", []) if f == "0:f"]
        if calls and not case["target"].endswith("-out"):
            sent = dict((k, v) for k, v in i["sent"])
            res = dict(m["resolve"])
            got = dict((k, v) for k, v in calls[0])
            for c, v in sent.items():
                o = res.get(c, c)
                if isinstance(v, dict) and "l" in v and o in case["mapOver"]:
                    v = v["l"][0]
                if got.get(o) != v:
                    return f"model resolves external {c!r} to {o!r} but the implementation delivered {got!r}"
        return None

    def nontrivial(self, case: dict, obs: Any) -> bool:
        if case.get("ctorInvalid"):
            return True
        t = self._truth(case)
        return any(o != c for o, c in t.items())

    def features(self, case: dict, obs: Any) -> dict:
        if case.get("ctorInvalid"):
            return {"target": case["target"], "ctorInvalid": obs["ctor"]}
        return {"target": case["target"], "batches": len(case["batches"]), "rejected": sum(1 for a in obs["accepted"] if a is not True),
                "ctor": case["ctor"] is not None, "names": len(case["orig"]), "mapOver": bool(case["mapOver"])}

    def neighbours(self, case: dict, rng: random.Random) -> Iterable[dict]:
        for _ in range(30):
            c = copy.deepcopy(case)
            c["seedvals"] = rng.randint(0, 50)
            c["omit"] = [p for p in c["defaults"] if rng.random() < 0.5]
            yield c
        yield from self.cases(rng, "quick")


PROP = C06()
