"""C07 — immutability: derivation operations never change the object they are called on."""
from __future__ import annotations

import copy
import random
import warnings
from typing import Any, Iterable

from .. import build, common
from ..build import Env, enc_val, py_val
from ..engine import Prop, canonical_hash

common.use_repo()
from hypergraph import Graph, SyncRunner  # noqa: E402

POOL = ["a", "b", "c", "d", "p", "q", "r", "s", "t", "u"]


def observe(o: Any) -> Any:
    """Public observation of a graph or node object (JSON-able, order as exposed)."""
    if isinstance(o, Graph):
        spec = o.inputs
        run = None
        if not spec.entrypoints:
            vals = {k: 1 for k in spec.required}
            with warnings.catch_warnings():
                warnings.simplefilter("ignore")
                try:
                    r = SyncRunner().run(o, vals, error_handling="continue", max_iterations=30)
                    run = [str(getattr(r.status, "value", r.status)), sorted((k, repr(v)) for k, v in r.values.items())]
                except Exception as e:  # noqa: BLE001
                    run = ["raised", type(e).__name__]
                # the same with a run-time selection (validation and scoping are then recomputed for that selection)
                if o.outputs:
                    try:
                        r = SyncRunner().run(o, vals, select=[o.outputs[-1]], error_handling="continue", max_iterations=30)
                        run.append([str(getattr(r.status, "value", r.status)), sorted((k, repr(v)) for k, v in r.values.items())])
                    except Exception as e:  # noqa: BLE001
                        run.append(["raised", type(e).__name__])
        return {"graph": [observe(n) for n in o.nodes.values()], "name": o.name, "bound": sorted((k, enc_val(v)) for k, v in spec.bound.items()),
                "own_bound": None, "selected": list(o.selected) if o.selected is not None else None,
                "entry": list(o.entrypoints_config) if o.entrypoints_config is not None else None,
                "required": list(spec.required), "optional": list(spec.optional), "outputs": list(o.outputs), "hash": o.definition_hash, "run": run}
    d = {"node": o.name, "inputs": list(o.inputs), "outputs": list(o.outputs)}
    inner = getattr(o, "graph", None)
    if isinstance(inner, Graph):
        d["graphName"] = inner.name        # the wrapped graph is shared with every sibling wrapper: its own name is part of what they see
    mc = getattr(o, "map_config", None)
    d["mapOver"] = list(mc[0]) if mc else None
    # behaviour: how current input names are routed to the wrapped callable / inner graph, and what the node computes on its own
    probe = {k: 10 + j for j, k in enumerate(o.inputs)}
    try:
        d["params"] = sorted((k, repr(v)) for k, v in o.map_inputs_to_params(dict(probe)).items())
    except Exception as e:  # noqa: BLE001
        d["params"] = ["raised", type(e).__name__]
    d["hash"] = getattr(o, "definition_hash", None)
    try:
        d["defaults"] = sorted((q, repr(o.get_default_for(q))) for q in o.inputs if o.has_default_for(q))
    except Exception as e:  # noqa: BLE001
        d["defaults"] = ["raised", type(e).__name__]
    probe = {k: v for k, v in probe.items() if not o.has_default_for(k)} if isinstance(d["defaults"], list) and d["defaults"][:1] != ["raised"] else probe
    if mc:
        probe = {k: ([v, v + 100] if k in mc[0] else v) for k, v in probe.items()}
    with warnings.catch_warnings():
        warnings.simplefilter("ignore")
        try:
            r = SyncRunner().run(Graph([o], name="probe"), probe, error_handling="continue", max_iterations=30)
            d["run"] = [str(getattr(r.status, "value", r.status)), sorted((k, repr(v)) for k, v in r.values.items())]
        except Exception as e:  # noqa: BLE001
            d["run"] = ["raised", type(e).__name__]
    return d


class C07(Prop):
    id = "C07"
    level = "proof"
    nontrivial_rule = (
        "random histories (length <= 8 quick / <= 25 thorough) of derivation operations on generated graphs and nodes (bind, unbind, select, "
        "with_entrypoint, add_nodes, as_node, with_name, with_inputs, with_outputs, map_over) interleaved with cache-filling reads (inputs, "
        "definition_hash) and runs; after EVERY operation the public observation (nodes, inputs/outputs, bindings, selection, entry points, "
        "required/optional, structure hash, run result) of EVERY object created so far is compared with its snapshot and with the heap model; "
        "non-trivial = at least 3 derivations from a common ancestor; distinct by canonical hash"
    )
    budgets = {"quick": 200, "thorough": 3000}

    def cases(self, rng: random.Random, tier: str) -> Iterable[dict]:
        # whatever the seed: a FRESH wrapper (no rename history yet, possibly mapped) whose first rename is a parallel swap — the wrapper it
        # was derived from must not change
        # whatever the seed: a GATE added (add_nodes) to a graph that has already been run — routing of the derived graph must be the
        # routing of the same graph built fresh (the gate says END for the probe values: its target must not run)
        for _ in range(3):
            nodes = [{"name": "f0", "inputs": ["x"], "outputs": ["o0"], "defaults": {}},
                     {"name": "f1", "inputs": ["o0", "y1"] if rng.random() < 0.5 else ["x"], "outputs": ["o1"], "defaults": {}}]
            yield {"nodes": nodes, "n_ops": rng.randint(1, 3), "seed": rng.randint(0, 10**6), "prefix": rng.choice([["addGate"], ["bind", "addGate"], ["select", "addGate"]]),
                   "lateGate": {"name": "gt", "target": rng.choice(["f0", "f1"]), "k": rng.choice([0, 1])}}
        # whatever the seed: two bound names one of which CONTAINS the other (x / ax, k / top_k); releasing the longer one leaves the shorter bound
        for short, long_ in (("x", "ax"), ("k", "top_k")):
            nodes = [{"name": "f0", "inputs": [short, long_], "outputs": ["o0"], "defaults": {}},
                     {"name": "f1", "inputs": ["o0", short], "outputs": ["o1"], "defaults": {}}]
            yield {"nodes": nodes, "n_ops": rng.randint(0, 2), "seed": rng.randint(0, 10**6), "prefix": [f"bind:{short}", f"bind:{long_}", f"unbind:{long_}"]}
        # whatever the seed: the gated graph has been RUN, then with_entrypoint names the gate's target — the receiver keeps its routing
        for tgt in ("f0", "f1"):
            nodes = [{"name": "f0", "inputs": ["x"], "outputs": ["o0"], "defaults": {}},
                     {"name": "f1", "inputs": ["x"], "outputs": ["o1"], "defaults": {}}]
            yield {"nodes": nodes, "n_ops": rng.randint(0, 2), "seed": rng.randint(0, 10**6), "prefix": ["addGate", "entryTarget"],
                   "lateGate": {"name": "gt", "target": tgt, "k": rng.choice([0, 1])}}
        for prefix in (["asNode", "withName"], ["asNode", "swapInputs"], ["asNode", "mapOver", "swapInputs"], ["asNode", "swapOutputs"], ["asNode", "swapInputs", "swapInputs"]):
            nodes = [{"name": "f0", "inputs": ["x", "y0"], "outputs": ["o0"], "defaults": {}},
                     {"name": "f1", "inputs": ["o0", "y1"], "outputs": ["o1"], "defaults": {"y1": rng.randint(20, 29)} if rng.random() < 0.5 else {}}]
            yield {"nodes": nodes, "n_ops": rng.randint(2, 4), "seed": rng.randint(0, 10**6), "prefix": prefix}
        while True:
            k = rng.randint(1, 3)
            nodes = []
            dflt: dict[str, Any] = {}
            avail = ["x"]
            for i in range(k):
                ins = rng.sample(avail, rng.randint(1, min(2, len(avail))))
                out = f"o{i}"
                for q in ins:
                    if q != "x" and q not in dflt:
                        dflt[q] = rng.randint(20, 29) if rng.random() < 0.4 else None      # one default per name, shared by all its consumers
                nodes.append({"name": f"f{i}", "inputs": ins, "outputs": [out], "defaults": {q: dflt[q] for q in ins if dflt.get(q) is not None}})
                avail.append(out)
                if rng.random() < 0.4:
                    avail.append(f"y{i}")
            case = {"nodes": nodes, "n_ops": rng.randint(3, 8 if tier == "quick" else 25), "seed": rng.randint(0, 10**6)}
            if rng.random() < 0.15:
                # scripted opening: bind on the base graph, wrap it as a node, build a NEW graph around that node (the inner binding surfaces
                # in the outer spec), then derive from the outer graph — unbind of the surfaced name included
                case["prefix"] = ["bind", "asNode", "wrap", rng.choice(["unbind", "bind", "select"]), "unbind"]
            yield case

    # ---------------------------------------------------------------- the history is generated WHILE it is executed (ops must be valid for
    # the real receiver), then stored in the observation so that the model replays exactly the same ops
    def impl(self, case: dict) -> Any:
        rng = random.Random(case["seed"])
        env = Env()
        objs: list[Any] = []
        for n in case["nodes"]:
            spec = {"name": n["name"], "kind": "fn", "params": [[p, ({"d": n["defaults"][p]} if p in n.get("defaults", {}) else None)] for p in n["inputs"]],
                    "dataOuts": n["outputs"], "body": {"b": "tag", "t": n["name"]}}
            objs.append(build.build_node(spec, 0, [], env, async_bodies=False))
        g0 = Graph(list(objs), name="g0")
        objs.append(g0)
        self._gate = self._make_gate(case, env)
        snaps = [observe(o) for o in objs]
        ops: list[dict] = []
        rows: list[list] = []
        drift = None
        fresh = None
        extra = 0
        prefix = list(case.get("prefix", []))
        for _ in range(case["n_ops"] + len(prefix)):
            force = prefix.pop(0) if prefix else None
            i = rng.randrange(len(objs))
            if rng.random() < 0.6:      # favour graphs and nested-graph nodes (most objects are plain function nodes)
                pref = [k for k, o in enumerate(objs) if isinstance(o, Graph) or type(o).__name__ == "GraphNode"]
                i = rng.choice(pref)
            if force is not None:
                i = len(objs) - 1       # the scripted opening works on the object made last (first step: the base graph)
            recv = objs[i]
            op, res = self._apply(rng, recv, i, objs, extra, force)
            if op is None:
                continue
            if op["t"] == "addNode":
                extra += 1
            ops.append(op)
            if op["t"] not in ("readInputs", "readHash") and res is recv and fresh is None:
                fresh = f"{op['t']} on object {i} returned the receiver itself"
            objs.append(res)
            snaps.append(observe(res))
            row = [observe(o) for o in objs]
            rows.append(row)
            for j, (now, before) in enumerate(zip(row, snaps)):
                if now != before and drift is None:
                    drift = f"after {op['t']} on object {i}, object {j} changed: {before} -> {now}"
        # independence of siblings: a derivation's result depends on its receiver and arguments only, so repeating every operation at
        # the END of the history (after all the other objects were derived from the same ancestors) must give the same observation
        influence = None
        base = len(case["nodes"]) + 1
        for r, op in enumerate(ops):
            if op["t"] in ("readInputs", "readHash"):
                continue
            try:
                again = self._reapply(op, objs, self._gate)
            except Exception as e:  # noqa: BLE001
                influence = f"{op} on object {op['i']} worked when first applied, raises {type(e).__name__} when repeated after the later derivations"
                break
            o2 = observe(again)
            if o2 != snaps[base + r]:
                influence = (f"{op} on object {op['i']} gives a different object when repeated after the later derivations from the same ancestor: "
                             f"{snaps[base + r]} -> {o2}")
                break
        # history independence: the same operations replayed on a FRESH lineage (new function and node objects) WITHOUT any observation,
        # cache-filling read or run in between, observed once at the end, must look exactly like the objects of the observed lineage
        lineage = None
        try:
            env2 = Env()
            fresh_objs: list[Any] = []
            for n in case["nodes"]:
                spec = {"name": n["name"], "kind": "fn", "params": [[p, ({"d": n["defaults"][p]} if p in n.get("defaults", {}) else None)] for p in n["inputs"]],
                        "dataOuts": n["outputs"], "body": {"b": "tag", "t": n["name"]}}
                fresh_objs.append(build.build_node(spec, 0, [], env2, async_bodies=False))
            fresh_objs.append(Graph(list(fresh_objs), name="g0"))
            fresh_gate = self._make_gate(case, env2)
            for op in ops:
                fresh_objs.append(fresh_objs[op["i"]] if op["t"] in ("readInputs", "readHash") else self._reapply(op, fresh_objs, fresh_gate))
            for j, (a, b) in enumerate(zip(fresh_objs, objs)):
                oa, ob = observe(a), observe(b)
                if oa != ob:
                    lineage = (f"object {j} of the observed history differs from the same object built by replaying the operations on fresh objects "
                               f"without observing or running anything in between: observed lineage {ob} / fresh lineage {oa}")
                    break
        except Exception as e:  # noqa: BLE001
            lineage = f"replaying the history on fresh objects raised {type(e).__name__}: {e}"[:300]
        return {"ops": ops, "rows": rows, "snaps": snaps, "drift": drift, "fresh": fresh, "influence": influence, "lineage": lineage}

    @staticmethod
    def _make_gate(case: dict, env: Env) -> Any:
        lg = case.get("lateGate")
        if not lg:
            return None
        spec = {"name": lg["name"], "kind": "ifelse", "params": [["x", None]], "targets": [lg["target"], "__END__"], "body": {"b": "lt", "k": lg["k"]}, "defaultOpen": True}
        return build.build_node(spec, 0, [], env, async_bodies=False)

    @staticmethod
    def _reapply(op: dict, objs: list, gate: Any = None) -> Any:
        recv = objs[op["i"]]
        t = op["t"]
        if t == "addGate":
            return recv.add_nodes(gate)
        if t == "bind":
            return recv.bind(**{op["k"]: op["v"]})
        if t == "unbind":
            return recv.unbind(op["k"])
        if t == "select":
            return recv.select(*op["names"])
        if t == "withEntrypoint":
            return recv.with_entrypoint(*op["names"])
        if t == "asNode":
            return recv.as_node(name=op["name"])
        if t == "addNode":
            return recv.add_nodes(objs[op["j"]])
        if t == "addNone":
            return recv.add_nodes()
        if t == "withName":
            return recv.with_name(op["name"])
        if t == "withInputs":
            return recv.with_inputs(dict(op["pairs"]))
        if t == "withOutputs":
            return recv.with_outputs(dict(op["pairs"]))
        if t == "mapOver":
            return recv.map_over(*op["names"])
        if t == "wrap":
            return Graph([recv], name=op["name"])
        raise ValueError(t)

    def _apply(self, rng: random.Random, recv: Any, i: int, objs: list, extra: int, force: str | None = None) -> tuple[dict | None, Any]:
        try:
            if isinstance(recv, Graph):
                spec = recv.inputs
                choice = rng.choice(["bind", "bind", "unbind", "select", "withEntrypoint", "asNode", "readInputs", "readHash", "addNode", "addNode", "addNone"])
                if force is not None:
                    choice = force
                if choice.startswith("bind:"):
                    k = choice.split(":", 1)[1]
                    v = rng.randint(0, 9)
                    return {"t": "bind", "i": i, "k": k, "v": v}, recv.bind(**{k: v})
                if choice.startswith("unbind:"):
                    k = choice.split(":", 1)[1]
                    return {"t": "unbind", "i": i, "k": k}, recv.unbind(k)
                if choice == "bind":
                    cands = list(spec.required) + list(spec.optional)
                    if rng.random() < 0.25:
                        # bind an INTERMEDIATE value (a name some node of the graph produces): allowed ("a graph input or output")
                        mids = [o for o in recv.outputs if any(o in n.inputs for n in recv.nodes.values())]
                        cands = mids or cands
                    if not cands:
                        return None, None
                    k = rng.choice(cands)
                    v = rng.randint(0, 9)
                    return {"t": "bind", "i": i, "k": k, "v": v}, recv.bind(**{k: v})
                if choice == "unbind":
                    if not spec.bound:
                        return None, None
                    k = rng.choice(sorted(spec.bound))
                    return {"t": "unbind", "i": i, "k": k}, recv.unbind(k)
                if choice == "select":
                    outs = list(recv.outputs)
                    names = rng.sample(outs, rng.randint(1, len(outs)))
                    return {"t": "select", "i": i, "names": names}, recv.select(*names)
                if choice == "entryTarget":
                    names = [self._gate.targets[0]]
                    if names[0] not in recv.nodes:
                        return None, None
                    return {"t": "withEntrypoint", "i": i, "names": names}, recv.with_entrypoint(*names)
                if choice == "withEntrypoint":
                    names = [rng.choice(list(recv.nodes))]
                    return {"t": "withEntrypoint", "i": i, "names": names}, recv.with_entrypoint(*names)
                if choice == "asNode":
                    name = f"w{len(objs)}"
                    return {"t": "asNode", "i": i, "name": name}, recv.as_node(name=name)
                if choice == "readInputs":
                    _ = recv.inputs
                    return {"t": "readInputs", "i": i}, recv
                if choice == "readHash":
                    _ = recv.definition_hash
                    return {"t": "readHash", "i": i}, recv
                if choice == "addNone":
                    return {"t": "addNone", "i": i}, recv.add_nodes()       # the degenerate call: still a derivation, still a new object
                if choice == "addGate":
                    if self._gate is None or self._gate.name in recv.nodes:
                        return None, None
                    return {"t": "addGate", "i": i}, recv.add_nodes(self._gate)
                # add an existing node object (any node created so far whose name and outputs are new to this graph)
                cands = [k for k, o in enumerate(objs) if not isinstance(o, Graph) and o.name not in recv.nodes
                         and not (set(o.outputs) & set(recv.outputs))]
                if not cands:
                    return None, None
                j = rng.choice(cands)
                return {"t": "addNode", "i": i, "j": j}, recv.add_nodes(objs[j])
            # node receiver
            is_gn = type(recv).__name__ == "GraphNode"
            choice = rng.choice(["withName", "withInputs", "withOutputs"] + (["mapOver", "wrap", "wrap"] if is_gn else []))
            if force is not None and is_gn:
                choice = force
            swap = None
            if choice in ("swapInputs", "swapOutputs"):
                swap, choice = choice, ("withInputs" if choice == "swapInputs" else "withOutputs")
                if len(recv.inputs if choice == "withInputs" else recv.outputs) < 2:
                    return None, None
            if choice == "wrap":
                # a NEW graph around a nested-graph node (its inner bindings surface in the outer graph's spec)
                name = f"outer{len(objs)}"
                return {"t": "wrap", "i": i, "name": name}, Graph([recv], name=name)
            if choice == "withName":
                name = f"nm{len(objs)}"
                return {"t": "withName", "i": i, "name": name}, recv.with_name(name)
            if choice == "withInputs":
                if not recv.inputs:
                    return None, None
                olds = rng.sample(list(recv.inputs), rng.randint(1, len(recv.inputs)))
                # new names: fresh ones, names given up earlier in the history, or (a swap) names being renamed away in this very call
                keep = [p for p in recv.inputs if p not in olds]
                free = [p for p in POOL + ["x", "o0", "o1", "o2", "y0", "y1"] + olds if p not in keep and p not in recv.outputs]
                free = list(dict.fromkeys(free))
                news = rng.sample(free, len(olds))
                if len(recv.inputs) >= 2 and (swap or rng.random() < 0.35):
                    olds = rng.sample(list(recv.inputs), 2)      # a parallel swap of two current names
                    news = [olds[1], olds[0]]
                pairs = [[o, n] for o, n in zip(olds, news) if o != n]
                if not pairs:
                    return None, None
                return {"t": "withInputs", "i": i, "pairs": pairs}, recv.with_inputs(dict(pairs))
            if choice == "withOutputs":
                if not recv.outputs:
                    return None, None
                olds = rng.sample(list(recv.outputs), rng.randint(1, len(recv.outputs)))
                keep = [p for p in recv.outputs if p not in olds]
                free = [p for p in POOL + ["o0", "o1", "o2"] + olds if p not in keep and p not in recv.inputs]
                free = list(dict.fromkeys(free))
                news = rng.sample(free, len(olds))
                if len(recv.outputs) >= 2 and (swap or rng.random() < 0.35):
                    olds = rng.sample(list(recv.outputs), 2)
                    news = [olds[1], olds[0]]
                pairs = [[o, n] for o, n in zip(olds, news) if o != n]
                if not pairs:
                    return None, None
                return {"t": "withOutputs", "i": i, "pairs": pairs}, recv.with_outputs(dict(pairs))
            if not recv.inputs:
                return None, None
            names = rng.sample(list(recv.inputs), rng.randint(1, len(recv.inputs)))
            return {"t": "mapOver", "i": i, "names": names}, recv.map_over(*names)
        except Exception:  # noqa: BLE001 - an operation the library rejects is simply not part of the history
            return None, None

    def oracle(self, case: dict, obs: Any) -> str | None:
        if obs["drift"]:
            return obs["drift"]
        if obs["fresh"]:
            return obs["fresh"]
        if obs.get("influence"):
            return obs["influence"]
        if obs.get("lineage"):
            return obs["lineage"]
        return None

    # ---------------------------------------------------------------- model
    def model(self, case: dict, driver: Any) -> Any:
        return driver

    def compare(self, case: dict, i: Any, driver: Any) -> str | None:
        if not i["ops"]:
            return None
        # `wrap` (a new Graph around an existing wrapper node) has no counterpart in the heap model: a no-op read keeps the numbering aligned,
        # the result and everything derived from it are judged by the oracles only
        mops = [({"t": "readHash", "i": op["i"]} if op["t"] in ("wrap", "addGate") else op) for op in i["ops"]]
        m = driver.ask({"op": "heap", "nodes": case["nodes"], "ops": mops})
        if len(m["rows"]) != len(i["rows"]):
            return f"{len(i['rows'])} operations on the implementation side, {len(m['rows'])} rows from the model"
        # The heap model gives a wrapper node the inner graph's free parameters as inputs; the real wrapper's inputs also depend on the inner
        # graph's entry points and selection (that is C08's subject, modelled there). Objects derived from such a wrapper are compared with
        # their own snapshots (oracle) but not with the model.
        base = len(case["nodes"]) + 1
        tainted: set[int] = set()
        for r, op in enumerate(i["ops"]):
            res = base + r
            recv_obs = i["rows"][r][op["i"]]
            if op["t"] == "asNode" and (recv_obs.get("entry") is not None or recv_obs.get("selected") is not None):
                tainted.add(res)
            if op["t"] in ("wrap", "addGate"):
                tainted.add(res)
            if op["i"] in tainted or (op["t"] == "addNode" and op["j"] in tainted):
                tainted.add(res)
        for r, (irow, mrow) in enumerate(zip(i["rows"], m["rows"])):
            if len(irow) != len(mrow):
                return f"row {r}: {len(irow)} objects on the implementation side, {len(mrow)} in the model"
            for j, (io, mo) in enumerate(zip(irow, mrow)):
                if j in tainted:
                    continue
                d = _cmp(io, mo)
                if d:
                    return f"after op {r} ({i['ops'][r]['t']}) object {j}: {d}"
        return None

    def nontrivial(self, case: dict, obs: Any) -> bool:
        return len([o for o in obs["ops"] if o["t"] not in ("readInputs", "readHash")]) >= 3

    def features(self, case: dict, obs: Any) -> dict:
        kinds: dict[str, int] = {}
        for o in obs["ops"]:
            kinds[o["t"]] = kinds.get(o["t"], 0) + 1
        return {"ops": len(obs["ops"]), "kinds": "+".join(sorted(kinds))[:60]}

    def signature(self, case: dict, obs: Any, why: str) -> str:
        return "case:" + canonical_hash(case)

    def sample(self, case: dict, obs: Any) -> Any:
        return {"nodes": case["nodes"], "ops": obs["ops"]}

    def neighbours(self, case: dict, rng: random.Random) -> Iterable[dict]:
        for _ in range(40):
            c = copy.deepcopy(case)
            c["seed"] = rng.randint(0, 10**6)
            yield c
        yield from self.cases(rng, "quick")


def _cmp(io: Any, mo: Any) -> str | None:
    """Implementation observation vs model observation (the model's abstraction: names, ports, bindings, selection, entry points)."""
    if mo == "BAD":
        return "model observation is ill-typed (harness sent an op the model cannot type)"
    if "graph" in io:
        if "graph" not in mo:
            return f"impl sees a graph, model sees {str(mo)[:80]}"
        if len(io["graph"]) != len(mo["graph"]):
            return f"graph has {len(io['graph'])} nodes, model {len(mo['graph'])}"
        for a, b in zip(io["graph"], mo["graph"]):
            d = _cmp(a, b)
            if d:
                return d
        mb = sorted((k, v) for k, v in mo["bound"]["dict"])
        ib = [(k, v) for k, v in io["bound"]]
        # the model's `bound` is the graph's own binding dict; the implementation's inputs.bound may add surfaced inner bindings
        if not set(map(str, mb)) <= set(map(str, ib)):
            return f"bound: impl {ib} model {mb}"
        # ... and only those: every other reported binding must sit on an input of a nested-graph node of this graph
        nested_inputs = {q for a, b in zip(io["graph"], mo["graph"]) if b.get("inner") is not None for q in a["inputs"]}
        extra = [kv for kv in ib if str(kv) not in set(map(str, mb)) and kv[0] not in nested_inputs]
        if extra:
            return f"bound: impl reports {extra} which this graph never bound (own bindings per model: {mb})"
        if io["selected"] != mo["selected"]:
            return f"selected: impl {io['selected']} model {mo['selected']}"
        if io["entry"] != mo["entry"]:
            return f"entry points: impl {io['entry']} model {mo['entry']}"
        return None
    if "node" not in mo:
        return f"impl sees a node, model sees {str(mo)[:80]}"
    if io["node"] != mo["node"]:
        return f"node name: impl {io['node']} model {mo['node']}"
    if mo["inner"] is None:
        if io["inputs"] != mo["inputs"]:
            return f"inputs of {io['node']}: impl {io['inputs']} model {mo['inputs']}"
    elif sorted(io["inputs"]) != sorted(mo["inputs"]):
        return f"inputs of nested node {io['node']} (as sets): impl {io['inputs']} model {mo['inputs']}"
    if io["outputs"] != mo["outputs"]:
        return f"outputs of {io['node']}: impl {io['outputs']} model {mo['outputs']}"
    mm = mo["mapOver"] if isinstance(mo["mapOver"], list) else None
    if (io["mapOver"] or None) != (mm or None):
        return f"map_over of {io['node']}: impl {io['mapOver']} model {mo['mapOver']}"
    return None


PROP = C07()
