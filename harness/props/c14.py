"""C14 — interrupts pause before dependants run and resume to the same result."""
from __future__ import annotations

import copy
import random
from typing import Any, Iterable

from .. import gen, impl, sched
from ..engine import Prop, canonical_hash


def interrupts_of(program: list[dict]) -> dict[str, dict]:
    return {n["name"]: n for g in program for n in g["nodes"] if n["kind"] == "interrupt"}


def consumers_closure(program: list[dict], names: set[str], supplied: set[str] = frozenset()) -> set[str]:
    """Nodes of the root graph that (transitively) need one of `names` as an input (names the caller supplied cut the chain)."""
    root = program[-1]["nodes"]
    need = set(names) - set(supplied)
    out: set[str] = set()
    changed = True
    while changed:
        changed = False
        for n in root:
            if n["name"] in out:
                continue
            ins = {dict(n.get("inRen", [])).get(p[0], p[0]) for p in n.get("params", [])}
            if ins & need:
                out.add(n["name"])
                need |= set(n.get("dataOuts", [])) - set(supplied)
                changed = True
    return out


def gen_nested_interrupt(rng: random.Random) -> dict:
    inner = {"name": "g0", "nodes": [
        {"name": "prep", "kind": "fn", "params": [["x", None]], "dataOuts": ["draft"], "body": {"b": "sum", "k": 1}},
        {"name": "ask", "kind": "interrupt", "params": [["draft", None]], "dataOuts": ["decision"], "body": {"b": "handler", "k": None}},
        {"name": "fin", "kind": "fn", "params": [["decision", None]], "dataOuts": ["verdict"], "body": {"b": "tag", "t": "fin"}}], "bound": []}
    outer = {"name": "g1", "nodes": [{"name": "review", "kind": "graph", "inner": 0},
                                     {"name": "after", "kind": "fn", "params": [["verdict", None]], "dataOuts": ["done"], "body": {"b": "tag", "t": "after"}}], "bound": []}
    if rng.random() < 0.4:
        inner["nodes"][1]["dataOuts"] = ["decision", "notes"]
    if rng.random() < 0.5:
        # an outer node that is ready in the very step in which the nested interrupt pauses
        outer["nodes"].append({"name": "side", "kind": "fn", "params": [["x", None]], "dataOuts": ["s"], "body": {"b": "tag", "t": "side"}})
        rng.shuffle(outer["nodes"])
    program = [inner, outer]
    for lvl in range(rng.choice([0, 0, 1, 1, 2])):
        program.append({"name": f"g{lvl + 2}", "nodes": [{"name": f"top{lvl}", "kind": "graph", "inner": lvl + 1}], "bound": []})
    return {"program": program, "values": [["x", rng.randint(0, 5)]], "nested": True}


class C14(Prop):
    id = "C14"
    level = "proof"
    nontrivial_rule = (
        "DAGs with 1-3 interrupt nodes at any position (single/multi output, extra inputs, emit, siblings ready in the same step, responses "
        "supplied up front), every pause/resume history until completion vs the run whose handlers answer directly; interrupts nested one "
        "or two levels deep for pause identity; async runner on the controllable loop; non-trivial = at least one pause; distinct by hash"
    )
    budgets = {"quick": 200, "thorough": 4000}

    def cases(self, rng: random.Random, tier: str) -> Iterable[dict]:
        forced = 2
        # whatever the seed: (a) the response is itself a DICT keyed by the interrupt's own output name — a value like any other, whether
        # the caller supplies it on resume or a handler returns it; (b) an interrupt whose output NO node consumes (last position, or one
        # output of several), resumed under the strictest policy for caller-supplied internal values: a response is never refused
        # (c) a plain (non-async) handler that answers through an AWAITABLE object (a future-like handle resolving to the response, or to
        # None = "no answer yet"): the same as answering with what it resolves to
        for resolved in (rng.randint(30, 60), None, "yes"):
            def prog(v: Any) -> list[dict]:
                return [{"name": "g0", "bound": [], "nodes": [
                    {"name": "mk", "kind": "fn", "params": [["x", None]], "dataOuts": ["draft"], "body": {"b": "tag", "t": "mk"}},
                    {"name": "ask", "kind": "interrupt", "params": [["draft", None]], "dataOuts": ["decision"], "body": {"b": "const", "v": v}},
                    {"name": "use", "kind": "fn", "params": [["decision", None]], "dataOuts": ["u"], "body": {"b": "tag", "t": "use"}}]}]
            yield {"kind": "twin", "program": prog({"box": resolved}), "twin": prog(resolved), "values": [["x", rng.randint(0, 3)]], "nested": False,
                   "seed": rng.randint(0, 10**6), "responses": [1], "cfg": {}}
        for variant in ("owndict", "owndict", "strict-last", "strict-multi"):
            if variant == "owndict":
                nodes = [{"name": "ask", "kind": "interrupt", "params": [["x", None]], "dataOuts": ["decision"], "body": {"b": "handler", "k": None}},
                         {"name": "use", "kind": "fn", "params": [["decision", None]], "dataOuts": ["u"], "body": {"b": "tag", "t": "use"}}]
                yield {"program": [{"name": "g0", "nodes": nodes, "bound": []}], "values": [["x", rng.randint(0, 3)]], "nested": False, "seed": rng.randint(0, 10**6),
                       "cfg": {}, "responses": [{"d": [["decision", rng.choice([7, "yes", {"d": [["a", 1]]}])]]}], "pyOnly": True}
                continue
            outs = ["verdict"] if variant == "strict-last" else ["verdict", "note"]
            nodes = [{"name": "pre", "kind": "fn", "params": [["x", None]], "dataOuts": ["draft"], "body": {"b": "tag", "t": "pre"}},
                     {"name": "ask", "kind": "interrupt", "params": [["draft", None]], "dataOuts": outs, "body": {"b": "handler", "k": None}}]
            if variant == "strict-multi":
                nodes.append({"name": "use", "kind": "fn", "params": [["verdict", None]], "dataOuts": ["u"], "body": {"b": "tag", "t": "use"}})
            yield {"program": [{"name": "g0", "nodes": nodes, "bound": []}], "values": [["x", rng.randint(0, 3)]], "nested": False, "seed": rng.randint(0, 10**6),
                   "cfg": {"onInternal": "error"}, "responses": [rng.randint(30, 60)]}
        while True:
            if forced or rng.random() < 0.04:
                forced = max(0, forced - 1)
                # a handler that answers a multi-output interrupt with a dict it KEEPS, on a graph that is run twice: equal runs, equal results
                outs = ["p", "q", "r"][: rng.choice([2, 3])]
                nodes = [{"name": "ask", "kind": "interrupt", "params": [["x", None]], "dataOuts": outs, "body": {"b": "handlerDict", "k": rng.randint(1, 5)},
                          "emits": ["done"] if rng.random() < 0.8 else [], "asyncHandler": rng.random() < 0.5},
                         {"name": "use", "kind": "fn", "params": [[outs[0], None]], "dataOuts": ["u"], "body": {"b": "tag", "t": "use"}}]
                if nodes[0]["emits"]:
                    nodes.append({"name": "audit", "kind": "fn", "params": [["x", None]], "dataOuts": ["aud"], "body": {"b": "tag", "t": "audit"}, "waitFor": ["done"]})
                yield {"kind": "repeat", "program": [{"name": "g0", "nodes": nodes, "bound": []}], "values": [["x", rng.randint(0, 3)]], "nested": False,
                       "seed": rng.randint(0, 10**6), "responses": [1], "cfg": {}}
                continue
            if rng.random() < 0.8:
                c = gen.gen_interrupt(rng)
                c["nested"] = False
            else:
                c = gen_nested_interrupt(rng)
            cfg: dict = {}
            if not c["nested"] and rng.random() < 0.3:
                # a selection naming outputs that do not exist yet when the run pauses, under every on_missing policy: a pause is not a
                # completed run with missing outputs
                outs = list(dict.fromkeys(o for n in c["program"][-1]["nodes"] for o in n.get("dataOuts", [])))
                cfg = {"select": rng.sample(outs, rng.randint(1, min(3, len(outs)))), "onMissing": rng.choice(["error", "error", "warn", "ignore"])}
            yield {"program": c["program"], "values": c["values"], "nested": c["nested"], "seed": rng.randint(0, 10**6), "cfg": cfg,
                   # responses include falsy values: "was a response supplied" is a question of presence, not of truthiness
                   "responses": [rng.choice([0, False, "", {"l": []}, rng.randint(30, 60), rng.randint(30, 60)]) for _ in range(4)]}

    # ---------------------------------------------------------------- histories
    def _history(self, case: dict, runner: Any) -> dict:
        """Run; while paused, supply the response under the reported key; stop at completion / failure / no progress."""
        values = list(case["values"])
        rounds = []
        answers: dict[str, Any] = {}
        for i in range(5):
            o = runner(case["program"], values, i)
            o["values_used"] = list(values)
            rounds.append(o)
            if o["status"] != "paused":
                break
            if case["nested"] and not case.get("resume_nested"):
                break   # pause identity only; resuming a nested interrupt is the recorded finding C14-F1
            p = o["pause"]
            r = case["responses"][i % len(case["responses"])]
            answers[p["node"]] = r
            # all outputs of a multi-output interrupt are supplied (the resume path needs every data output), each under the key the
            # pause reports for it
            outs = p["outputParams"] or [p["outputParam"]]
            keys = dict(map(tuple, p.get("responseKeys") or []))
            supplied = [[keys.get(o_, o_), r] for o_ in outs]
            if i % 2 == 0:
                supplied[0][0] = p.get("responseKey") or p["outputParam"]
            if any(k == supplied[0][0] for k, _ in values):
                break  # the same key is asked for again: no progress (recorded for nested interrupts)
            values = values + supplied
        return {"rounds": rounds, "answers": answers, "final_values": values}

    def impl(self, case: dict) -> Any:
        if case.get("kind") == "twin":
            rounds = [impl.run_case(pr, None, case["values"], {}, "async", ctl=sched.Controller("random", case["seed"])) for pr in (case["program"], case["twin"])]
            return {"rounds": rounds, "answers": {}, "final_values": case["values"], "auto": rounds[0], "twin": True}
        if case.get("kind") == "repeat":
            from .. import build
            from ..build import Env

            env = Env()
            graphs = build.build_program(case["program"], env, async_bodies=True)
            rounds = [impl.run_case(case["program"], None, case["values"], {}, "async", graphs=graphs, env=env,
                                    ctl=sched.Controller("random", case["seed"] + j)) for j in range(3)]
            return {"rounds": rounds, "answers": {}, "final_values": case["values"], "auto": rounds[0], "repeat": True}

        def run(program: list[dict], values: list, i: int) -> dict:
            ctl = sched.Controller("random", case["seed"] + i)
            return impl.run_case(program, None, values, case.get("cfg", {}), "async", ctl=ctl)

        hist = self._history(case, run)
        # the same program with every pausing handler answering directly with the response the history gave
        auto = copy.deepcopy(case["program"])
        for g in auto:
            for n in g["nodes"]:
                if n["kind"] == "interrupt" and n["body"].get("k") is None:
                    path_names = [k for k in hist["answers"] if k.split("/")[-1] == n["name"]]
                    if path_names:
                        n["body"] = {"b": "const", "v": hist["answers"][path_names[0]]}
        hist["auto"] = impl.run_case(auto, None, case["values"], case.get("cfg", {}), "async", ctl=sched.Controller("random", case["seed"]))
        return hist

    def oracle(self, case: dict, obs: Any) -> str | None:
        rounds = obs["rounds"]
        if case.get("kind") == "twin":
            a, b = rounds
            pa, pb = (a.get("pause") or {}), (b.get("pause") or {})
            if (a["status"], a["values"], a["error"], pa.get("node")) != (b["status"], b["values"], b["error"], pb.get("node")):
                return (f"a handler answering through an awaitable object ended {a['status']} {a['values']} (pause at {pa.get('node')}), the handler answering with what "
                        f"it resolves to gives {b['status']} {b['values']} (pause at {pb.get('node')})")
            return None
        if case.get("kind") == "repeat":
            first = (rounds[0]["status"], rounds[0]["values"], rounds[0]["error"])
            if rounds[0]["status"] != "completed":
                return f"a handler answering with a dict of all outputs did not pass the interrupt: {first}"
            for j, o in enumerate(rounds[1:], 1):
                if (o["status"], o["values"], o["error"]) != first:
                    return f"the same graph run again with equal inputs: run 0 gave {first}, run {j} gave {(o['status'], o['values'], o['error'])}"
            return None
        if rounds[0]["status"] == "build-error":
            return f"valid program rejected: {rounds[0].get('detail')}"
        ints = interrupts_of(case["program"])
        seen_pauses: list[str] = []
        for idx, o in enumerate(rounds):
            if o["status"] != "paused":
                continue
            p = o["pause"]
            leaf = p["node"].split("/")[-1]
            if leaf not in ints:
                return f"pause names {p['node']!r}, which is not an interrupt of the program"
            spec = ints[leaf]
            if p["outputParam"] != spec["dataOuts"][0]:
                return f"pause reports output {p['outputParam']!r}, the interrupt's first output is {spec['dataOuts'][0]!r}"
            depth = len(p["node"].split("/")) - 1
            want_key = ".".join(p["node"].split("/")[:-1] + [p["outputParam"]]) if depth else p["outputParam"]
            if p.get("responseKey") != want_key:
                return f"response key {p.get('responseKey')!r}, expected {want_key!r}"
            prefix = want_key[: len(want_key) - len(p["outputParam"])]
            want_keys = sorted([o_, prefix + o_] for o_ in spec["dataOuts"])
            if p.get("responseKeys") != want_keys:
                return f"response keys {p.get('responseKeys')!r}, expected {want_keys!r}"
            # what the human is shown: the interrupt's inputs under the names the graph knows them by
            in_names = [dict(spec.get("inRen", [])).get(q[0], q[0]) for q in spec["params"]]
            if p["values"] is not None and [k for k, _ in p["values"]] != in_names:
                return f"pause shows values under {[k for k, _ in p['values']]}, the interrupt's inputs are {in_names}"
            # values computed before the pause are returned: every function node of the graph being run whose body completed in this run
            # has its outputs in the paused result
            top = len(case["program"]) - 1
            have = {k for k, _ in o["values"]}
            for n in case["program"][-1]["nodes"]:
                if n["kind"] == "fn" and any(f == f"{top}:{n['name']}" for f, _ in o["calls"]):
                    sel = case.get("cfg", {}).get("select")
                    lost = [x for x in n.get("dataOuts", []) if x not in have and (sel is None or x in sel)]
                    if lost:
                        note = " (step sibling of a nested pause)" if case["nested"] and len(p["node"].split("/")) > 1 else ""
                        return f"paused at {p['node']!r}: node {n['name']!r} ran in this run but its output {lost[0]!r} is not among the returned values" + note
            if case["nested"]:
                want_path = [n["name"] for g in reversed(case["program"][1:]) for n in g["nodes"] if n["kind"] == "graph"]
                if p["node"].split("/")[:-1] != want_path:
                    return f"pause path {p['node']!r} does not follow the nesting {want_path}"
                continue
            # no node depending on the interrupt's outputs has run; the interrupt's outputs are not in the values
            ran = {f.split(":", 1)[1] for f, _ in o["calls"]}
            supplied = {k for k, _ in o["values_used"]}
            dependants = consumers_closure(case["program"], set(spec["dataOuts"]), supplied)
            if not any(d in supplied for d in spec["dataOuts"]):
                bad = sorted((dependants & ran) - {leaf})
                if bad:
                    return f"paused at {leaf!r} although dependants {bad} already ran in that run"
                if any(k in spec["dataOuts"] for k, _ in o["values"]):
                    return f"paused result already contains the interrupt's output"
            if p["node"] in seen_pauses:
                return f"paused twice at {p['node']!r} although its response was supplied"
            seen_pauses.append(p["node"])
        last = rounds[-1]
        if case["nested"]:
            if case.get("resume_nested") and last["status"] == "paused":
                return "nested interrupt: supplying the response under the reported key does not pass the interrupt"
            return None
        if last["status"] == "paused":
            return f"history did not terminate: still paused at {last['pause']['node']} after {len(rounds)} rounds"
        auto = obs["auto"]
        multi = any(len(ints[k.split('/')[-1]]["dataOuts"]) > 1 for k in obs["answers"])
        if not multi:
            if (last["status"], dict(map(tuple_, last["values"]))) != (auto["status"], dict(map(tuple_, auto["values"]))):
                return f"resumed run ended {last['status']} {last['values']}, the run whose handlers answer directly gives {auto['status']} {auto['values']}"
        return None

    # ---------------------------------------------------------------- model
    def model(self, case: dict, driver: Any) -> Any:
        if case.get("kind") in ("repeat", "twin") or case.get("pyOnly"):
            return None         # dict values are outside the model's value universe: the oracle judges

        def run(program: list[dict], values: list, i: int) -> dict:
            m = impl.model_obs(driver.ask({"op": "run", "program": program, "values": values, "runner": "async", "cfg": case.get("cfg", {})}))
            if m["pause"] is not None:
                p = m["pause"]
                parts = p["node"].split("/")
                m["pause"]["responseKey"] = ".".join(parts[:-1] + [p["outputParam"]]) if len(parts) > 1 else p["outputParam"]
                pre = ".".join(parts[:-1]) + "." if len(parts) > 1 else ""
                m["pause"]["responseKeys"] = sorted([o_, pre + o_] for o_ in (p["outputParams"] or [p["outputParam"]]))
            return m

        return self._history(case, run)

    def compare(self, case: dict, i: Any, m: Any) -> str | None:
        if case.get("kind") in ("repeat", "twin") or case.get("pyOnly"):
            return None      # a handler returning a dict is outside the body language of the model: the oracle judges
        if len(i["rounds"]) != len(m["rounds"]):
            return f"history length: impl={len(i['rounds'])} model={len(m['rounds'])}"
        for k, (a, b) in enumerate(zip(i["rounds"], m["rounds"])):
            for f in ("status", "values", "error"):
                if a.get(f) != b.get(f):
                    return f"round {k} {f}: impl={a.get(f)!r} model={b.get(f)!r}"
            fields = ("node", "outputParam", "value", "outputParams", "values", "responseKey", "responseKeys")
            pa = {x: (a["pause"] or {}).get(x) for x in fields}
            pb = {x: (b["pause"] or {}).get(x) for x in fields}
            if pa != pb:
                return f"round {k} pause: impl={pa} model={pb}"
            if impl.sort_calls(a["calls"]) != impl.sort_calls(b["calls"]):
                return f"round {k}: call multiset differs"
        return None

    def nontrivial(self, case: dict, obs: Any) -> bool:
        return case.get("kind") in ("repeat", "twin") or any(o["status"] == "paused" for o in obs["rounds"])

    def features(self, case: dict, obs: Any) -> dict:
        return {"nested": case["nested"], "rounds": len(obs["rounds"]), "pauses": sum(1 for o in obs["rounds"] if o["status"] == "paused"),
                "final": obs["rounds"][-1]["status"], "interrupts": len(interrupts_of(case["program"]))}

    def signature(self, case: dict, obs: Any, why: str) -> str:
        if "(step sibling of a nested pause)" in why:
            return "site:run_superstep_async/nested-pause-drops-step-siblings"      # the mechanism repaired by fix 13cfc67 (C14-X1): reported again if it returns
        return "case:" + canonical_hash({"program": case["program"], "values": case["values"]})

    def sample(self, case: dict, obs: Any) -> Any:
        return {"program": case["program"], "values": case["values"], "responses": case["responses"]}

    def expand_fixed(self, case: dict) -> list[dict]:
        c = dict(case)
        c.setdefault("seed", 0)
        c.setdefault("responses", [41, 42, 43, 44])
        c.setdefault("nested", False)
        return [c]

    def neighbours(self, case: dict, rng: random.Random) -> Iterable[dict]:
        for _ in range(20):
            c = copy.deepcopy(case)
            c["seed"] = rng.randint(0, 10**6)
            yield c
        yield from self.cases(rng, "quick")


def tuple_(kv: list) -> tuple:
    import json

    return (kv[0], json.dumps(kv[1], sort_keys=True))


PROP = C14()
