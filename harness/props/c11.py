"""C11 — errors surface unwrapped; partial results are exactly the completed work."""
from __future__ import annotations

import copy
import random
from typing import Any, Iterable

from .. import gen, impl, refeval
from ..build import Env, enc_val
from ..runprop import RunProp
from . import c10 as _c10


class C11(RunProp):
    id = "C11"
    level = "proof"
    compare_events = True
    nontrivial_rule = (
        "every generator's programs with 1-2 failing function nodes at any nesting depth (0-2), under run with error_handling raise/continue, "
        "gated programs with failing branches, mapping nodes with failing items, runner.map over graphs with failing items (raise / continue, "
        "async under random completion orders and concurrency limits); both runners; non-trivial = the failing run had completed "
        "at least one node before the failure; distinct by canonical hash"
    )
    budgets = {"quick": 300, "thorough": 6000}

    def _rmap_cases(self, rng: random.Random, tier: str) -> Iterable[dict]:
        """runner.map over graphs with failing items (C10's generator), both error modes, async under random completion orders and limits."""
        for _ in range(4):
            c = _c10.PROP._map_case(rng, force="raise-multi", bounded=True)
            yield {"kind": "rmap", "m": c, "program": c["program"], "values": c["values"], "cfg": {}, "runner": c["runner"], "failing": []}
        for c in _c10.PROP.cases(rng, tier):
            if c["kind"] == "map":
                yield {"kind": "rmap", "m": c, "program": c["program"], "values": c["values"], "cfg": {}, "runner": c["runner"], "failing": []}

    def cases(self, rng: random.Random, tier: str) -> Iterable[dict]:
        rmaps = self._rmap_cases(rng, tier)
        forced = 6
        while True:
            if forced or rng.random() < 0.12:
                forced = max(0, forced - 1)
                yield next(rmaps)
                continue
            r = rng.random()
            if r < 0.6:
                c = gen.gen_dag_program(rng, max_nodes=7, depth=rng.choice([0, 1, 2]), allow_fed_default=False, allow_emit=False)
                c = gen.inject_failure(rng, c, rng.choice([1, 1, 2]))
                if rng.random() < 0.4:
                    c = gen.with_cfg(rng, c)
                    c["cfg"].setdefault("errMode", rng.choice(["raise", "continue"]))
                else:
                    c["cfg"] = {"errMode": rng.choice(["raise", "continue"])}
                kind = "dag"
            elif r < 0.8:
                c = gen.inject_failure(rng, gen.gen_gated_dag(rng))
                c["cfg"] = {"errMode": rng.choice(["raise", "continue"])}
                kind = "gated"
            else:
                c = gen.gen_map_node(rng)
                kind = "mapnode"
            for runner in ("sync", "async"):
                yield {"program": c["program"], "values": c["values"], "cfg": c.get("cfg", {}), "runner": runner, "kind": kind, "failing": c.get("failing", [])}

    # runner.map cases are executed, modelled and compared exactly as C10 does; the ORACLE below is C11's own
    def impl(self, case: dict) -> Any:
        if case["kind"] == "rmap":
            return _c10.PROP.impl(case["m"])
        return super().impl(case)

    def model(self, case: dict, driver: Any) -> Any:
        if case["kind"] == "rmap":
            return _c10.PROP.model(case["m"], driver)
        return super().model(case, driver)

    def compare(self, case: dict, i: Any, m: Any) -> str | None:
        if case["kind"] == "rmap":
            return _c10.PROP.compare(case["m"], i, m)
        return super().compare(case, i, m)

    def _rmap_oracle(self, case: dict, obs: Any) -> str | None:
        m = case["m"]
        if obs.get("status") in ("build-error", "deadlock"):
            return f"map case could not run: {obs.get('status')} {obs.get('detail', '')}"
        if _c10.combos(m["values"], m["mapOver"], m["mode"]) is None:
            return None
        if m.get("noSlot") and obs["raised"] == "ValueError" and not obs["calls"]:
            return None      # the call itself was refused (a limit without a slot): no node ran, no node exception to surface
        singles = obs["singles"]
        own = [s["error"] for s in singles if s["status"] == "failed"]
        if m["mapErr"] == "raise":
            if own and (obs["raised"] is None or obs["raised"] not in own):
                return f"map in raise mode: items fail with {own} but the call surfaced {obs['raised']!r} (not one of the node exceptions, or a copy)"
            if obs["raised"] is not None and not str(obs["raised"]).startswith("user:"):
                return f"map in raise mode surfaced {obs['raised']!r}, not the node's own exception object"
            return None
        if obs["raised"] is not None:
            return f"map in continue mode raised {obs['raised']!r}"
        for i, (r, s) in enumerate(zip(obs["results"], singles)):
            if s["status"] == "failed":
                if r["status"] != "failed" or r["error"] != s["error"]:
                    return f"item {i} fails with {s['error']} but its result is {r['status']} carrying {r['error']!r}"
                good = [kv for kv in s["values"]]
                if m["runner"] == "sync" and impl.differ(r["values"], good):
                    return f"item {i}: FAILED result holds {r['values']}, the completed work is {good}"
                if any(kv not in r["values"] for kv in good):
                    return f"item {i}: FAILED result {r['values']} lacks values completed before the failure {good}"
            elif r["status"] == "failed":
                return f"item {i} does not fail, yet its result is FAILED carrying {r['error']!r} (another item's exception)"
        return None

    def nontrivial(self, case: dict, obs: Any) -> bool:
        if case["kind"] == "rmap":
            return any(s["status"] == "failed" for s in obs.get("singles", []))
        return obs.get("status") == "failed" and len(obs.get("calls", [])) >= 2

    def features(self, case: dict, obs: Any) -> dict:
        if case["kind"] == "rmap":
            return {"kind": "rmap", "runner": case["runner"], "err": case["m"]["mapErr"], "k": case["m"]["k"], "items": len(obs.get("singles", [])),
                    "failing_items": sum(1 for s in obs.get("singles", []) if s["status"] == "failed")}
        return {"kind": case["kind"], "runner": case["runner"], "status": obs.get("status"), "raised": obs.get("raised"),
                "depth": len(case["program"]) - 1, "failing": len(case["failing"]), "err": (obs.get("error") or "")[:5]}

    def sample(self, case: dict, obs: Any) -> Any:
        if case["kind"] == "rmap":
            return {k: v for k, v in case["m"].items() if k != "seed"}
        return super().sample(case, obs)

    def signature(self, case: dict, obs: Any, why: str) -> str:
        if case["kind"] == "rmap":
            return _c10.PROP.signature(case["m"], obs, why)
        return super().signature(case, obs, why)

    def oracle(self, case: dict, obs: Any) -> str | None:
        if case["kind"] == "rmap":
            return self._rmap_oracle(case, obs)
        if obs["status"] == "build-error":
            return f"valid program rejected at construction: {obs.get('detail')}"
        if obs["status"] != "failed":
            return None
        err = obs["error"] or ""
        if err in ("ValueError", "TypeError") and case["kind"] != "dag":
            return None  # framework-raised errors (on_missing, zip lengths): not a node function's exception
        if not err.startswith("user:"):
            return f"a node function raised a user exception but the run surfaced {err!r} (wrapped, copied or replaced)"
        want_raise = case["cfg"].get("errMode", "raise") == "raise"
        if obs["raised"] != want_raise:
            return f"error_handling={case['cfg'].get('errMode', 'raise')} but raised={obs['raised']}"
        if case["kind"] != "dag":
            return None
        # the surfaced error must be one a node that could run actually raises
        program = case["program"]
        provided = {k: impl.py_val(v) for k, v in case["values"]}
        ref = refeval.eval_graph(program, len(program) - 1, provided, Env(), failing_dead=True)
        tag = err.split(":", 1)[1]
        all_failed = set(_all_failed(program, provided))
        if tag not in {pre + f for f in all_failed for pre in ("E_", "Z_", "S_", "T_", "C_")}:
            return f"surfaced error {err} does not belong to a node that ran and failed ({sorted(all_failed)})"
        if obs["raised"]:
            return None
        # FAILED result: only correct values of completed nodes; nothing from the failing node or downstream of it
        exposed = refeval.graph_outputs(program, len(program) - 1)
        sel = case["cfg"].get("select")
        if sel is not None and sel != "**":
            exposed = [o for o in exposed if o in sel]
        good = {k: enc_val(v) for k, v in ref.values.items() if k in exposed}
        for k, v in obs["values"]:
            if k not in good:
                return f"partial result contains {k!r}, which no completed node produced (failing node or downstream of it)"
            if good[k] != v:
                return f"partial value {k!r} = {v!r} differs from the correct value {good[k]!r}"
        # values completed in steps before the failing step must be present
        lv = levels(program)
        root = program[-1]
        fail_levels = [lv[n["name"]] for n in root["nodes"] if _node_fails(program, n, ref)]
        if fail_levels:
            first = min(fail_levels)
            have = {k for k, _ in obs["values"]}
            for n in root["nodes"]:
                if lv[n["name"]] < first and n["name"] in ref.ran:
                    for o in refeval.node_outputs(program, n):
                        if o in good and o not in have:
                            return f"value {o!r} was completed in an earlier step than the failure but is missing from the partial result"
        return None

    def neighbours(self, case: dict, rng: random.Random) -> Iterable[dict]:
        yield from self.cases(rng, "quick")


def _all_failed(program: list[dict], provided: dict) -> list[str]:
    """Names of failing function nodes that can actually run (any depth), per the dependency-order reference."""
    out: list[str] = []

    def walk(gi: int, prov: dict) -> None:
        ref = refeval.eval_graph(program, gi, prov, Env(), failing_dead=True)
        out.extend(ref.failed)

    # failures inside nested graphs surface through eval_graph's recursive calls (names are globally unique)
    class _Rec(refeval.RefResult):
        pass

    ref = refeval.eval_graph(program, len(program) - 1, provided, Env(), failing_dead=True)
    names = set(ref.failed)
    # collect inner failing function nodes that were reached: any fn node with a `fail` body whose graph was entered
    for gi, g in enumerate(program):
        for n in g["nodes"]:
            if n["kind"] == "fn" and n["body"].get("b") == "fail":
                names.add(n["name"])
    return sorted(names)


def _node_fails(program: list[dict], n: dict, ref: Any) -> bool:
    return n["name"] in ref.failed


def levels(program: list[dict]) -> dict[str, int]:
    """Superstep in which each root node runs in a default-free, gate-free DAG (longest producer chain)."""
    root = program[-1]
    prod: dict[str, str] = {}
    for n in root["nodes"]:
        for o in refeval.node_outputs(program, n):
            prod.setdefault(o, n["name"])
    by = {n["name"]: n for n in root["nodes"]}
    memo: dict[str, int] = {}

    def lv(name: str) -> int:
        if name in memo:
            return memo[name]
        memo[name] = 0
        n = by[name]
        deps = [prod[c] for c, _ in refeval.node_inputs(program, n) if c in prod and prod[c] != name]
        deps += [prod[w] for w in n.get("waitFor", []) if w in prod]
        memo[name] = 1 + max((lv(d) for d in deps), default=-1)
        return memo[name]

    return {n["name"]: lv(n["name"]) for n in root["nodes"]}


PROP = C11()
