"""C15 — max_concurrency bounds all node executions globally and never deadlocks."""
from __future__ import annotations

import copy
import random
from typing import Any, Iterable

from .. import gen, impl, sched
from ..build import Env
from ..engine import Prop, canonical_hash


def gen_shape(rng: random.Random) -> dict:
    """Nest / map shapes built from function nodes only: wide steps, nested graphs (depth 0-3), mapping nodes."""
    names = gen.Names()
    program: list[dict] = []
    with_int: set[int] = set()      # graphs that contain (at any depth) an interrupt node: these are never mapped over

    def level(depth: int) -> int:
        nodes = []
        width = rng.randint(1, 4)
        for _ in range(width):
            nn = names.fresh("n")
            nodes.append({"name": nn, "kind": "fn", "params": [["x", None]], "dataOuts": [names.fresh("v")], "body": {"b": "tag", "t": nn},
                          "syncBody": rng.random() < 0.25})      # plain `def` functions next to `async def` ones: both count
            if rng.random() < 0.2:
                # a generator function (async or plain): its body runs while its values are collected — inside the permit as well
                nodes[-1]["body"] = {"b": "gen", "t": nn, "k": rng.randint(1, 3)}
        if rng.random() < 0.3:
            # a gate deciding on the same input, next to the bodies of its step: its routing function is a node function too, it takes a
            # permit like the others (its targets run a step later)
            gname = names.fresh("g")
            tname = names.fresh("n")
            nodes.append({"name": gname, "kind": "ifelse", "params": [["x", None]], "targets": [tname, "__END__"], "body": {"b": "lt", "k": 99}, "defaultOpen": True})
            nodes.append({"name": tname, "kind": "fn", "params": [["x", None]], "dataOuts": [names.fresh("v")], "body": {"b": "tag", "t": tname}})
        has_int = False
        if rng.random() < 0.25:
            # an interrupt whose (async) handler answers: a node function like any other, it takes a permit too
            nn = names.fresh("ask")
            nodes.append({"name": nn, "kind": "interrupt", "params": [["x", None]], "dataOuts": [names.fresh("a")], "body": {"b": "handler", "k": 1},
                          "asyncHandler": True})
            has_int = True
        if depth > 0:
            for _ in range(rng.randint(1, 2)):
                inner = level(depth - 1)
                gn: dict[str, Any] = {"name": names.fresh("w"), "kind": "graph", "inner": inner}
                if inner in with_int:
                    has_int = True
                elif rng.random() < 0.4:
                    gn["mapOver"] = ["x"]
                    gn["mapMode"] = "zip"
                nodes.append(gn)
        # a second stage consuming the first
        if rng.random() < 0.6:
            src = next(n for n in nodes if n["kind"] == "fn")["dataOuts"][0]
            for _ in range(rng.randint(1, 3)):
                nn = names.fresh("n")
                nodes.append({"name": nn, "kind": "fn", "params": [[src, None]], "dataOuts": [names.fresh("v")], "body": {"b": "tag", "t": nn}})
        program.append({"name": f"g{len(program)}", "nodes": nodes, "bound": []})
        if has_int:
            with_int.add(len(program) - 1)
        return len(program) - 1

    depth = rng.choice([0, 1, 1, 2, 3])
    root = level(depth)
    return {"program": program, "depth": depth, "interrupts": root in with_int}


def needs_list(program: list[dict], gi: int) -> bool:
    return False


class C15(Prop):
    id = "C15"
    level = "proof"
    nontrivial_rule = (
        "nest/map shapes of function nodes (steps 1-7 wide, nesting depth 0-3, mapping nodes with 1-4 items, top-level map) x "
        "max_concurrency k in 1..4 x adversarial schedules on the controllable loop (bodies stay open until the loop is idle, so as many "
        "bodies are open as the framework allows); in-flight counter kept by the instrumented bodies; non-trivial = the framework tried to "
        "open more than k bodies (unlimited peak > k); distinct by canonical hash"
    )
    budgets = {"quick": 120, "thorough": 2500}
    assumptions = ["asyncio.Semaphore fairness and wake-up order are assumed; function-node bodies and interrupt handlers take a permit (the latter since the repair recorded as C15-X1)"]

    def cases(self, rng: random.Random, tier: str) -> Iterable[dict]:
        forced_prior = ["map-empty", "map-zip-mismatch", "map-missing"] * 2      # whatever the seed: an earlier degenerate map() with a LARGER limit in the same task
        forced_map = 5      # whatever the seed: runner.map under a limit of 2-3 over 3-4 items that complete OUT of dispatch order
        while True:
            s = gen_shape(rng)
            program = s["program"]
            if forced_map:
                if s["interrupts"] or any(n.get("mapOver") for g in program for n in g["nodes"]):
                    continue
                forced_map -= 1
                yield {"program": program, "depth": s["depth"], "top_map": True, "items": rng.randint(3, 4), "k": rng.choice([2, 3]),
                       "policy": rng.choice(["lifo", "random"]), "seed": rng.randint(0, 10**6), "prior": None}
                continue
            # inputs: mapping nodes along the path receive lists: give every graph input `x` a list when the ROOT maps, else scalar
            top_map = rng.random() < 0.3 and not s["interrupts"]
            yield {"program": program, "depth": s["depth"], "top_map": top_map, "items": rng.randint(1, 4), "k": rng.randint(1, 4),
                   "policy": rng.choice(["lifo", "fifo", "random"]), "seed": rng.randint(0, 10**6),
                   # an earlier run in the same task, with a LARGER limit, that ended abnormally (its limiter must not outlive it)
                   "prior": forced_prior.pop() if forced_prior else rng.choice([None, None, "fail", "fail-continue", "pause", "map-empty", "map-zip-mismatch", "map-missing"])}

    @staticmethod
    def _values(case: dict) -> list:
        # `x` flows unchanged into nested graphs; a mapping node needs a list: supply a list whenever any mapping node exists
        has_map = any(n.get("mapOver") for g in case["program"] for n in g["nodes"])
        return [["x", {"l": list(range(case["items"]))}]] if (has_map or case["top_map"]) else [["x", 1]]

    def _go(self, case: dict, k: Any, policy: str) -> dict:
        env = Env()
        ctl = sched.Controller(policy, case["seed"])
        vals = self._values(case)
        prelude = impl.prior_run(case["prior"], (k or 0) + 3) if case.get("prior") and k is not None else None
        try:
            if case["top_map"] and not any(n.get("mapOver") for g in case["program"] for n in g["nodes"]):
                o = impl.map_case(case["program"], vals, ["x"], "zip", "raise", {}, "async", max_concurrency=k, ctl=ctl, env=env, prelude=prelude)
                res = {"status": "ok" if o["raised"] is None else "raised:" + str(o["raised"]), "values": [r["values"] for r in o["results"]]}
            else:
                o = impl.run_case(case["program"], None, vals, {}, "async", max_concurrency=k, ctl=ctl, env=env, prelude=prelude)
                res = {"status": o["status"], "values": o["values"], "error": o["error"]}
        except sched.Deadlock:
            res = {"status": "deadlock", "values": []}
        res["peak"] = env.max_inflight
        res["trace"] = ctl.trace
        return res

    def impl(self, case: dict) -> Any:
        unlimited = self._go(case, None, case["policy"])
        limited = self._go(case, case["k"], case["policy"])
        return {"unlimited": {k: unlimited[k] for k in ("status", "values", "peak")}, "limited": limited}

    def oracle(self, case: dict, obs: Any) -> str | None:
        lim, unl = obs["limited"], obs["unlimited"]
        if unl["status"] in ("build-error",):
            return "valid shape rejected at construction"
        if lim["status"] == "deadlock":
            return f"max_concurrency={case['k']}: the run never finished (idle loop, nothing parked) — deadlock"
        if lim["peak"] > case["k"]:
            return f"max_concurrency={case['k']} but {lim['peak']} node functions were executing at one instant"
        if (lim["status"], lim["values"]) != (unl["status"], unl["values"]):
            return f"result under max_concurrency={case['k']} ({lim['status']}) differs from the unlimited run ({unl['status']})"
        return None

    def model(self, case: dict, driver: Any) -> Any:
        return None

    def compare(self, case: dict, i: Any, m: Any) -> str | None:
        return None

    def nontrivial(self, case: dict, obs: Any) -> bool:
        return obs["unlimited"]["peak"] > case["k"]

    def features(self, case: dict, obs: Any) -> dict:
        return {"k": case["k"], "depth": case["depth"], "unlimited_peak": min(obs["unlimited"]["peak"], 12), "limited_peak": obs["limited"]["peak"],
                "policy": case["policy"], "top_map": case["top_map"]}

    def signature(self, case: dict, obs: Any, why: str) -> str:
        return "case:" + canonical_hash({k: case[k] for k in ("program", "top_map", "items", "k")})

    def sample(self, case: dict, obs: Any) -> Any:
        return {k: case[k] for k in ("program", "top_map", "items", "k", "policy")}

    def neighbours(self, case: dict, rng: random.Random) -> Iterable[dict]:
        for _ in range(20):
            c = copy.deepcopy(case)
            c["seed"] = rng.randint(0, 10**6)
            c["policy"] = rng.choice(["lifo", "fifo", "random"])
            c["k"] = rng.randint(1, 4)
            yield c
        yield from self.cases(rng, "quick")


class C15WithModel(C15):
    """Adds the correspondence: the observed start/finish trace of bodies is replayed through the Lean semaphore model."""

    def model(self, case: dict, driver: Any) -> Any:
        return driver

    def compare(self, case: dict, i: Any, driver: Any) -> str | None:
        trace = i["limited"].get("trace", [])
        ids: dict[str, int] = {}
        events = []
        open_count: dict[str, list[int]] = {}
        n = 0
        for kind, fid in trace:
            if kind == "start":
                idx = n
                n += 1
                open_count.setdefault(fid, []).append(idx)
                events.append([True, idx])
            else:
                idx = open_count[fid].pop(0)
                events.append([False, idx])
        if not events:
            return None
        r = driver.ask({"op": "sem", "k": case["k"], "leaves": n, "events": events})
        if not r["ok"]:
            return f"the observed start/finish trace is not a run of the semaphore model with k={case['k']}"
        if r["max"] != i["limited"]["peak"]:
            return f"peak in flight: impl={i['limited']['peak']} model replay={r['max']}"
        return None


PROP = C15WithModel()
