"""Run ONE case of a property's implementation side in a fresh interpreter: `python -m harness.freshrun Cxx` (case JSON on stdin, observation JSON on
stdout). Process-wide state (counters, memo tables, first-use effects) then starts from zero, as in a user's short script."""
from __future__ import annotations

import importlib
import json
import sys


def main() -> int:
    prop = sys.argv[1].lower()
    case = json.loads(sys.stdin.read())
    case.pop("freshProc", None)
    mod = importlib.import_module(f"harness.props.{prop}")
    obs = mod.PROP.impl(case)
    sys.stdout.write("\n@@OBS@@" + json.dumps(obs, default=str))
    return 0


if __name__ == "__main__":
    sys.exit(main())
