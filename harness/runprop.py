"""Base class for properties whose cases are whole runs: {program, values, cfg, runner, order}."""
from __future__ import annotations

from typing import Any

from . import impl
from .engine import Prop, canonical_hash


class RunProp(Prop):
    compare_events = False
    compare_calls = True

    def impl(self, case: dict) -> Any:
        return impl.run_case(case["program"], case.get("root"), case["values"], case.get("cfg", {}), case.get("runner", "sync"),
                             record_events=self.compare_events, max_concurrency=case.get("max_concurrency"))

    def request(self, case: dict) -> dict:
        req = {"op": "run", "program": case["program"], "values": case["values"], "cfg": case.get("cfg", {}), "runner": case.get("runner", "sync")}
        if case.get("root") is not None:
            req["root"] = case["root"]
        if "order" in case:
            req["order"] = case["order"]
        return req

    def model(self, case: dict, driver: Any) -> Any:
        return impl.model_obs(driver.ask(self.request(case)))

    def compare(self, case: dict, i: Any, m: Any) -> str | None:
        for k in ("status", "values", "error", "raised", "pause_core", "warnings"):
            iv, mv = i.get(k), m.get(k)
            if k == "pause_core":
                iv = _pause_core(i.get("pause"))
                mv = _pause_core(m.get("pause"))
            if impl.differ(iv, mv):
                return f"{k}: impl={iv!r} model={mv!r}"
        if self.compare_calls:
            ic, mc = i["calls"], m["calls"]
            if case.get("runner") == "async":
                ic, mc = impl.sort_calls(ic), impl.sort_calls(mc)
            if impl.differ(ic, mc):
                return f"call log differs: impl={ic!r} model={mc!r}"
        if self.compare_events and case.get("runner", "sync") == "sync":
            ie, me = impl.ordinalise(i["events"]), impl.ordinalise(m["events"])
            if ie != me:
                return f"event stream differs: impl={ie!r} model={me!r}"
        return None

    def signature(self, case: dict, obs: Any, why: str) -> str:
        return "case:" + canonical_hash({"program": case["program"], "values": case["values"], "cfg": case.get("cfg", {})})

    def expand_fixed(self, case: dict) -> list[dict]:
        if "runner" in case:
            return [case]
        return [dict(case, runner=r) for r in ("sync", "async")]

    def sample(self, case: dict, obs: Any) -> Any:
        return {k: case[k] for k in ("program", "values", "cfg", "runner") if k in case}


def _pause_core(p: Any) -> Any:
    if p is None:
        return None
    return {k: p.get(k) for k in ("node", "outputParam", "value", "outputParams", "values")}
