"""The check pipeline shared by all properties.

1. Lean: `lake build HG` (no-op when built) + axiom audit of the property's theorems.
2. Correspondence: generated cases -> implementation observation vs model observation.
3. Every case is also judged by the property's implementation-side oracle (independent of the model).
4. A broken proof obligation or a model/implementation disagreement triggers a failing-input search
   (oracle over the case, its shrinks and its neighbours); the outcome is a VIOLATION line with a replay
   file, ending in `no-failing-input-found` when the search finds nothing.
Exit codes: 0 held, 1 violation, 2 harness failure (never a VIOLATION line).
"""
from __future__ import annotations

import hashlib
import json
import os
import random
import re
import subprocess
import sys
import time
import traceback
from pathlib import Path
from typing import Any, Callable, Iterable

from . import common
from .common import HarnessError, LEAN, VERIF

ALLOWED_AXIOMS = {"propext", "Classical.choice", "Quot.sound"}
FORBIDDEN = re.compile(r"\b(sorry|admit|native_decide|bv_decide|implemented_by|unsafe)\b|^\s*axiom\s|maxHeartbeats\s+0")
TRUSTED_BASE = [
    "Lean 4.33.0 kernel (leanchecker re-check in the thorough tier)",
    "axioms allowed in property theorems: propext, Classical.choice, Quot.sound (audited by #print axioms on every run)",
    "the hand-written Lean model's faithfulness to /repo, checked by this run's differential correspondence on generated cases only",
    "the Python harness (generators, canonicalisation, oracles) and the Lean driver's JSON glue",
    "CPython, networkx, asyncio, pickle/hmac/diskcache behave as documented; generated values compare structurally",
]


def canonical_hash(obj: Any) -> str:
    return hashlib.sha256(json.dumps(obj, sort_keys=True, default=str).encode()).hexdigest()[:16]


# ------------------------------------------------------------------ Lean side

def strip_comments(src: str) -> str:
    src = re.sub(r"/-.*?-/", "", src, flags=re.S)
    return re.sub(r"--.*", "", src)


def lean_build() -> tuple[bool, str]:
    # checks may run concurrently (thorough tiers in parallel): one build at a time
    import fcntl

    (LEAN / ".lake").mkdir(exist_ok=True)
    with open(LEAN / ".lake" / "verif-build.lock", "w") as lk:
        fcntl.flock(lk, fcntl.LOCK_EX)
        p = subprocess.run(["lake", "build", "HG", "driver"], cwd=LEAN, capture_output=True, text=True)
    return p.returncode == 0, (p.stdout + p.stderr)[-4000:]


def _import_closure(mod: str, seen: set[str]) -> None:
    if mod in seen:
        return
    seen.add(mod)
    f = LEAN / (mod.replace(".", "/") + ".lean")
    for m in re.findall(r"^import\s+(HG\.[\w.]+)", f.read_text(), flags=re.M):
        _import_closure(m, seen)


def lean_recheck(prop: str) -> dict:
    """Thorough tier: the independent re-checker replays the compiled modules the property's theorems live in and depend on."""
    index = json.loads((LEAN / "props_index.json").read_text())
    mods: set[str] = set()
    for m in index.get(prop, {}).get("modules", []):
        _import_closure(m, mods)
    t0 = time.time()
    p = subprocess.run(["lake", "env", "leanchecker"] + sorted(mods), cwd=LEAN, capture_output=True, text=True)
    return {"modules": len(mods), "ok": p.returncode == 0, "seconds": round(time.time() - t0, 1), "output": (p.stdout + p.stderr)[-1500:]}


def lean_audit(prop: str) -> dict:
    """Re-check the property's theorems: build, forbidden-token grep, `#print axioms` per theorem."""
    index = json.loads((LEAN / "props_index.json").read_text())
    entry = index.get(prop, {"modules": [], "theorems": []})
    theorems = entry["theorems"]
    res: dict[str, Any] = {"obligations": len(theorems), "discharged": 0, "failed": [], "theorems": [], "partial": []}
    ok, out = lean_build()
    if not ok:
        res["failed"] = [t["name"] for t in theorems]
        res["build_error"] = out
        return res
    # forbidden tokens anywhere under lean/HG (comments stripped)
    bad_files = []
    for f in sorted((LEAN / "HG").rglob("*.lean")):
        if FORBIDDEN.search(strip_comments(f.read_text())):
            bad_files.append(str(f.relative_to(LEAN)))
    if bad_files:
        res["failed"] = [t["name"] for t in theorems]
        res["build_error"] = f"forbidden token in {bad_files}"
        return res
    adir = LEAN / ".lake" / "audit"
    adir.mkdir(parents=True, exist_ok=True)
    afile = adir / f"Audit_{prop}.lean"
    lines = [f"import {m}" for m in entry["modules"]]
    lines += [f"#print axioms {t['name']}" for t in theorems]
    afile.write_text("\n".join(lines) + "\n")
    p = subprocess.run(["lake", "env", "lean", str(afile)], cwd=LEAN, capture_output=True, text=True)
    text = p.stdout + p.stderr
    for t in theorems:
        name = t["name"]
        m = re.search(r"'" + re.escape(name) + r"' depends on axioms: \[([^\]]*)\]", text)
        m0 = re.search(r"'" + re.escape(name) + r"' does not depend on any axioms", text)
        axioms: list[str] | None = None
        if m0:
            axioms = []
        elif m:
            axioms = [a.strip() for a in m.group(1).replace("\n", " ").split(",") if a.strip()]
        if axioms is not None and set(axioms) <= ALLOWED_AXIOMS:
            res["discharged"] += 1
            res["theorems"].append({"name": name, "axioms": axioms, "strength": t.get("strength", "full")})
            if t.get("strength") == "partial":
                res["partial"].append({"name": name, "missing": t.get("missing", "")})
        else:
            res["failed"].append(name)
    if res["failed"]:
        res["build_error"] = text[-2000:]
    return res


# ------------------------------------------------------------------ property protocol

class Prop:
    """Base class of a property check. Subclasses set `id`, `level`, and implement the hooks."""

    id = "C00"
    level = "proof"
    nontrivial_rule = ""
    budgets = {"quick": 100, "thorough": 1000}

    def cases(self, rng: random.Random, tier: str) -> Iterable[dict]:
        raise NotImplementedError

    def impl(self, case: dict) -> Any:
        raise NotImplementedError

    def model(self, case: dict, driver: common.Driver) -> Any:
        raise NotImplementedError

    def compare(self, case: dict, impl: Any, model: Any) -> str | None:
        """None when the observations agree on what the property constrains; else a description."""
        return None if impl == model else "observations differ"

    def oracle(self, case: dict, impl: Any) -> str | None:
        """Implementation-side statement of the property on this case: None = holds, else what fails."""
        return None

    def nontrivial(self, case: dict, impl: Any) -> bool:
        return True

    def neighbours(self, case: dict, rng: random.Random) -> Iterable[dict]:
        return []

    def shrink(self, case: dict) -> Iterable[dict]:
        return []

    def sample(self, case: dict, impl: Any) -> Any:
        return case

    def features(self, case: dict, impl: Any) -> dict[str, Any]:
        """Histogram keys describing the case (input distribution for the evidence)."""
        return {}

    def signature(self, case: dict, impl: Any, why: str) -> str:
        """Identity of a failing input for the known-findings file: the exact case by default."""
        return "case:" + canonical_hash(case)

    def fixed_cases(self) -> list[dict]:
        """Corpus + replays of known/fixed findings; run first on every check."""
        out: list[dict] = []
        for d in ("corpus", "findings"):
            for f in sorted((VERIF / d).glob(f"{self.id}-*.json")):
                rec = json.loads(f.read_text())
                out.extend(self.expand_fixed(rec["case"]))
        return out

    def expand_fixed(self, case: dict) -> list[dict]:
        return [case]


# ------------------------------------------------------------------ known findings

def load_known() -> list[dict]:
    f = VERIF / "known_findings.json"
    if not f.exists():
        return []
    return json.loads(f.read_text())["findings"]


def match_known(prop: str, signature: str) -> dict | None:
    for k in load_known():
        if k["property"] == prop and k["status"] == "known" and k["signature"] == signature:
            return k
    return None


# ------------------------------------------------------------------ main loop

class Report:
    def __init__(self, prop: Prop, tier: str, seed: int):
        self.prop, self.tier, self.seed = prop, tier, seed
        self.violations: list[dict] = []
        self.known_hits: dict[str, dict] = {}
        self.evals = 0
        self.hashes: set[str] = set()
        self.samples: list[Any] = []
        self.disagreements = 0
        self.validated = 0
        self.hist: dict[str, dict[str, int]] = {}
        self.t0 = time.time()

    def feature(self, feats: dict[str, Any]) -> None:
        for k, v in feats.items():
            h = self.hist.setdefault(k, {})
            h[str(v)] = h.get(str(v), 0) + 1


REPLAYING = False


def write_replay(prop_id: str, seed: int, n: int, payload: dict) -> str:
    d = VERIF / "replays"
    d.mkdir(exist_ok=True)
    tag = "" if str(common.REPO) == "/repo" else "alt-"      # runs against another checkout never overwrite /repo's replays
    if REPLAYING:
        tag += "re-"                                          # replaying a file never overwrites it
    path = d / f"{tag}{prop_id}-{seed}-{n}.json"
    path.write_text(json.dumps(payload, indent=1, default=str))
    return str(path.relative_to(VERIF))


def search_failing_input(prop: Prop, case: dict, rng: random.Random, budget: int) -> tuple[dict, Any, str] | None:
    """Oracle over the case, its shrinks and a seeded neighbourhood; returns the first failing one."""
    import itertools

    seen = 0
    t_end = time.time() + (40 if budget <= 300 else 240)     # a search is bounded in time as well as in cases
    # neighbours() may be an endless generator: never materialise it
    for cand in itertools.chain([case], prop.shrink(case), prop.neighbours(case, rng)):
        if seen >= budget or time.time() > t_end:
            break
        seen += 1
        try:
            obs = prop.impl(cand)
            why = prop.oracle(cand, obs)
        except HarnessError:
            raise
        except Exception:
            continue
        if why:
            sig = prop.signature(cand, obs, why)
            if sig and match_known(prop.id, sig):
                continue
            return cand, obs, why
    return None


def run_check(prop: Prop, tier: str, seed: int, replay: str | None = None) -> int:
    rep = Report(prop, tier, seed)
    global REPLAYING
    REPLAYING = bool(replay)
    if not replay:
        for old in (VERIF / "replays").glob(("" if str(common.REPO) == "/repo" else "alt-") + f"{prop.id}-{seed}-*.json"):
            old.unlink()          # replay files always belong to the run that wrote them
    rng = random.Random(seed * 1000003 + int(prop.id[1:]))
    audit = lean_audit(prop.id)
    if tier == "thorough" and not replay and not audit["failed"]:
        rc = lean_recheck(prop.id)
        audit["leanchecker"] = {k: rc[k] for k in ("modules", "ok", "seconds")}
        if not rc["ok"]:
            audit["failed"] = [t["name"] for t in audit["theorems"]]
            audit["build_error"] = "leanchecker rejected the compiled modules: " + rc["output"]
    driver = common.Driver()
    max_viol = 3
    try:
        # a proof obligation that no longer checks: search for a failing input, then report
        if audit["failed"]:
            found = None
            for case in _take(prop.cases(random.Random(seed + 17), tier), min(60, prop.budgets[tier])):
                found = search_failing_input(prop, case, rng, 1)
                if found:
                    break
            payload = {"property": prop.id, "broken": "theorem", "theorems": audit["failed"], "detail": audit.get("build_error", "")}
            if found:
                payload.update({"case": found[0], "observed": found[1], "why": found[2]})
            rep.violations.append({"payload": payload, "found": bool(found)})

        if replay:
            stream: Iterable[tuple[str, dict]] = [("replay", json.loads(Path(replay).read_text())["case"])]
        else:
            stream = _stream(prop, seed, tier)
        for origin, case in stream:
            if len(rep.violations) >= max_viol:
                break
            rep.evals += 1
            obs = prop.impl(case)
            why = prop.oracle(case, obs)
            if why:
                sig = prop.signature(case, obs, why)
                known = match_known(prop.id, sig)
                if known:
                    rep.known_hits[known["id"]] = known
                else:
                    rep.violations.append({"payload": {"property": prop.id, "origin": origin, "case": case, "observed": obs, "why": why, "signature": sig}, "found": True})
                    continue
            mobs = prop.model(case, driver)
            rep.validated += 1
            diff = prop.compare(case, obs, mobs)
            if diff and not (why and match_known(prop.id, prop.signature(case, obs, why))):
                rep.disagreements += 1
                found = search_failing_input(prop, case, rng, 300 if tier == "quick" else 2000)
                payload = {"property": prop.id, "broken": f"corr:{prop.id}", "origin": origin, "first_differing_case": case, "difference": diff, "impl": obs, "model": mobs}
                if found:
                    payload.update({"case": found[0], "observed": found[1], "why": found[2]})
                rep.violations.append({"payload": payload, "found": bool(found)})
                continue
            h = canonical_hash(prop.sample(case, obs))
            if prop.nontrivial(case, obs) and h not in rep.hashes:
                rep.hashes.add(h)
                if len(rep.samples) < 3:
                    rep.samples.append(prop.sample(case, obs))
            rep.feature(prop.features(case, obs))
    finally:
        driver.close()
    return finish(rep, audit)


def _take(it: Iterable[dict], n: int) -> Iterable[dict]:
    for i, x in enumerate(it):
        if i >= n:
            return
        yield x


def _stream(prop: Prop, seed: int, tier: str) -> Iterable[tuple[str, dict]]:
    for c in prop.fixed_cases():
        yield "corpus", c
    rng = random.Random(seed * 7919 + int(prop.id[1:]))
    for c in _take(prop.cases(rng, tier), prop.budgets[tier]):
        yield "generated", c


def finish(rep: Report, audit: dict) -> int:
    prop = rep.prop
    wall = time.time() - rep.t0
    for k in rep.known_hits.values():
        print(f"KNOWN-FINDING: property={prop.id} {k['what']}")
    lines = []
    for i, v in enumerate(rep.violations):
        path = write_replay(prop.id, rep.seed, i, v["payload"])
        suffix = "" if v["found"] else " no-failing-input-found"
        lines.append(f"VIOLATION property={prop.id} replay={path}{suffix}")
    cov: dict[str, Any] = {
        "obligations": audit["obligations"],
        "discharged": audit["discharged"],
        "checker_cmd": "cd lean && lake build HG && lake env lean .lake/audit/Audit_%s.lean   (# print axioms per theorem)" % prop.id,
        "trusted_base": TRUSTED_BASE,
        "theorems": audit["theorems"],
        "partial_theorems": audit["partial"],
        "evaluations": rep.evals,
        "distinct_nontrivial": len(rep.hashes),
        "rule": prop.nontrivial_rule,
        "samples": rep.samples or [{"note": "no non-trivial sample recorded"}],
        "traces_validated_against_impl": rep.validated,
        "disagreements_checked": rep.disagreements,
        "input_distribution": rep.hist,
        "known_findings_reproduced": sorted(rep.known_hits),
        "repo": str(common.REPO),
    }
    if "leanchecker" in audit:
        cov["leanchecker"] = audit["leanchecker"]
    if prop.level == "translation_validation":
        cov["programs"] = rep.evals
    ev = {
        "property_id": prop.id,
        "tier": rep.tier,
        "seed": rep.seed,
        "level": prop.level,
        "coverage": cov,
        "assumptions": getattr(prop, "assumptions", []),
        "wall_s": round(wall, 2),
        "violations": len(rep.violations),
    }
    edir = VERIF / "evidence"
    edir.mkdir(exist_ok=True)
    (edir / f"{prop.id}.json").write_text(json.dumps(ev, indent=1, default=str))
    for ln in lines:
        print(ln)
    print(f"{prop.id} {rep.tier}: {rep.evals} cases, {len(rep.hashes)} distinct non-trivial, theorems {audit['discharged']}/{audit['obligations']}, "
          f"{len(rep.violations)} violation(s), {wall:.1f}s")
    return 1 if rep.violations else 0


def main(argv: list[str]) -> int:
    import importlib

    if len(argv) < 2:
        print("usage: check <Cxx> quick|thorough | check <Cxx> --replay <file>")
        return 2
    pid = argv[0].upper()
    tier = "quick"
    replay = None
    if argv[1] == "--replay":
        replay = argv[2]
    else:
        tier = argv[1]
    tier = os.environ.get("VERIF_TIER", tier) if argv[1] not in ("quick", "thorough") else tier
    seed = int(os.environ.get("VERIF_SEED", "0"))
    import faulthandler
    import signal

    # watchdog: a stuck run is a harness failure (exit 2), never a verdict
    def _timeout(signum: int, frame: Any) -> None:
        faulthandler.dump_traceback(file=sys.stderr)
        print(f"HARNESS-TIMEOUT: {pid} {tier} exceeded its time budget", file=sys.stderr)
        os._exit(2)

    signal.signal(signal.SIGALRM, _timeout)
    signal.alarm(900 if tier == "quick" else 5400)
    try:
        mod = importlib.import_module(f"harness.props.{pid.lower()}")
        prop = mod.PROP
        return run_check(prop, tier, seed, replay)
    except HarnessError as e:
        print(f"HARNESS-ERROR: {e}", file=sys.stderr)
        return 2
    except Exception:
        traceback.print_exc()
        return 2
