"""Seeded generators of program descriptions (mostly valid by construction).

A program is a list of graph descriptions in dependency order (a nested-graph node refers to an
earlier index); the same JSON goes to the Lean driver and to `build.build_program`.
Every random choice derives from the `random.Random` passed in, so a case replays from (seed, index).
"""
from __future__ import annotations

import random
from typing import Any


class Names:
    """Fresh-name supply shared by all graphs of one program (nesting exposes inner names outside)."""

    def __init__(self) -> None:
        self.n = 0

    def fresh(self, prefix: str) -> str:
        self.n += 1
        return f"{prefix}{self.n}"


def rand_value(rng: random.Random, depth: int = 0) -> Any:
    """A run-time value in the closed universe (JSON encoding). No bools/floats (Python `==` quirks)."""
    r = rng.random()
    if r < 0.45 or depth >= 2:
        return rng.randint(-3, 9)
    if r < 0.6:
        return rng.choice(["a", "b", "xyz", ""])
    if r < 0.7:
        return None
    if r < 0.85:
        return {"t": [rand_value(rng, depth + 1) for _ in range(rng.randint(0, 2))]}
    return {"l": [rand_value(rng, depth + 1) for _ in range(rng.randint(0, 3))]}


def _fn_node(name: str, params: list, outs: list[str], body: dict, **extra: Any) -> dict:
    d = {"name": name, "kind": "fn", "params": params, "dataOuts": outs, "body": body}
    d.update(extra)
    return d


def gen_dag(
    rng: random.Random,
    names: Names,
    gi: int,
    *,
    n_nodes: int,
    inner_graphs: list[tuple[int, dict, dict]] | None = None,
    allow_fed_default: bool = True,
    allow_emit: bool = True,
    fail_node: int | None = None,
    p_rename: float = 0.2,
    rename_graph_outputs: bool = True,
) -> tuple[dict, dict]:
    """Random gate-free DAG. Returns (graph description, info).

    info: {"required": [...], "optional": {name: kind}, "outputs": [...], "values": [[k, v]...]}
    `inner_graphs`: (index, description, info) of already generated graphs that may be nested here.
    """
    # A node that waits for a signal is not re-run when a late upstream value arrives (recorded finding C01-F1),
    # so a graph gets either default-fed parameters or wait_for consumers from the random stream, never both.
    if allow_fed_default and allow_emit and rng.random() < 0.5:
        allow_fed_default = False
    allow_wait = allow_emit and not allow_fed_default
    nodes: list[dict] = []
    produced: list[str] = []          # data outputs available so far (topological order)
    emitted: list[tuple[str, str]] = []   # (signal, producer)
    ext_required: list[str] = []
    ext_default: dict[str, Any] = {}      # name -> default (JSON) shared by all consumers
    bound: dict[str, Any] = {}
    fed_default: dict[str, Any] = {}   # produced value -> default shared by all its consumers
    inner_graphs = inner_graphs if inner_graphs is not None else []   # consumed: each graph is nested at most once

    for i in range(n_nodes):
        nname = names.fresh("n")
        # occasionally nest an inner graph as a node
        if inner_graphs and rng.random() < 0.5:
            gidx, gdesc, ginfo = inner_graphs.pop(rng.randrange(len(inner_graphs)))
            in_ren = []
            for p in ginfo["all_inputs"]:
                feedable = p in ginfo["required"] or (p in ginfo.get("defaulted", []) and allow_fed_default and rng.random() < 0.2)
                if produced and feedable and rng.random() < 0.5:
                    v = rng.choice(produced)
                    if p in ginfo["required"]:
                        if fed_default.get(v) is None:
                            in_ren.append([p, v])
                    elif v not in fed_default:
                        # an inner default behind an outer edge: no other consumer may share this value
                        fed_default[v] = "__blocked__"
                        in_ren.append([p, v])
                elif rng.random() < p_rename:
                    in_ren.append([p, names.fresh("i")])
            # wrapper input names must stay pairwise distinct
            cur = [dict(in_ren).get(p, p) for p in ginfo["all_inputs"]]
            if len(set(cur)) != len(cur):
                in_ren = []
                cur = list(ginfo["all_inputs"])
            out_ren = []
            outs = []
            for o in ginfo["outputs"]:
                if rename_graph_outputs and rng.random() < p_rename:
                    no = names.fresh("v")
                    out_ren.append([o, no])
                    outs.append(no)
                else:
                    outs.append(o)
            for p_orig, p_cur in zip(ginfo["all_inputs"], cur):
                if p_cur in produced:
                    fed_default.setdefault(p_cur, None)
                    continue
                if p_orig in ginfo["required"]:
                    if p_cur not in ext_required and p_cur not in ext_default and p_cur not in bound:
                        ext_required.append(p_cur)
                else:
                    # optional in the inner graph (default or inner binding): optional outside too
                    ext_default.setdefault(p_cur, "__inner__")
            nodes.append({"name": nname, "kind": "graph", "inner": gidx, "inRen": in_ren, "outRen": out_ren})
            produced.extend(outs)
            continue

        k = rng.choice([0, 1, 1, 2, 2, 3])
        params: list = []
        in_ren: list = []
        used: set[str] = set()
        for _ in range(k):
            r = rng.random()
            dflt = None
            if produced and r < 0.55:
                v = rng.choice(produced)
                if v in used or fed_default.get(v) == "__blocked__":
                    continue
                if v not in fed_default:
                    fed_default[v] = {"d": rand_value(rng)} if allow_fed_default and rng.random() < 0.08 else None
                dflt = fed_default[v]
            elif r < 0.72:
                reuse = [n for n in ext_required if n not in used]
                if reuse and rng.random() < 0.4:
                    v = rng.choice(reuse)
                else:
                    v = names.fresh("i")
                    ext_required.append(v)
            elif r < 0.86:
                cands = [n for n, d in ext_default.items() if d != "__inner__" and n not in used]
                if cands and rng.random() < 0.4:
                    v = rng.choice(cands)
                else:
                    v = names.fresh("i")
                    ext_default[v] = rand_value(rng)
                dflt = {"d": ext_default[v]}
            else:
                cands = [n for n in bound if n not in used]
                if cands and rng.random() < 0.4:
                    v = rng.choice(cands)
                else:
                    v = names.fresh("i")
                    bound[v] = rand_value(rng)
            used.add(v)
            if rng.random() < p_rename:
                orig = names.fresh("p")
                params.append([orig, dflt])
                in_ren.append([orig, v])
            else:
                params.append([v, dflt])
        n_out = rng.choice([0, 1, 1, 1, 2, 3])
        outs = [names.fresh("v") for _ in range(n_out)]
        if fail_node is not None and i == fail_node:
            body: dict = {"b": "fail", "t": "E" + nname}
        elif n_out >= 2:
            body = {"b": "multi", "t": nname, "k": n_out}
        else:
            body = rng.choice([{"b": "tag", "t": nname}, {"b": "tag", "t": nname}, {"b": "sum", "k": rng.randint(0, 3)}, {"b": "const", "v": rand_value(rng)}])
            if rng.random() < 0.05:
                body = {"b": "genexp", "k": rng.randint(0, 3)}
        extra: dict[str, Any] = {}
        if in_ren:
            extra["inRen"] = in_ren
        if allow_emit and rng.random() < 0.15:
            sig = names.fresh("s")
            extra["emits"] = [sig]
            emitted.append((sig, nname))
        if allow_wait and emitted and rng.random() < 0.25:
            sig, prod = rng.choice(emitted)
            if prod != nname and sig not in extra.get("emits", []):
                extra["waitFor"] = [sig]
        nodes.append(_fn_node(nname, params, outs, body, **extra))
        produced.extend(outs)

    rng.shuffle(nodes)
    gdesc = {"name": f"g{gi}", "nodes": nodes, "bound": [[k, v] for k, v in bound.items()]}
    # run-time values: all required; optional ones sometimes
    values = [[n, rand_value(rng)] for n in ext_required]
    for n, d in ext_default.items():
        if rng.random() < 0.35:
            values.append([n, rand_value(rng)])
    for n in bound:
        if rng.random() < 0.2:
            values.append([n, rand_value(rng)])
    rng.shuffle(values)
    info = {
        "required": list(ext_required),
        "optional": list(ext_default) + list(bound),
        "defaulted": [n for n, d in ext_default.items() if d != "__inner__"],
        "all_inputs": list(ext_required) + list(ext_default) + list(bound),
        "outputs": list(produced) + [s for s, _ in emitted],
        "values": values,
    }
    return gdesc, info


def gen_dag_program(rng: random.Random, *, max_nodes: int = 8, depth: int = 0, **kw: Any) -> dict:
    """A DAG program, possibly with nested DAGs up to `depth`. Returns {"program", "values", "info"}."""
    names = Names()
    program: list[dict] = []
    pool: list[tuple[int, dict, dict]] = []
    levels = rng.randint(0, depth) if depth else 0
    for _ in range(levels):
        n_inner = rng.randint(1, 2)
        new_pool = []
        for _ in range(n_inner):
            gi = len(program)
            gdesc, ginfo = gen_dag(rng, names, gi, n_nodes=rng.randint(1, 4), inner_graphs=pool, **kw)
            program.append(gdesc)
            new_pool.append((gi, gdesc, _nested_interface(gdesc, ginfo)))
        pool = new_pool
    gi = len(program)
    gdesc, info = gen_dag(rng, names, gi, n_nodes=rng.randint(1, max_nodes), inner_graphs=pool, **kw)
    program.append(gdesc)
    return {"program": program, "values": info["values"], "info": info}


def _nested_interface(gdesc: dict, ginfo: dict) -> dict:
    """What a wrapper of this graph exposes: inputs split into required / optional, and outputs."""
    return {
        "required": ginfo["required"],
        "defaulted": ginfo.get("defaulted", []),
        "all_inputs": ginfo["all_inputs"],
        "outputs": ginfo["outputs"],
    }


# ---------------------------------------------------------------- gates

def gen_gated_dag(rng: random.Random, *, max_nodes: int = 8, p_closed: float = 0.3, allow_mutex: bool = True, allow_gate_signal: bool = False) -> dict:
    """Acyclic program with if/else and multi-way gates in front of groups of nodes.

    Gates read integer run-time inputs or integer upstream values; targets are later nodes (or END / None /
    fallback / several targets); branch nodes may produce the same output name (mutually exclusive producers).
    """
    names = Names()
    nodes: list[dict] = []
    ints: list[str] = []          # names known to hold integers (external or produced by `sum`)
    produced: list[str] = []
    required: list[str] = []
    values: list = []

    def new_int_input() -> str:
        v = names.fresh("i")
        required.append(v)
        values.append([v, rng.randint(0, 4)])
        ints.append(v)
        return v

    def plain_node(gated_inputs: bool = True) -> dict:
        nname = names.fresh("n")
        k = rng.choice([0, 1, 1, 2])
        params = []
        used = set()
        for _ in range(k):
            if produced and rng.random() < 0.6:
                v = rng.choice(produced)
            elif ints and rng.random() < 0.5:
                v = rng.choice(ints)
            else:
                v = new_int_input()
            if v in used:
                continue
            used.add(v)
            params.append([v, None])
        out = names.fresh("v")
        if rng.random() < 0.5:
            body = {"b": "sum", "k": rng.randint(0, 2)}
            ints.append(out)
        else:
            body = {"b": "tag", "t": nname}
        produced.append(out)
        return _fn_node(nname, params, [out], body)

    n = rng.randint(2, max_nodes)
    i = 0
    while i < n:
        r = rng.random()
        if r < 0.45 and i + 1 < n:
            # a gate followed by its branch nodes
            gname = names.fresh("g")
            src = rng.choice(ints) if ints and rng.random() < 0.7 else new_int_input()
            n_br = rng.randint(1, 3)
            shared_out = names.fresh("v") if allow_mutex and n_br >= 2 and rng.random() < 0.4 else None
            branches = []
            for _ in range(n_br):
                b = plain_node()
                if shared_out is not None:
                    # mutually exclusive producers of one name
                    old = b["dataOuts"][0]
                    produced.remove(old)
                    if old in ints:
                        ints.remove(old)
                    b["dataOuts"] = [shared_out]
                    b["body"] = {"b": "tag", "t": b["name"]}
                branches.append(b)
            if shared_out is not None:
                produced.append(shared_out)
            default_open = rng.random() >= p_closed
            if rng.random() < 0.45 and n_br <= 2:
                t = branches[0]["name"]
                f = branches[1]["name"] if n_br == 2 else "__END__"
                if rng.random() < 0.5:
                    t, f = f, t
                gate = {"name": gname, "kind": "ifelse", "params": [[src, None]], "targets": [t, f],
                        "body": {"b": "lt", "k": rng.randint(0, 4)}, "defaultOpen": default_open}
            else:
                targets = [b["name"] for b in branches]
                multi = shared_out is None and rng.random() < 0.3
                if rng.random() < 0.5:
                    targets.append("__END__")
                rows = []
                for val in range(0, 5):
                    if rng.random() < 0.8:
                        if multi:
                            rows.append([val, rng.sample(targets, rng.randint(0, len(targets)))])
                        else:
                            rows.append([val, rng.choice(targets + [None])])
                dflt = [] if multi and rng.random() < 0.5 else None
                fallback = rng.choice(targets) if (not multi and rng.random() < 0.3) else None
                gate = {"name": gname, "kind": "route", "params": [[src, None]], "targets": targets,
                        "multiTarget": multi, "fallback": fallback, "defaultOpen": default_open,
                        "body": {"b": "table", "rows": rows, "dflt": dflt}}
            if allow_gate_signal and rng.random() < 0.25:
                # the gate also emits an ordering signal that one of its own targets waits for: gate and target are then joined
                # by an ordering edge as well as by the control relation
                sig = names.fresh("s")
                gate["emits"] = [sig]
                br = rng.choice(branches)
                if rng.random() < 0.5:
                    br["waitFor"] = [sig]
                else:
                    br["params"] = br["params"] + [[sig, None]]      # the signal consumed as an ordinary input (a data edge gate -> target)
            nodes.append(gate)
            nodes.extend(branches)
            i += 1 + n_br
        else:
            nodes.append(plain_node())
            i += 1
    # several gates sharing a target: add a second gate in front of an already gated node
    # (never a producer of a name shared between exclusive branches: a second gate could start it while the first one chose the
    # other branch — two writers of the name in one run, which the constructor rejects)
    n_prod: dict[str, int] = {}
    for nd in nodes:
        for o in nd.get("dataOuts", []):
            n_prod[o] = n_prod.get(o, 0) + 1
    sole = {nd["name"] for nd in nodes if all(n_prod[o] == 1 for o in nd.get("dataOuts", []))}
    gated = [t for g in nodes if g["kind"] in ("route", "ifelse") for t in g["targets"] if t != "__END__" and t in sole]
    if gated and rng.random() < 0.3:
        tgt = rng.choice(gated)
        src = new_int_input()
        nodes.insert(0, {"name": names.fresh("g"), "kind": "ifelse", "params": [[src, None]], "targets": [tgt, "__END__"],
                         "body": {"b": "lt", "k": rng.randint(0, 4)}, "defaultOpen": rng.random() >= p_closed})
    if rng.random() < 0.5:
        rng.shuffle(nodes)
    return {"program": [{"name": "g0", "nodes": nodes, "bound": []}], "values": values}


# ---------------------------------------------------------------- loops

def gen_loop(rng: random.Random, *, max_n: int = 6, allow_nested_body: bool = False) -> dict:
    """Gate-driven loop families (state gate / signal gate / exit node / accumulator)."""
    names = Names()
    family = rng.choice(["state", "state", "signal", "exit", "accum"])
    separate_emitter = False
    two_acc = False
    k = rng.randint(1, 3)               # body length
    n = rng.randint(0, max_n)           # iterations dictated by the gate: loop while x < n
    x0 = rng.randint(0, 2)
    nodes: list[dict] = []
    x = "x"
    prev = x
    body_names = []
    for j in range(k):
        bn = f"b{j+1}"
        body_names.append(bn)
        out = x if j == k - 1 else f"y{j+1}"
        node = _fn_node(bn, [[prev, None]], [out], {"b": "sum", "k": 1 if j == k - 1 else 0})
        prev = out
        nodes.append(node)
    first = body_names[0]
    default_open = rng.random() < 0.7
    exit_target = "__END__"
    if family == "exit":
        nodes.append(_fn_node("done", [[x, None]], ["result"], {"b": "tag", "t": "done"}))
        exit_target = "done"
    if family == "signal":
        if rng.random() < 0.5:
            nodes[-1]["emits"] = ["turn_done"]
        else:
            # the end-of-iteration signal comes from a separate downstream node, not from the loop-variable writer
            nodes.append(_fn_node("audit", [[x, None]], [], {"b": "tag", "t": "audit"}, emits=["turn_done"]))
            separate_emitter = True
    if family == "accum":
        # ungated accumulator fed by the loop variable: runs once per new x
        nodes.append(_fn_node("acc", [["messages", None], [x, None]], ["messages"], {"b": "append"}))
        if rng.random() < 0.5:
            # a second accumulator of the same name, ordered after the first by a signal (two self-accumulating producers of one value)
            two_acc = True
            nodes[-1]["emits"] = ["acc_done"]
            nodes.append(_fn_node("acc2", [["messages", None], [x, None]], ["messages"], {"b": "append"}, waitFor=["acc_done"]))
    gate_wait = ["turn_done"] if family == "signal" else []
    if rng.random() < 0.5 and exit_target == "__END__" or family == "exit":
        gate = {"name": "gate", "kind": "ifelse", "params": [[x, None]], "targets": [first, exit_target],
                "body": {"b": "lt", "k": n}, "defaultOpen": default_open, "waitFor": gate_wait}
    else:
        rows = [[v, first] for v in range(0, n)]
        gate = {"name": "gate", "kind": "route", "params": [[x, None]], "targets": [first, "__END__"] if rng.random() < 0.5 else ["__END__", first],
                "body": {"b": "table", "rows": rows, "dflt": "__END__"}, "defaultOpen": default_open, "waitFor": gate_wait}
    nodes.append(gate)
    if rng.random() < 0.5:
        rng.shuffle(nodes)
    values = [[x, x0]]
    if family == "accum":
        values.append(["messages", {"l": []}])
    iters = max(0, n - x0)
    program = [{"name": "g0", "nodes": nodes, "bound": []}]
    nested_body = False
    if allow_nested_body and family in ("state", "exit") and rng.random() < 0.3:
        # the first body node lives in a nested graph: every iteration of the outer loop starts an inner run
        nested_body = True
        b1 = next(nd for nd in nodes if nd["name"] == "b1")
        inner = {"name": "inner", "nodes": [b1], "bound": []}
        wrapper = {"name": "b1", "kind": "graph", "inner": 0}
        outer_nodes = [wrapper if nd is b1 else nd for nd in nodes]
        program = [inner, {"name": "g1", "nodes": outer_nodes, "bound": []}]
    # supersteps needed: (k+1) per iteration + final gate evaluation (+ exit node)
    return {"program": program, "values": values,
            "loop": {"nestedBody": nested_body, "family": family, "k": k, "n": n, "x0": x0, "iters": iters, "defaultOpen": default_open, "separateEmitter": separate_emitter, "twoAcc": two_acc}}


def gen_fed_cascade(rng: random.Random) -> dict:
    """A node that first runs on a parameter default and again when a longer upstream branch delivers that parameter, followed by a
    chain of 2-4 downstream nodes (and a side consumer): every one of them has to be re-evaluated with the second value."""
    nodes: list[dict] = []
    L = rng.randint(1, 3)
    prev = "x"
    for j in range(L):
        out = "f" if j == L - 1 else f"m{j}"
        nodes.append(_fn_node(f"c{j}", [[prev, None]], [out], {"b": "sum", "k": j + 1}))
        prev = out
    nodes.append(_fn_node("apply", [["y", None], ["f", {"d": rng.randint(0, 3)}]], ["s0"], {"b": "sum", "k": 0}))
    D = rng.randint(2, 4)
    for j in range(D):
        body = {"b": "sum", "k": j} if rng.random() < 0.6 else {"b": "tag", "t": f"d{j}"}
        nodes.append(_fn_node(f"d{j}", [[f"s{j}", None]], [f"s{j + 1}"], body))
    if rng.random() < 0.6:
        nodes.append(_fn_node("side", [[f"s{rng.randint(1, D)}", None], ["x", None]], ["sd"], {"b": "tag", "t": "side"}))
    rng.shuffle(nodes)
    return {"program": [{"name": "g0", "nodes": nodes, "bound": []}], "values": [["x", rng.randint(0, 4)], ["y", rng.randint(0, 4)]]}


# ---------------------------------------------------------------- configuration variants

def all_fn_nodes(program: list[dict]) -> list[tuple[int, int]]:
    return [(gi, ni) for gi, g in enumerate(program) for ni, n in enumerate(g["nodes"]) if n["kind"] == "fn"]


def inject_failure(rng: random.Random, case: dict, how_many: int = 1) -> dict:
    """Turn `how_many` function nodes (any nesting depth) into failing ones."""
    import copy

    c = copy.deepcopy(case)
    fns = all_fn_nodes(c["program"])
    rng.shuffle(fns)
    failing = []
    for gi, ni in fns[:how_many]:
        n = c["program"][gi]["nodes"][ni]
        n["body"] = {"b": "fail", "t": rng.choice(["E_", "E_", "Z_", "S_", "T_", "C_"]) + n["name"]}       # Z_: an exception object that is falsy; S_: one whose __str__ raises; T_: a builtin TypeError from a mis-called helper; C_: raised with an explicit cause
        failing.append(f"{gi}:{n['name']}")
    c["failing"] = failing
    return c


def with_cfg(rng: random.Random, case: dict, outputs: list[str] | None = None) -> dict:
    """Random run options: error_handling, select (some names possibly never produced), on_missing."""
    import copy

    c = copy.deepcopy(case)
    cfg: dict[str, Any] = {}
    if rng.random() < 0.5:
        cfg["errMode"] = rng.choice(["raise", "continue"])
    outs = outputs
    if outs is None:
        outs = [o for n in c["program"][-1]["nodes"] for o in n.get("dataOuts", [])]
    if outs and rng.random() < 0.5:
        r = rng.random()
        if r < 0.2:
            cfg["select"] = "**"
        else:
            cfg["select"] = rng.sample(outs, rng.randint(1, min(3, len(outs))))
            cfg["selectAsTuple"] = rng.random() < 0.4
        cfg["onMissing"] = rng.choice(["ignore", "warn", "error"])
    c["cfg"] = cfg
    return c


def gen_failing_dag(rng: random.Random) -> dict:
    c = gen_dag_program(rng, max_nodes=7, depth=rng.choice([0, 1, 2]))
    c = inject_failure(rng, c, rng.choice([1, 1, 2]))
    return with_cfg(rng, c)


def gen_gated_cfg(rng: random.Random) -> dict:
    c = gen_gated_dag(rng)
    if rng.random() < 0.3:
        c = inject_failure(rng, c)
    return with_cfg(rng, c)


def gen_loop_bounded(rng: random.Random) -> dict:
    c = gen_loop(rng)
    lp = c["loop"]
    exact = (lp["k"] + 1) * lp["iters"] + 1 + (1 if lp["family"] == "exit" else 0)
    c["cfg"] = {"maxIter": max(1, exact + rng.choice([-2, -1, 0, 0, 1, 5])), "errMode": rng.choice(["raise", "continue"])}
    return c


# ---------------------------------------------------------------- map_over

def gen_map_node(rng: random.Random, force: str | None = None) -> dict:
    """Outer graph with one mapping nested-graph node (zip/product, items that fail or branch differently)."""
    names = Names()
    # inner graph: a(x, y, c) -> r ; optional branch gate producing b or s depending on x
    branchy = rng.random() < 0.4 or force == "branch-renamed"
    failing = (rng.random() < 0.4 or force is not None) and force not in ("product-order", "branch-renamed")
    inner_nodes = []
    if failing and (rng.random() < 0.5 or force == "raise-multi"):
        body = {"b": "failGe", "k": rng.randint(1, 4), "t": "EA"}     # several items fail, each with its OWN error
    else:
        body = {"b": "failIf", "k": rng.randint(0, 3), "t": "EA"} if failing else {"b": "tag", "t": "a"}
    params = [["x", None]]
    n_mapped = rng.randint(2, 3) if force == "product-order" else rng.randint(1, 3)
    others = ["y", "z"][: n_mapped - 1]
    for o in others:
        params.append([o, None])
    has_bcast = rng.random() < 0.6
    if has_bcast:
        params.append(["c", None])
    if rng.random() < 0.5 or force == "continue-fail":
        # two-step inner graph: `pre` produces an inner-graph output before `a` can fail
        inner_nodes.append(_fn_node("pre", [["x", None]], ["px"], {"b": "sum", "k": 0}))
        params = [["px", None]] + params[1:]
    inner_nodes.append(_fn_node("a", params, ["r"], body))
    if branchy:
        inner_nodes.append({"name": "gt", "kind": "ifelse", "params": [["x", None]], "targets": ["pb", "ps"], "body": {"b": "lt", "k": 2}})
        inner_nodes.append(_fn_node("pb", [["x", None]], ["b"], {"b": "tag", "t": "pb"}))
        inner_nodes.append(_fn_node("ps", [["x", None]], ["s"], {"b": "tag", "t": "ps"}))
    inner = {"name": "g0", "nodes": inner_nodes, "bound": []}
    mode = rng.choice(["zip", "product"])
    err = rng.choice(["raise", "continue"])
    mapped = ["x"] + others
    ren = []
    cur = {}
    for p in mapped + (["c"] if has_bcast else []):
        if rng.random() < 0.3:
            cur[p] = names.fresh("q")
            ren.append([p, cur[p]])
        else:
            cur[p] = p
    out_ren = [["r", "rr"]] if rng.random() < 0.3 else []
    if branchy and (rng.random() < 0.4 or force == "branch-renamed"):
        # the branch outputs renamed on the wrapper (fresh names, or the two exchanged): an item that takes the other branch still fills its
        # own list under the wrapper's names
        out_ren = out_ren + rng.choice([[["b", "bb"]], [["s", "ss"]], [["b", "s"], ["s", "b"]], [["b", "bb"], ["s", "ss"]]])
    gn = {"name": "mapper", "kind": "graph", "inner": 0, "inRen": ren, "outRen": out_ren,
          "mapOver": [cur[p] for p in mapped], "mapMode": mode, "errMode": err}
    _ren = dict(out_ren)
    outs = [_ren.get("r", "r")] + ([_ren.get("b", "b"), _ren.get("s", "s")] if branchy else []) + (["px"] if any(n["name"] == "pre" for n in inner_nodes) else [])
    rng.shuffle(gn["mapOver"])
    if force == "product-order":
        # a cartesian product whose map_over names are given in ANOTHER order than the inner graph declares its inputs: the order of the
        # names given decides the order of the combinations
        gn["mapOver"] = [cur[p] for p in reversed(mapped)]
        gn["mapMode"] = mode = "product"
        gn["errMode"] = err = "raise"
    consumer = _fn_node("after", [[outs[0], None]], ["fin"], {"b": "tag", "t": "after"})
    outer = {"name": "g1", "nodes": [gn, consumer], "bound": []}
    L = max(2, rng.randint(0, 4)) if force == "continue-fail" else rng.randint(0, 4)
    values = []
    for j, p in enumerate(mapped):
        ln = L if mode == "zip" and rng.random() < 0.9 else rng.randint(0, 3)
        if force == "product-order":
            values.append([cur[p], {"l": rng.sample(range(0, 9), 2 + (j % 2))}])      # lists of different lengths, distinct members
            continue
        values.append([cur[p], {"l": [rng.randint(0, 4) for _ in range(ln)]}])
    if force == "branch-renamed":
        # the items take different branches (the inner gate tests x < 2), the FIRST one the branch whose output is renamed last
        xs = rng.choice([[3, 0, 4, 1], [0, 3, 1, 4], [2, 2, 0], [1, 1, 3]])
        gn["mapMode"] = mode = "zip"
        gn["errMode"] = err = "raise"
        for v in values:
            v[1] = {"l": list(xs)} if v[0] == cur["x"] else {"l": [rng.randint(0, 4) for _ in xs]}
    if has_bcast:
        values.append([cur["c"], rand_value(rng)])
    rng.shuffle(values)
    c = {"program": [inner, outer], "values": values}
    if failing and (rng.random() < 0.5 or force == "continue-fail"):
        gn["errMode"] = "continue"          # failed items must leave None placeholders, nothing else
    if force == "continue-fail" and body["b"] == "failIf":
        # whatever the seed: one item fails AFTER `pre` completed for it, others do not
        for v in values:
            if v[0] == cur["x"] and isinstance(v[1], dict) and "l" in v[1]:
                xs = v[1]["l"] if mode == "product" else v[1]["l"][:]
                if len(xs) < 2 and mode == "product":
                    xs += [body["k"] + 1, body["k"]]
                if xs and body["k"] not in xs:
                    xs[rng.randrange(len(xs))] = body["k"]
                v[1]["l"] = xs
    if body["b"] == "failGe" and (rng.random() < 0.5 or force == "raise-multi") and force != "continue-fail":
        # several items fail, each with its own error: in raise mode the FIRST failing item (input order) decides, whatever finishes first
        gn["errMode"] = "raise"
        gn["mapMode"] = "zip"
        ln = rng.randint(3, 5)
        body["k"] = rng.randint(1, 3)
        for v in values:
            if v[0] in gn["mapOver"]:
                v[1] = {"l": rng.sample(range(0, 8), ln)} if v[0] == cur["x"] else {"l": [rng.randint(0, 4) for _ in range(ln)]}
    return with_cfg(rng, c, outputs=outs + ["fin"])


def gen_interrupt(rng: random.Random) -> dict:
    """DAG with 1-3 interrupt nodes (async runner only); handlers pause or auto-respond."""
    names = Names()
    nodes = []
    values = [["x", rng.randint(0, 5)]]
    prev = "x"
    n_int = rng.randint(1, 3)
    pos = 0
    last_src = "x"
    for i in range(n_int):
        if rng.random() < 0.6:
            nn = names.fresh("n")
            out = names.fresh("v")
            nodes.append(_fn_node(nn, [[prev, None]], [out], {"b": "sum", "k": 1}))
            prev = out
        iname = f"ask{i}"
        outs = [f"ans{i}"] if rng.random() < 0.7 else [f"ans{i}", f"more{i}"]
        if i > 0 and rng.random() < 0.35:
            prev = last_src             # a SIBLING of the previous interrupt: both become ready in the same step
        last_src = prev
        params = [[prev, None]]
        if prev != "x" and rng.random() < 0.3:
            params.append(["x", None])
        k = None if rng.random() < 0.6 else rng.randint(0, 3)
        node = {"name": iname, "kind": "interrupt", "params": params, "dataOuts": outs, "body": {"b": "handler", "k": k}}
        if rng.random() < 0.4:
            # the handler's own parameter names differ from the names the graph (and the human) know the inputs by
            ren = [[f"q{i}{j}", pn] for j, (pn, _) in enumerate(params) if j == 0 or rng.random() < 0.6]
            rmap = {new: old for old, new in ren}
            node["params"] = [[rmap.get(pn, pn), d] for pn, d in params]
            node["inRen"] = ren
        if rng.random() < 0.4:
            node["emits"] = [f"asked{i}"]
            if rng.random() < 0.7:
                # a node ordered after the interrupt by its signal only
                nodes.append(_fn_node(f"audit{i}", [["x", None]], [f"aud{i}"], {"b": "tag", "t": f"audit{i}"}, waitFor=[f"asked{i}"]))
        nodes.append(node)
        # a sibling that is ready in the same step as the interrupt
        if rng.random() < 0.5:
            nodes.append(_fn_node(names.fresh("n"), [[prev, None]], [names.fresh("v")], {"b": "tag", "t": f"sib{i}"}))
        prev = outs[0]
        # supply the response up front sometimes (resume path)
        if rng.random() < 0.35:
            for o in outs:
                values.append([o, rng.randint(10, 20)])
    nodes.append(_fn_node("final", [[prev, None]], ["fin"], {"b": "tag", "t": "final"}))
    if rng.random() < 0.5:
        rng.shuffle(nodes)
    return {"program": [{"name": "g0", "nodes": nodes, "bound": []}], "values": values, "async_only": True}


def gen_nested_gate_loop(rng: random.Random, force: bool = False) -> dict:
    """A loop driven by two stacked gates: `outer` routes to the gate `inner` (or END); `inner` picks `bump` or `other`.

    Exercises gates that are themselves gate targets inside a cycle (a stale, non-runnable inner gate)."""
    n = rng.randint(0, 4)
    x0 = rng.randint(0, 2)
    pick_other_at = rng.choice([None, None, rng.randint(0, 4)])
    if force:
        # the loop turns at least twice, `other` is never selected, and the inner gate is open by default: after the outer gate says END the
        # inner gate's decision goes stale while the inner gate can no longer run — its never-selected target stays off
        n, pick_other_at = x0 + rng.randint(2, 4), None
    outer_kind = rng.choice(["route", "ifelse"])
    if outer_kind == "route":
        outer = {"name": "outer", "kind": "route", "params": [["x", None]], "targets": ["inner", "__END__"],
                 "body": {"b": "table", "rows": [[v, "inner"] for v in range(0, n)], "dflt": "__END__"}, "defaultOpen": rng.random() < 0.7}
    else:
        outer = {"name": "outer", "kind": "ifelse", "params": [["x", None]], "targets": ["inner", "__END__"],
                 "body": {"b": "lt", "k": n}, "defaultOpen": rng.random() < 0.7}
    rows = [[v, "bump"] for v in range(0, 8) if v != pick_other_at] + ([[pick_other_at, "other"]] if pick_other_at is not None else [])
    inner = {"name": "inner", "kind": "route", "params": [["x", None]], "targets": ["bump", "other"],
             "body": {"b": "table", "rows": rows, "dflt": "bump"}, "defaultOpen": True if force else rng.random() < 0.7}
    bump = _fn_node("bump", [["x", None]], ["x"], {"b": "sum", "k": 1})
    other = _fn_node("other", [["x", None]], ["side"], {"b": "tag", "t": "other"})
    nodes = [outer, inner, bump, other]
    if rng.random() < 0.5:
        rng.shuffle(nodes)
    return {"program": [{"name": "g0", "nodes": nodes, "bound": []}], "values": [["x", x0]], "cfg": {"maxIter": 60},
            "nested_loop": {"n": n, "x0": x0, "other_at": pick_other_at}}
