"""Shared plumbing: repo import path, Lean driver process, evidence, reporting."""
from __future__ import annotations

import json
import os
import subprocess
import sys
import time
from pathlib import Path

VERIF = Path(__file__).resolve().parent.parent
LEAN = VERIF / "lean"
REPO = Path(os.environ.get("HG_REPO", "/repo")).resolve()
DRIVER_BIN = LEAN / ".lake" / "build" / "bin" / "driver"


def use_repo() -> None:
    """Make `import hypergraph` resolve to $HG_REPO/src (default /repo/src), the live working tree."""
    import logging

    lg = logging.getLogger("hypergraph")   # processor failures are logged by design; keep check output clean
    lg.setLevel(logging.CRITICAL + 1)
    lg.propagate = False
    src = str(REPO / "src")
    if sys.path[0] != src:
        sys.path.insert(0, src)
    for name in list(sys.modules):
        if name == "hypergraph" or name.startswith("hypergraph."):
            mod = sys.modules[name]
            f = getattr(mod, "__file__", "") or ""
            if f and not f.startswith(src):
                del sys.modules[name]


class HarnessError(Exception):
    """Infrastructure failure (exit 2): never reported as a violation."""


class Driver:
    """The compiled Lean model behind a JSON line protocol."""

    def __init__(self) -> None:
        if not DRIVER_BIN.exists():
            raise HarnessError(f"driver not built: {DRIVER_BIN} (run ./setup.sh)")
        self.p = subprocess.Popen([str(DRIVER_BIN)], stdin=subprocess.PIPE, stdout=subprocess.PIPE, text=True, bufsize=1)
        self.requests = 0

    def ask(self, req: dict) -> dict:
        assert self.p.stdin and self.p.stdout
        self.p.stdin.write(json.dumps(req) + "\n")
        self.p.stdin.flush()
        line = self.p.stdout.readline()
        if not line:
            raise HarnessError("driver died")
        self.requests += 1
        resp = json.loads(line)
        if isinstance(resp, dict) and "bad" in resp:
            raise HarnessError(f"driver rejected request: {resp['bad']}: {json.dumps(req)[:400]}")
        return resp

    def close(self) -> None:
        try:
            if self.p.stdin:
                self.p.stdin.close()
            self.p.wait(timeout=5)
        except Exception:
            self.p.kill()


def now() -> float:
    return time.time()
