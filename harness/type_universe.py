"""Enumerator + encoder for the closed type universe of HG.Model.TypeCompat, and the
differential check  real `is_type_compatible`  vs  Lean `HG.TypeCompat.compat`.

Reusable pieces:
    encode(t)                 python annotation -> JSON-able encoding (see ENCODING.md)
    type_universe(depth)      -> list[(python_type, encoding)]   exhaustive up to `depth` (0 or 1),
                                 for depth >= 2 use sample_universe
    sample_universe(depth, n, seed)  -> list[(python_type, encoding)] random sample of given depth
    py_matrix(types)          -> list[str] rows of '0'/'1' from the real is_type_compatible
    lean_matrix(encodings)    -> same rows from the Lean model (lake env lean --run XCheck.lean)

"""

from __future__ import annotations

import collections.abc as abc
import itertools
import json
import os
import random
import subprocess
import sys
import typing
import warnings
from typing import Annotated, Any, Optional, Union, get_args, get_origin

from . import common

common.use_repo()

from hypergraph._typing import NoAnnotation, TypeCheckMemo, _resolve_type, is_type_compatible

NoneType = type(None)
_MEMO = TypeCheckMemo(globals={}, locals={})

# class object -> name used by the Lean model (`Ty.cls name` / `Ty.gen name args`)
CLASS_NAMES: dict[type, str] = {
    int: "int",
    bool: "bool",
    str: "str",
    float: "float",
    object: "object",
    list: "list",
    dict: "dict",
    tuple: "tuple",
    abc.Sequence: "Sequence",
    abc.Mapping: "Mapping",
    abc.Iterable: "Iterable",
}
# names of the three classes that have their own constructor in `Ty`
SPECIAL = {"Any": Any, "NoneType": NoneType, "NoAnnotation": NoAnnotation}


def encode(t: Any) -> Any:
    """Encoding of a python annotation (after `_resolve_type`, which `is_type_compatible`
    applies first at every level and which only re-spells types inside the universe)."""
    t = _resolve_type(t, _MEMO)
    return _enc(t)


def _enc(t: Any) -> Any:
    if t is Any:
        return "Any"
    if t is None:
        return "None"  # the VALUE None (e.g. inside list[None]); NoneType is "NoneType"
    if t is Ellipsis:
        return "..."
    if t is NoneType:
        return "NoneType"
    if t is NoAnnotation:
        return "NoAnnotation"
    origin = get_origin(t)
    if origin is Union:
        return {"u": [_enc(a) for a in get_args(t)]}
    if origin is Annotated:
        return {"ann": _enc(get_args(t)[0])}
    if origin is not None:
        return {"g": CLASS_NAMES[origin], "a": [_enc(a) for a in get_args(t)]}
    if isinstance(t, type):
        return CLASS_NAMES[t]
    raise ValueError(f"outside the universe: {t!r}")


# ---------------------------------------------------------------------------
# enumeration
# ---------------------------------------------------------------------------

CORE_CLASSES = [int, bool, str, float, object, list, dict, tuple, abc.Sequence]
EXTRA_CLASSES = [abc.Mapping, abc.Iterable]
BARE_ALIASES = [typing.List, typing.Dict, typing.Tuple, typing.Sequence]  # resolve to `c[()]`


def atoms(extra: bool = True, no_annotation: bool = True) -> list[Any]:
    out: list[Any] = list(CORE_CLASSES)
    if extra:
        out += EXTRA_CLASSES
    out += [Any, NoneType]
    if no_annotation:
        out.append(NoAnnotation)
    out += BARE_ALIASES
    return out


def _is_union(t: Any) -> bool:
    return get_origin(_resolve_type(t, _MEMO)) is Union


def grow(pool: list[Any], *, pairs: typing.Iterable[tuple[Any, Any]] | None = None, triples: int = 40, rng: random.Random | None = None) -> list[Any]:
    """All types whose immediate components come from `pool` (one constructor application).
    `pairs`: which ordered pairs to use for the binary constructors (default: all)."""
    rng = rng or random.Random(0)
    out: list[Any] = []
    if pairs is None:
        pairs = list(itertools.product(pool, pool))
    pairs = list(pairs)
    # unary
    for s in pool:
        out.append(list[s])
        out.append(typing.List[s])
        out.append(abc.Sequence[s])
        out.append(typing.Sequence[s])
        out.append(tuple[s])
        out.append(tuple[s, ...])
        out.append(Annotated[s, "meta"])
        out.append(Optional[s])
    # the value None / Ellipsis in argument position of builtin aliases
    out += [list[None], dict[str, None], dict[None, None], tuple[None], tuple[None, ...], tuple[None, int]]
    # binary
    for a, b in pairs:
        out.append(dict[a, b])
        out.append(tuple[a, b])
        if a is not b:
            out.append(Union[a, b])  # both orders are generated: Union.__eq__ is order-insensitive
    out.append(tuple[()])
    out.append(Annotated[int, "a"])
    out.append(Annotated[int, "b"])
    # a few ternary
    trip = [tuple(rng.sample(pool, 3)) for _ in range(triples)] if len(pool) >= 3 else []
    for a, b, c in trip:
        out.append(Union[a, b, c])
        out.append(tuple[a, b, c])
        out.append(a | b | c if all(isinstance(x, type) for x in (a, b, c)) else Union[c, b, a])
    return out


def _dedup(ts: list[Any]) -> list[tuple[Any, Any]]:
    seen: set[str] = set()
    out = []
    for t in ts:
        e = encode(t)
        key = repr(t) + "\0" + json.dumps(e)
        if key in seen:
            continue
        seen.add(key)
        out.append((t, e))
    return out


def type_universe(depth: int, *, extra: bool = True, no_annotation: bool = True) -> list[tuple[Any, Any]]:
    """(python_type, encoding) for ALL type expressions of nesting depth <= `depth`
    (depth 0 = atoms; depth 1 = one constructor over atoms).  Exhaustive for depth <= 1;
    for depth 2 it is exhaustive over a reduced atom set (large!) - prefer sample_universe."""
    a0 = atoms(extra, no_annotation)
    if depth <= 0:
        return _dedup(a0)
    if depth == 1:
        return _dedup(a0 + grow(a0))
    small = [int, bool, str, object, Any, NoneType, list]
    lvl1 = small + grow(small, triples=5)
    lvl1 = [t for t, _ in _dedup(lvl1)]
    return _dedup(a0 + grow(a0) + grow(lvl1, pairs=[(a, b) for a in lvl1[:25] for b in lvl1[:25]]))


def depth_of(e: Any) -> int:
    if isinstance(e, str):
        return 0
    if "u" in e:
        return 1 + max(map(depth_of, e["u"]))
    if "ann" in e:
        return 1 + depth_of(e["ann"])
    return 1 + max(map(depth_of, e["a"]), default=0)


def sample_universe(depth: int, n: int, seed: int = 0, dense: bool = True) -> list[tuple[Any, Any]]:
    """Random sample of `n` type expressions of depth <= `depth` (most of exactly `depth`).
    `dense`: draw atoms from a small related set so that compatible pairs are frequent."""
    rng = random.Random(seed)
    base = [int, bool, str, object, Any, NoneType, list, abc.Sequence, typing.List] if dense else atoms()

    def gen(d: int) -> Any:
        if d == 0 or rng.random() < 0.08:
            return rng.choice(base)
        k = rng.randrange(12)
        sub = lambda: gen(d - 1)  # noqa: E731
        if k == 0:
            return list[sub()]
        if k == 1:
            return abc.Sequence[sub()]
        if k == 2:
            return typing.List[sub()]
        if k == 3:
            return dict[sub(), sub()]
        if k == 4:
            return tuple[sub(), sub()]
        if k == 5:
            return tuple[sub(), ...]
        if k == 6:
            return Annotated[sub(), "m"]
        if k == 7:
            return Optional[sub()]
        if k in (8, 9):
            return Union[sub(), sub()]
        if k == 10:
            return Union[sub(), sub(), sub()]
        return tuple[sub()]

    out: list[Any] = []
    while len(out) < n:
        out.append(gen(depth))
    # add union-permuted / re-annotated / weakened neighbours so that `==`-modulo-order and
    # near-miss pairs are present
    extra_ts: list[Any] = []
    for t in out[: n // 4]:
        r = _resolve_type(t, _MEMO)
        if get_origin(r) is Union:
            extra_ts.append(Union[tuple(reversed(get_args(r)))])
            extra_ts.append(list[Union[tuple(reversed(get_args(r)))]])
            extra_ts.append(list[r])
        extra_ts.append(Annotated[t, "x"])
        extra_ts.append(Optional[t])
    return _dedup(out + extra_ts)


# ---------------------------------------------------------------------------
# evaluation
# ---------------------------------------------------------------------------


def py_matrix(types: list[Any]) -> list[str]:
    rows = []
    with warnings.catch_warnings():
        warnings.simplefilter("error")  # an Unresolvable warning would mean we left the universe
        for a in types:
            rows.append("".join("1" if is_type_compatible(a, b) else "0" for b in types))
    return rows




# ---------------------------------------------------------------------------
# decoding (encoding -> python annotation), the inverse of `encode` up to `==`
# ---------------------------------------------------------------------------

_NAME_TO_CLASS = {n: c for c, n in CLASS_NAMES.items()}
_BARE_ALIAS = {"list": typing.List, "dict": typing.Dict, "tuple": typing.Tuple, "Sequence": typing.Sequence}


def decode(e: Any) -> Any:
    if isinstance(e, str):
        if e == "Any":
            return Any
        if e == "NoneType":
            return NoneType
        if e == "None":
            return None
        if e == "...":
            return Ellipsis
        if e == "NoAnnotation":
            return NoAnnotation
        return _NAME_TO_CLASS[e]
    if "u" in e:
        return Union[tuple(decode(x) for x in e["u"])]
    if "ann" in e:
        return Annotated[decode(e["ann"]), "meta"]
    origin = _NAME_TO_CLASS[e["g"]]
    args = tuple(decode(x) for x in e["a"])
    if not args:
        return _BARE_ALIAS.get(e["g"], origin)
    return origin[args if len(args) > 1 else args[0]]
