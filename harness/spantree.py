"""Implementation-side oracle for C12: the delivered events form a complete, well-nested span tree."""
from __future__ import annotations

from typing import Any


def check_span_tree(events: list[dict], status: str, *, top_is_map: bool = False) -> str | None:
    """events: canonical events (impl.canon_event) of ONE top-level call, shutdown markers included.
    status: what the caller observed: completed | failed (paused runs are outside the property)."""
    evs = [e for e in events if "shutdown" not in e]
    shutdowns = [i for i, e in enumerate(events) if "shutdown" in e]
    if len(shutdowns) != 1:
        return f"processor shut down {len(shutdowns)} times (expected exactly once)"
    if shutdowns[0] != len(events) - 1:
        return "shutdown was not the last thing delivered"
    if not evs:
        return "no events delivered for a call that ran"
    first, last = evs[0], evs[-1]
    if first["ev"] != "RunStart" or first["parent"] is not None:
        return f"first event is {first['ev']} (parent {first['parent']}), expected the root RunStart"
    if last["ev"] != "RunEnd" or last["span"] != first["span"]:
        return f"last event is {last['ev']}, expected the root RunEnd"
    if last["info"] != status:
        return f"root RunEnd reports {last['info']!r} but the caller observed {status!r}"
    open_spans: list[tuple[str, str, str]] = []      # stack-like list of (span, kind, name) currently open
    opened: dict[str, str] = {}
    closed: set[str] = set()
    kinds = {"RunStart": "run", "NodeStart": "node"}
    for i, e in enumerate(evs):
        ev, span, parent = e["ev"], e["span"], e["parent"]
        if ev in kinds:
            if span in opened:
                return f"span {span} opened twice ({ev} {e['name']})"
            if parent is not None:
                if parent not in opened or parent in closed:
                    return f"{ev} {e['name']!r} is parented to a span that is not open"
                pk = opened[parent]
                if ev == "RunStart" and pk != "node" and not (pk == "run" and _is_map_parent(evs, parent)):
                    return f"nested RunStart {e['name']!r} is parented to a {pk} span instead of the node that launched it"
                if ev == "NodeStart" and pk != "run":
                    return f"NodeStart {e['name']!r} is parented to a {pk} span"
            opened[span] = kinds[ev]
            open_spans.append((span, kinds[ev], e["name"]))
        elif ev in ("RunEnd", "NodeEnd", "NodeError"):
            want = "run" if ev == "RunEnd" else "node"
            if span not in opened or opened[span] != want:
                return f"{ev} {e['name']!r} closes a span that was never opened as a {want}"
            if span in closed:
                return f"span of {e['name']!r} closed twice"
            # children closed before their parents
            for s, k, n in open_spans:
                if s != span and s not in closed and _parent_of(evs, s) == span:
                    return f"{ev} {e['name']!r} closes its span while child {n!r} is still open"
            closed.add(span)
        elif ev in ("RouteDecision", "CacheHit"):
            if parent is None or (ev == "RouteDecision" and (parent not in opened or parent in closed or opened[parent] != "run")):
                return f"{ev} for {e['name']!r} is not inside an open run"
            # inside the node it describes: an open NodeStart of that name in that run
            if ev == "RouteDecision":
                if not any(k == "node" and n == e["name"] and s not in closed and _parent_of(evs, s) == parent for s, k, n in open_spans):
                    return f"RouteDecision for {e['name']!r} outside that node's start/end"
            else:
                if span not in opened or span in closed:
                    return f"CacheHit for {e['name']!r} outside its node span"
        else:
            return f"unexpected event kind {ev}"
    unclosed = [n for s, k, n in open_spans if s not in closed]
    if unclosed:
        return f"spans never closed: {unclosed}"
    return None


def _parent_of(evs: list[dict], span: str) -> Any:
    for e in evs:
        if e["span"] == span and e["ev"] in ("RunStart", "NodeStart"):
            return e["parent"]
    return None


def _is_map_parent(evs: list[dict], span: str) -> bool:
    for e in evs:
        if e["span"] == span and e["ev"] == "RunStart":
            return e["info"].startswith("map:")
    return False


def tree_form(events: list[dict]) -> Any:
    """Order-insensitive canonical form of an event stream: nested (kind, name, info, sorted children)."""
    evs = [e for e in events if "shutdown" not in e]
    children: dict[Any, list] = {}
    nodes: dict[str, dict] = {}
    for e in evs:
        if e["ev"] in ("RunStart", "NodeStart"):
            nodes[e["span"]] = {"kind": e["ev"], "name": e["name"], "info": e["info"], "end": None, "extra": []}
            children.setdefault(e["parent"], []).append(e["span"])
        elif e["ev"] in ("RunEnd", "NodeEnd", "NodeError"):
            if e["span"] in nodes:
                nodes[e["span"]]["end"] = (e["ev"], e["info"])
        else:
            children.setdefault(e["parent"], [])
            nodes.setdefault("x" + str(len(nodes)), {"kind": e["ev"], "name": e["name"], "info": e["info"], "end": None, "extra": [], "pp": e["parent"]})

    def build(span: Any) -> Any:
        n = nodes[span]
        kids = sorted((build(c) for c in children.get(span, [])), key=repr)
        extras = sorted(((v["kind"], v["name"], v["info"]) for v in nodes.values() if v.get("pp") == span), key=repr)
        return (n["kind"], n["name"], n["info"], n["end"], kids, extras)

    return sorted((build(c) for c in children.get(None, [])), key=repr)
