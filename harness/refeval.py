"""Reference semantics used by implementation-side oracles: a direct statement of
"evaluate the node functions in dependency order", written against the program DESCRIPTION
(never against hypergraph objects), for acyclic gate-free programs with nesting.

Argument resolution per parameter: upstream output, else run-time value, else bound value,
else (nested graph) the inner graph's own binding/default, else signature default.
"""
from __future__ import annotations

import copy
import inspect
from typing import Any

from .build import _EMIT_SENTINEL, Env, make_function, py_val

_MISSING = object()


class RefResult:
    def __init__(self) -> None:
        self.values: dict[str, Any] = {}      # every produced data value (current names)
        self.signals: set[str] = set()
        self.calls: list[tuple[str, dict]] = []
        self.ran: list[str] = []
        self.error: BaseException | None = None
        self.failed_node: str | None = None
        self.failed: list[str] = []


def _cur(spec: dict, p: str) -> str:
    return dict(spec.get("inRen", [])).get(p, p)


def node_inputs(program: list[dict], spec: dict) -> list[tuple[str, str]]:
    """(current name, original name) for every input of a node description."""
    if spec["kind"] == "graph":
        inner = graph_inputs(program, spec["inner"])
        return [(_cur(spec, p), p) for p in inner]
    return [(_cur(spec, p[0]), p[0]) for p in spec.get("params", [])]


def node_outputs(program: list[dict], spec: dict) -> list[str]:
    if spec["kind"] == "graph":
        ren = dict(spec.get("outRen", []))
        return [ren.get(o, o) for o in graph_outputs(program, spec["inner"])]
    return list(spec.get("dataOuts", [])) + list(spec.get("emits", []))


def graph_outputs(program: list[dict], gi: int) -> list[str]:
    g = program[gi]
    if g.get("selected") is not None:
        return list(g["selected"])
    outs: list[str] = []
    for n in g["nodes"]:
        for o in node_outputs(program, n):
            if o not in outs:
                outs.append(o)
    return outs


def graph_inputs(program: list[dict], gi: int) -> list[str]:
    """Names a DAG needs from outside: consumed by some node and produced by none."""
    g = program[gi]
    produced = {o for n in g["nodes"] for o in node_outputs(program, n)}
    ins: list[str] = []
    for n in g["nodes"]:
        for cur, _ in node_inputs(program, n):
            if cur not in produced and cur not in ins:
                ins.append(cur)
    return ins


def has_fallback(program: list[dict], spec: dict, cur: str, orig: str, bound: dict) -> bool:
    if cur in bound:
        return True
    if spec["kind"] == "graph":
        return inner_has_fallback(program, spec["inner"], orig)
    return any(p[0] == orig and p[1] is not None for p in spec.get("params", []))


def inner_has_fallback(program: list[dict], gi: int, name: str) -> bool:
    g = program[gi]
    bound = dict(g.get("bound", []))
    if name in bound:
        return True
    for n in g["nodes"]:
        for cur, orig in node_inputs(program, n):
            if cur == name and has_fallback(program, n, cur, orig, {}):
                return True
    return False


def eval_graph(program: list[dict], gi: int, provided: dict[str, Any], env: Env, res: RefResult | None = None, prefix: str = "", failing_dead: bool = False) -> RefResult:
    """Evaluate graph `gi` of an acyclic gate-free program in dependency order."""
    res = res or RefResult()
    g = program[gi]
    bound = {k: py_val(v) for k, v in g.get("bound", [])}
    specs = list(g["nodes"])
    producers: dict[str, str] = {}
    for n in specs:
        for o in node_outputs(program, n):
            producers.setdefault(o, n["name"])
    state: dict[str, Any] = dict(provided)       # run-time values, then outputs as they are produced
    done: set[str] = set()       # ran
    dead: set[str] = set()       # can never run
    local = RefResult()
    local.calls = res.calls
    progress = True
    while progress and local.error is None:
        progress = False
        for n in specs:
            name = n["name"]
            if name in done or name in dead:
                continue
            waiting = False
            unsat = False
            kwargs: dict[str, Any] = {}
            for cur, orig in node_inputs(program, n):
                prod = producers.get(cur)
                if prod is not None and prod != name and prod not in done and prod not in dead and cur not in provided:
                    waiting = True
                    break
                if cur in state:
                    kwargs[orig] = state[cur]
                elif cur in bound:
                    kwargs[orig] = bound[cur]
                elif has_fallback(program, n, cur, orig, {}):
                    if n["kind"] != "graph":
                        d = next(p[1] for p in n["params"] if p[0] == orig)
                        kwargs[orig] = copy.deepcopy(py_val(d["d"]))
                    # nested graph: leave it out, the inner graph resolves its own binding/default
                else:
                    unsat = True
            if waiting:
                continue
            for w in n.get("waitFor", []):
                prod = producers.get(w)
                if prod is not None and prod not in done and prod not in dead:
                    waiting = True
                elif w not in local.signals and w not in state:
                    unsat = True
            if waiting:
                continue
            progress = True
            if unsat:
                dead.add(name)
                continue
            try:
                outs = _run_node(program, gi, n, kwargs, env, res, failing_dead)
            except Exception as e:  # noqa: BLE001 - a node function raised
                if failing_dead:
                    dead.add(name)
                    local.failed.append(name)
                    continue
                local.error = e
                local.failed_node = name
                break
            done.add(name)
            local.ran.append(name)
            for k, v in outs.items():
                state[k] = v
            for s in n.get("emits", []):
                local.signals.add(s)
    local.values = {k: v for k, v in state.items() if k in producers and k not in local.signals}
    local.signals |= set()
    return local


def _run_node(program: list[dict], gi: int, n: dict, kwargs: dict, env: Env, res: RefResult, failing_dead: bool = False) -> dict[str, Any]:
    if n["kind"] == "graph":
        inner = eval_graph(program, n["inner"], kwargs, env, res, failing_dead=failing_dead)
        if inner.error is not None:
            raise inner.error
        if inner.failed:
            raise RuntimeError("inner failure")
        ren = dict(n.get("outRen", []))
        exposed = graph_outputs(program, n["inner"])
        return {ren.get(k, k): v for k, v in inner.values.items() if k in exposed}
    fn = make_function(n, f"{gi}:{n['name']}", env, is_async=False)
    out = fn(**kwargs)
    if inspect.isgenerator(out):
        out = list(out)          # a generator object is a stream of items: the value of the node is their list
    res.calls.append((f"{gi}:{n['name']}", dict(kwargs)))
    douts = n.get("dataOuts", [])
    if not douts:
        return {}
    if len(douts) == 1:
        return {douts[0]: out}
    return dict(zip(douts, out, strict=True))


# ---------------------------------------------------------------- gated acyclic programs (flat)

def _names(decision: Any, node: str) -> bool:
    from hypergraph import END

    if decision is None or decision is END:
        return False
    if isinstance(decision, list):
        return node in decision
    return decision == node


def eval_gated(program: list[dict], gi: int, provided: dict[str, Any], env: Env) -> RefResult:
    """Intended semantics of a flat, acyclic, gated graph: gates decide first; a gated node runs iff some
    controlling gate's decision names it (or a default-open controlling gate can never run);
    every argument is the selected producer's output, else run-time value / binding / default."""
    from .build import py_dec

    g = program[gi]
    specs = list(g["nodes"])
    bound = {k: py_val(v) for k, v in g.get("bound", [])}
    producers: dict[str, list[str]] = {}
    for n in specs:
        for o in node_outputs(program, n):
            producers.setdefault(o, []).append(n["name"])
    controlling: dict[str, list[dict]] = {}
    for n in specs:
        if n["kind"] in ("route", "ifelse"):
            for t in n["targets"]:
                if t != "__END__":
                    controlling.setdefault(t, []).append(n)
    res = RefResult()
    state: dict[str, Any] = dict(provided)
    done: set[str] = set()
    dead: set[str] = set()
    signals: set[str] = set()
    decisions: dict[str, Any] = {}
    progress = True
    while progress and res.error is None:
        progress = False
        for n in specs:
            name = n["name"]
            if name in done or name in dead:
                continue
            gates = controlling.get(name, [])
            if any(c["name"] not in done and c["name"] not in dead for c in gates):
                continue                                        # the gate decides first
            if gates:
                activated = any(c["name"] in done and _names(decisions[c["name"]], name) for c in gates) or \
                    any(c["name"] in dead and c.get("defaultOpen", True) for c in gates)
                if not activated:
                    dead.add(name)
                    progress = True
                    continue
            waiting = False
            unsat = False
            kwargs: dict[str, Any] = {}
            for cur, orig in node_inputs(program, n):
                prods = [p for p in producers.get(cur, []) if p != name]
                if any(p not in done and p not in dead for p in prods) and cur not in provided:
                    waiting = True
                    break
                if cur in state:
                    kwargs[orig] = state[cur]
                elif cur in bound:
                    kwargs[orig] = bound[cur]
                elif has_fallback(program, n, cur, orig, {}):
                    d = next(p[1] for p in n["params"] if p[0] == orig)
                    kwargs[orig] = copy.deepcopy(py_val(d["d"]))
                else:
                    unsat = True
            for w in n.get("waitFor", []):
                prods = [p for p in producers.get(w, []) if p != name]
                if any(p not in done and p not in dead for p in prods) and w not in provided:
                    waiting = True
                elif w not in state:
                    unsat = True
            if waiting:
                continue
            progress = True
            if unsat:
                dead.add(name)
                continue
            fn = make_function(n, f"{gi}:{name}", env, is_async=False)
            try:
                out = fn(**kwargs)
            except Exception as e:  # noqa: BLE001
                res.error = e
                res.failed_node = name
                break
            if inspect.isgenerator(out):
                out = list(out)
            res.calls.append((f"{gi}:{name}", dict(kwargs)))
            done.add(name)
            res.ran.append(name)
            for sgn in n.get("emits", []):
                state[sgn] = _EMIT_SENTINEL          # an ordering signal is a value like any other for whoever reads it as an input
                signals.add(sgn)
            if n["kind"] == "ifelse":
                decisions[name] = py_dec(n["targets"][0] if out else n["targets"][1])
            elif n["kind"] == "route":
                d = out
                if d is None and n.get("fallback") is not None:
                    d = py_dec(n["fallback"])
                decisions[name] = d
            else:
                douts = n.get("dataOuts", [])
                if len(douts) == 1:
                    state[douts[0]] = out
                elif len(douts) > 1:
                    state.update(zip(douts, out, strict=True))
    res.values = {k: v for k, v in state.items() if k in producers and k not in signals}
    res.decisions = decisions  # type: ignore[attr-defined]
    return res
