"""Controllable asyncio event loop.

Generated async node bodies park on harness futures (`await env.park(fnid)`); when the loop goes idle
(no ready callbacks, no timers) the controller releases one parked body chosen by a seeded policy.
That enumerates / samples completion orders of concurrently running nodes and detects deadlock
(idle loop, nothing parked, run unfinished).
"""
from __future__ import annotations

import asyncio
import random
from typing import Any, Callable


class CtlLoop(asyncio.SelectorEventLoop):
    def __init__(self) -> None:
        super().__init__()
        self.on_idle: Callable[[], None] | None = None

    def _run_once(self) -> None:  # type: ignore[override]
        if not self._ready and not self._scheduled and self.on_idle is not None:  # type: ignore[attr-defined]
            self.on_idle()
        super()._run_once()  # type: ignore[misc]


class Deadlock(Exception):
    pass


class Controller:
    """Release policy: `pick(parked_ids, rng) -> id`. Records the start/finish trace of bodies."""

    def __init__(self, policy: str = "random", seed: int = 0, order: list[str] | None = None) -> None:
        self.policy = policy
        self.rng = random.Random(seed)
        self.order = order or []
        self.parked: list[tuple[str, asyncio.Future]] = []
        self.trace: list[tuple[str, str]] = []
        self.deadlock = False
        self.loop: CtlLoop | None = None
        self.peak_parked = 0

    def attach(self, loop: CtlLoop) -> None:
        self.loop = loop
        loop.on_idle = self.idle

    async def park(self, fnid: str) -> None:
        assert self.loop is not None
        self.trace.append(("start", fnid))
        fut = self.loop.create_future()
        self.parked.append((fnid, fut))
        self.peak_parked = max(self.peak_parked, len(self.parked))
        await fut
        self.trace.append(("finish", fnid))

    def idle(self) -> None:
        assert self.loop is not None
        if not self.parked:
            self.deadlock = True
            self.loop.stop()
            return
        i = self._choose()
        _, fut = self.parked.pop(i)
        fut.set_result(None)

    def _choose(self) -> int:
        n = len(self.parked)
        if self.policy == "fifo":
            return 0
        if self.policy == "lifo":
            return n - 1
        if self.policy == "order":
            for want in self.order:
                for i, (fid, _) in enumerate(self.parked):
                    if fid == want:
                        return i
            return 0
        return self.rng.randrange(n)


def run_controlled(coro_factory: Callable[[], Any], ctl: Controller) -> Any:
    """Run `coro_factory()` to completion on a fresh controllable loop; raises Deadlock when stuck."""
    loop = CtlLoop()
    asyncio.set_event_loop(loop)
    ctl.attach(loop)
    try:
        try:
            return loop.run_until_complete(coro_factory())
        except RuntimeError as e:
            if ctl.deadlock:
                raise Deadlock(str(e)) from None
            raise
    finally:
        try:
            loop.on_idle = None
            loop.close()
        finally:
            asyncio.set_event_loop(None)
