#!/bin/sh
# Offline build of the Lean model, proofs and driver. Nothing is fetched.
set -e
cd "$(dirname "$0")/lean"
lake build HG driver
