import HG.Model.Basic
import HG.Model.Graph
import HG.Model.Sched
import HG.Model.Exec
import HG.Model.Run
