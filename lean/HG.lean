-- This module serves as the root of the `HG` library.
-- Import modules here that should be built as part of the library.
import HG.Basic
