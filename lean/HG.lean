import HG.Model.Basic
import HG.Model.Graph
import HG.Model.Sched
import HG.Model.Exec
import HG.Model.Run
import HG.Model.Rename
import HG.Lemmas.Rename
import HG.Props.C06
