import HG.Model.Run
import HG.Lemmas.Common
/-! # HG.Lemmas.Ready — helper lemmas about association lists, `clearStale` and `ready`

Used by `HG.Props.C03`, `HG.Props.C17`, `HG.Props.C16`. Nothing here is a property theorem. -/
namespace HG

/-! ## association lists -/
namespace AL
variable {α : Type}

theorem get?_eq_none_iff (m : AL α) (k : Name) : get? m k = .none ↔ k ∉ keys m := by
  rw [mem_keys_iff_has]; unfold has
  cases get? m k <;> simp

theorem has_eq_false_iff (m : AL α) (k : Name) : has m k = false ↔ get? m k = .none := by
  unfold has; cases get? m k <;> simp

theorem has_eq_true_iff (m : AL α) (k : Name) : has m k = true ↔ ∃ v, get? m k = some v := by
  unfold has; cases get? m k <;> simp

theorem keys_cons (a : Name) (w : α) (t : AL α) : keys ((a, w) :: t) = a :: keys t := rfl

theorem keys_del_sublist (m : AL α) (k : Name) : (keys (del m k)).Sublist (keys m) := by
  induction m with
  | nil => simp [del, keys]
  | cons hd t ih =>
    obtain ⟨a, w⟩ := hd
    by_cases hk : k = a
    · simp only [del, hk, if_true, keys_cons]; exact List.sublist_cons_self _ _
    · simp only [del, hk, if_false, keys_cons]; exact ih.cons_cons _

theorem nodup_keys_del (m : AL α) (k : Name) (h : (keys m).Nodup) : (keys (del m k)).Nodup :=
  (keys_del_sublist m k).nodup h

theorem get?_del_same (m : AL α) (k : Name) (h : (keys m).Nodup) : get? (del m k) k = .none := by
  induction m with
  | nil => rfl
  | cons hd t ih =>
    obtain ⟨a, w⟩ := hd
    rw [keys_cons, List.nodup_cons] at h
    by_cases hk : k = a
    · subst hk
      simp only [del, if_true]
      exact (get?_eq_none_iff t k).2 h.1
    · simp only [del, hk, if_false, get?]
      exact ih h.2

/-- with unique keys, deleting can only turn a lookup into `none` -/
theorem get?_del_cases (m : AL α) (k k' : Name) (h : (keys m).Nodup) :
    get? (del m k) k' = get? m k' ∨ get? (del m k) k' = .none := by
  by_cases hk : k' = k
  · subst hk; exact Or.inr (get?_del_same m k' h)
  · exact Or.inl (get?_del_other m k k' hk)

theorem keys_put (m : AL α) (k : Name) (v : α) :
    keys (put m k v) = if has m k then keys m else keys m ++ [k] := by
  induction m with
  | nil => simp [put, keys, has]
  | cons hd t ih =>
    obtain ⟨a, w⟩ := hd
    by_cases hk : k = a
    · simp [put, hk, keys, has, get?]
    · simp only [put, hk, if_false, keys_cons, ih, has, get?]
      split <;> simp [*]

theorem nodup_keys_put₁ (m : AL α) (k : Name) (v : α) (h : (keys m).Nodup) : (keys (put m k v)).Nodup := by
  rw [keys_put]
  split
  · exact h
  · rename_i hh
    have : k ∉ keys m := by
      rw [mem_keys_iff_has]; simpa using hh
    rw [List.nodup_append]
    refine ⟨h, by simp, ?_⟩
    intro a ha b hb
    simp at hb; subst hb
    intro e; subst e; exact this ha

theorem mem_put (m : AL α) (a : Name) (w : α) (kv : Name × α) (h : kv ∈ put m a w) :
    kv ∈ m ∨ kv = (a, w) := by
  induction m with
  | nil => simp [put] at h; exact Or.inr h
  | cons hd t ih =>
    obtain ⟨b, u⟩ := hd
    by_cases hk : a = b
    · simp only [put, hk, if_true, List.mem_cons] at h
      rcases h with h | h
      · right; rw [h, hk]
      · left; exact List.mem_cons_of_mem _ h
    · simp only [put, hk, if_false, List.mem_cons] at h
      rcases h with h | h
      · left; rw [h]; exact List.mem_cons_self
      · rcases ih h with h' | h'
        · left; exact List.mem_cons_of_mem _ h'
        · right; exact h'

end AL

/-! ## `clearStale` as a fold of `clearStep` -/

/-- one iteration of `_clear_stale_gate_decisions` -/
def clearStep (g : GraphD) (st : GState) (nd : NodeD) : GState :=
  if nd.isGate then
    match AL.get? st.decisions nd.name with
    | .none => st
    | some .end_ => st
    | some _ => if needsExec g st nd then { st with decisions := AL.del st.decisions nd.name } else st
  else st

theorem clearStale_eq (g : GraphD) (s : GState) : clearStale g s = g.nodes.foldl (clearStep g) s := rfl

/-- `needsExec` reads only `execs` and `versions` -/
theorem needsExec_congr (g : GraphD) (s s' : GState) (nd : NodeD)
    (he : s'.execs = s.execs) (hv : s'.versions = s.versions) : needsExec g s' nd = needsExec g s nd := by
  unfold needsExec isStale GState.ver
  rw [he, hv]

/-- the two possible shapes of one clearing step -/
theorem clearStep_cases (g : GraphD) (st : GState) (nd : NodeD) :
    clearStep g st nd = st ∨
    (nd.isGate = true ∧ needsExec g st nd = true ∧
      (∃ d, AL.get? st.decisions nd.name = some d ∧ d ≠ Dec.end_) ∧
      clearStep g st nd = { st with decisions := AL.del st.decisions nd.name }) := by
  by_cases hg : nd.isGate = true
  · cases hd : AL.get? st.decisions nd.name with
    | none => left; unfold clearStep; simp only [hg, if_true, hd]
    | some d =>
      by_cases hn : needsExec g st nd = true
      · by_cases he : d = Dec.end_
        · left; unfold clearStep; subst he; simp only [hg, if_true, hd]
        · refine Or.inr ⟨hg, hn, ⟨d, rfl, he⟩, ?_⟩
          unfold clearStep
          cases d with
          | end_ => exact absurd rfl he
          | none => simp only [hg, if_true, hd, hn]
          | one t => simp only [hg, if_true, hd, hn]
          | many ts => simp only [hg, if_true, hd, hn]
      · left; unfold clearStep
        cases d <;> simp only [hg, if_true, hd, hn] <;> rfl
  · left; unfold clearStep; simp only [hg]; rfl

theorem clearStep_frame (g : GraphD) (st : GState) (nd : NodeD) :
    (clearStep g st nd).values = st.values ∧ (clearStep g st nd).versions = st.versions ∧
    (clearStep g st nd).execs = st.execs := by
  rcases clearStep_cases g st nd with h | ⟨_, _, _, h⟩ <;> rw [h] <;> exact ⟨rfl, rfl, rfl⟩

theorem clearStep_nodup (g : GraphD) (st : GState) (nd : NodeD) (h : (AL.keys st.decisions).Nodup) :
    (AL.keys (clearStep g st nd).decisions).Nodup := by
  rcases clearStep_cases g st nd with h' | ⟨_, _, _, h'⟩ <;> rw [h']
  · exact h
  · exact AL.nodup_keys_del _ _ h

/-- END is terminal: a step never removes it -/
theorem clearStep_end (g : GraphD) (st : GState) (nd : NodeD) (k : Name)
    (h : AL.get? st.decisions k = some Dec.end_) : AL.get? (clearStep g st nd).decisions k = some Dec.end_ := by
  rcases clearStep_cases g st nd with h' | ⟨_, _, ⟨d, hd, hne⟩, h'⟩ <;> rw [h']
  · exact h
  · have hk : k ≠ nd.name := by
      intro e; subst e; rw [hd] at h; exact hne (Option.some.inj h)
    show AL.get? (AL.del st.decisions nd.name) k = _
    rw [AL.get?_del_other _ _ _ hk]; exact h

theorem clearStep_get? (g : GraphD) (st : GState) (nd : NodeD) (k : Name) (h : (AL.keys st.decisions).Nodup) :
    AL.get? (clearStep g st nd).decisions k = AL.get? st.decisions k ∨
    AL.get? (clearStep g st nd).decisions k = .none := by
  rcases clearStep_cases g st nd with h' | ⟨_, _, _, h'⟩ <;> rw [h']
  · exact Or.inl rfl
  · exact AL.get?_del_cases _ _ _ h

/-- a surviving non-END decision of a processed gate is current -/
theorem clearStep_kept (g : GraphD) (st : GState) (nd : NodeD) (d : Dec) (h : (AL.keys st.decisions).Nodup)
    (hg : nd.isGate = true) (hd : AL.get? (clearStep g st nd).decisions nd.name = some d) (hne : d ≠ Dec.end_) :
    needsExec g st nd = false := by
  rcases clearStep_cases g st nd with h' | ⟨_, _, _, h'⟩
  · rw [h'] at hd
    unfold clearStep at h'
    simp only [hg, if_true, hd] at h'
    cases d with
    | end_ => exact absurd rfl hne
    | none =>
      by_cases hn : needsExec g st nd = true
      · exfalso
        simp only [hn, if_true] at h'
        have := congrArg (fun s => AL.get? s.decisions nd.name) h'
        simp only [AL.get?_del_same _ _ h, hd] at this
        exact absurd this (by simp)
      · simpa using hn
    | one t =>
      by_cases hn : needsExec g st nd = true
      · exfalso
        simp only [hn, if_true] at h'
        have := congrArg (fun s => AL.get? s.decisions nd.name) h'
        simp only [AL.get?_del_same _ _ h, hd] at this
        exact absurd this (by simp)
      · simpa using hn
    | many ts =>
      by_cases hn : needsExec g st nd = true
      · exfalso
        simp only [hn, if_true] at h'
        have := congrArg (fun s => AL.get? s.decisions nd.name) h'
        simp only [AL.get?_del_same _ _ h, hd] at this
        exact absurd this (by simp)
      · simpa using hn
  · rw [h'] at hd
    have : AL.get? (AL.del st.decisions nd.name) nd.name = some d := hd
    rw [AL.get?_del_same _ _ h] at this
    exact absurd this (by simp)

/-! ### fold invariants -/

theorem clearFold_frame (g : GraphD) (l : List NodeD) (s : GState) :
    (l.foldl (clearStep g) s).values = s.values ∧ (l.foldl (clearStep g) s).versions = s.versions ∧
    (l.foldl (clearStep g) s).execs = s.execs := by
  induction l generalizing s with
  | nil => exact ⟨rfl, rfl, rfl⟩
  | cons x l ih =>
    obtain ⟨h1, h2, h3⟩ := ih (clearStep g s x)
    obtain ⟨f1, f2, f3⟩ := clearStep_frame g s x
    exact ⟨h1.trans f1, h2.trans f2, h3.trans f3⟩

theorem clearFold_nodup (g : GraphD) (l : List NodeD) (s : GState) (h : (AL.keys s.decisions).Nodup) :
    (AL.keys (l.foldl (clearStep g) s).decisions).Nodup := by
  induction l generalizing s with
  | nil => exact h
  | cons x l ih => exact ih _ (clearStep_nodup g s x h)

theorem clearFold_end (g : GraphD) (l : List NodeD) (s : GState) (k : Name)
    (h : AL.get? s.decisions k = some Dec.end_) :
    AL.get? (l.foldl (clearStep g) s).decisions k = some Dec.end_ := by
  induction l generalizing s with
  | nil => exact h
  | cons x l ih => exact ih _ (clearStep_end g s x k h)

theorem clearFold_get? (g : GraphD) (l : List NodeD) (s : GState) (k : Name) (h : (AL.keys s.decisions).Nodup) :
    AL.get? (l.foldl (clearStep g) s).decisions k = AL.get? s.decisions k ∨
    AL.get? (l.foldl (clearStep g) s).decisions k = .none := by
  induction l generalizing s with
  | nil => exact Or.inl rfl
  | cons x l ih =>
    rcases ih _ (clearStep_nodup g s x h) with h1 | h1
    · rcases clearStep_get? g s x k h with h2 | h2
      · exact Or.inl (h1.trans h2)
      · exact Or.inr (h1.trans h2)
    · exact Or.inr h1

theorem clearFold_current (g : GraphD) (l : List NodeD) (s : GState) (h : (AL.keys s.decisions).Nodup)
    (c : NodeD) (hc : c ∈ l) (hg : c.isGate = true) (d : Dec)
    (hd : AL.get? (l.foldl (clearStep g) s).decisions c.name = some d) (hne : d ≠ Dec.end_) :
    needsExec g s c = false := by
  induction l generalizing s with
  | nil => cases hc
  | cons x l ih =>
    rw [List.foldl_cons] at hd
    by_cases hcl : c ∈ l
    · have := ih _ (clearStep_nodup g s x h) hcl hd
      obtain ⟨_, f2, f3⟩ := clearStep_frame g s x
      rw [needsExec_congr g s _ c f3 f2] at this
      exact this
    · have hx : c = x := by
        rcases List.mem_cons.1 hc with e | e
        · exact e
        · exact absurd e hcl
      subst hx
      rcases clearFold_get? g l _ c.name (clearStep_nodup g s c h) with h1 | h1
      · rw [h1] at hd
        exact clearStep_kept g s c d h hg hd hne
      · rw [h1] at hd; exact absurd hd (by simp)

/-! ### the same facts about `clearStale` -/

theorem clearStale_values (g : GraphD) (s : GState) : (clearStale g s).values = s.values :=
  (clearFold_frame g g.nodes s).1
theorem clearStale_versions (g : GraphD) (s : GState) : (clearStale g s).versions = s.versions :=
  (clearFold_frame g g.nodes s).2.1
theorem clearStale_execs (g : GraphD) (s : GState) : (clearStale g s).execs = s.execs :=
  (clearFold_frame g g.nodes s).2.2
theorem clearStale_ver (g : GraphD) (s : GState) (n : Name) : (clearStale g s).ver n = s.ver n := by
  unfold GState.ver; rw [clearStale_versions]
theorem clearStale_needsExec (g : GraphD) (s : GState) (nd : NodeD) :
    needsExec g (clearStale g s) nd = needsExec g s nd :=
  needsExec_congr g s _ nd (clearStale_execs g s) (clearStale_versions g s)
theorem clearStale_nodup (g : GraphD) (s : GState) (h : (AL.keys s.decisions).Nodup) :
    (AL.keys (clearStale g s).decisions).Nodup := clearFold_nodup g g.nodes s h
/-- after clearing, a non-END decision of a gate of the graph is current (unique decision keys) -/
theorem clearStale_current (g : GraphD) (s : GState) (h : (AL.keys s.decisions).Nodup)
    (c : NodeD) (hc : c ∈ g.nodes) (hg : c.isGate = true) (d : Dec)
    (hd : AL.get? (clearStale g s).decisions c.name = some d) (hne : d ≠ Dec.end_) :
    needsExec g (clearStale g s) c = false := by
  rw [clearStale_needsExec]
  exact clearFold_current g g.nodes s h c hc hg d hd hne

/-! ## decomposition of `ready` -/

/-- candidates: all nodes, or the active ones -/
def cand (g : GraphD) (act : Option (List Name)) : List NodeD :=
  match act with
  | .none => g.nodes
  | some a => g.nodes.filter fun nd => a.contains nd.name

/-- individually ready candidates (`r0` in `ready`) -/
def ready0 (g : GraphD) (act : Option (List Name)) (s : GState) : List NodeD :=
  (cand g act).filter (isReady g (clearStale g s))

/-- after removing the targets of ready gates (`r1` in `ready`) -/
def ready1 (g : GraphD) (act : Option (List Name)) (s : GState) : List NodeD :=
  (ready0 g act s).filter fun nd => !(blockedTargets (ready0 g act s)).contains nd.name

theorem ready_fst (g : GraphD) (act : Option (List Name)) (s : GState) :
    (ready g act s).1 = deferWaitFor (ready1 g act s) := by
  cases act <;> rfl

theorem ready_snd (g : GraphD) (act : Option (List Name)) (s : GState) :
    (ready g act s).2 = clearStale g s := rfl

theorem mem_cand (g : GraphD) (act : Option (List Name)) (nd : NodeD) :
    nd ∈ cand g act ↔ nd ∈ g.nodes ∧ ∀ a, act = some a → nd.name ∈ a := by
  cases act with
  | none => simp [cand]
  | some a => simp [cand, List.mem_filter]

theorem mem_blockedTargets (r : List NodeD) (t : Name) :
    t ∈ blockedTargets r ↔ ∃ c ∈ r, c.isGate = true ∧ t ∈ c.targetNames ∧ t ≠ c.name := by
  unfold blockedTargets
  simp only [List.mem_flatMap, List.mem_filter, bne_iff_ne, ne_eq]
  constructor
  · rintro ⟨c, ⟨hc, hg⟩, ht, hne⟩; exact ⟨c, hc, hg, ht, hne⟩
  · rintro ⟨c, hc, hg, ht, hne⟩; exact ⟨c, ⟨hc, hg⟩, ht, hne⟩

theorem mem_deferWaitFor (r : List NodeD) (nd : NodeD) :
    nd ∈ deferWaitFor r ↔
      nd ∈ r ∧ ∀ w ∈ nd.waitFor, ∀ o ∈ r, o.name ≠ nd.name → w ∉ o.outputs := by
  unfold deferWaitFor
  simp only [List.mem_filter, Bool.not_eq_true', List.any_eq_false, List.any_eq_true, Bool.and_eq_true,
    bne_iff_ne, ne_eq, List.contains_iff_mem, not_exists, not_and]

theorem mem_ready0 (g : GraphD) (act : Option (List Name)) (s : GState) (nd : NodeD) :
    nd ∈ ready0 g act s ↔ nd ∈ cand g act ∧ isReady g (clearStale g s) nd = true := by
  unfold ready0; exact List.mem_filter

theorem mem_ready1 (g : GraphD) (act : Option (List Name)) (s : GState) (nd : NodeD) :
    nd ∈ ready1 g act s ↔ nd ∈ ready0 g act s ∧
      ∀ c ∈ ready0 g act s, c.isGate = true → nd.name ∈ c.targetNames → nd.name = c.name := by
  unfold ready1
  rw [List.mem_filter]
  constructor
  · rintro ⟨h, hb⟩
    refine ⟨h, fun c hc hg ht => Classical.byContradiction fun hne => ?_⟩
    have : nd.name ∈ blockedTargets (ready0 g act s) := (mem_blockedTargets _ _).2 ⟨c, hc, hg, ht, hne⟩
    simp [this] at hb
  · rintro ⟨h, hb⟩
    refine ⟨h, ?_⟩
    have : nd.name ∉ blockedTargets (ready0 g act s) := by
      intro hm
      obtain ⟨c, hc, hg, ht, hne⟩ := (mem_blockedTargets _ _).1 hm
      exact hne (hb c hc hg ht)
    simp [this]

/-- exact characterisation of the ready set -/
theorem mem_ready_iff (g : GraphD) (act : Option (List Name)) (s : GState) (nd : NodeD) :
    nd ∈ (ready g act s).1 ↔
      nd ∈ cand g act ∧ isReady g (clearStale g s) nd = true ∧
      (∀ c ∈ ready0 g act s, c.isGate = true → nd.name ∈ c.targetNames → nd.name = c.name) ∧
      (∀ w ∈ nd.waitFor, ∀ o ∈ ready1 g act s, o.name ≠ nd.name → w ∉ o.outputs) := by
  rw [ready_fst, mem_deferWaitFor, mem_ready1, mem_ready0]
  constructor
  · rintro ⟨⟨⟨a, b⟩, c⟩, d⟩; exact ⟨a, b, c, d⟩
  · rintro ⟨a, b, c, d⟩; exact ⟨⟨⟨a, b⟩, c⟩, d⟩

theorem ready_sub_ready1 {g : GraphD} {act : Option (List Name)} {s : GState} {nd : NodeD}
    (h : nd ∈ (ready g act s).1) : nd ∈ ready1 g act s := by
  rw [ready_fst, mem_deferWaitFor] at h; exact h.1

theorem ready_sub_ready0 {g : GraphD} {act : Option (List Name)} {s : GState} {nd : NodeD}
    (h : nd ∈ (ready g act s).1) : nd ∈ ready0 g act s :=
  ((mem_ready1 g act s nd).1 (ready_sub_ready1 h)).1

theorem ready_isReady {g : GraphD} {act : Option (List Name)} {s : GState} {nd : NodeD}
    (h : nd ∈ (ready g act s).1) : isReady g (clearStale g s) nd = true :=
  ((mem_ready0 g act s nd).1 (ready_sub_ready0 h)).2

theorem ready_mem_nodes {g : GraphD} {act : Option (List Name)} {s : GState} {nd : NodeD}
    (h : nd ∈ (ready g act s).1) : nd ∈ g.nodes :=
  ((mem_cand g act nd).1 ((mem_ready0 g act s nd).1 (ready_sub_ready0 h)).1).1

/-! ## `isReady` and its conjuncts -/

theorem isReady_iff (g : GraphD) (s : GState) (nd : NodeD) :
    isReady g s nd = true ↔
      activated g s nd.name = true ∧ (∀ p ∈ nd.inputs, hasInput g s nd p = true) ∧
      waitForSatisfied s nd = true ∧ needsExec g s nd = true := by
  unfold isReady
  simp only [Bool.and_eq_true, List.all_eq_true]
  constructor
  · rintro ⟨⟨⟨a, b⟩, c⟩, d⟩; exact ⟨a, b, c, d⟩
  · rintro ⟨a, b, c, d⟩; exact ⟨⟨⟨a, b⟩, c⟩, d⟩

theorem waitForSatisfied_iff (s : GState) (nd : NodeD) :
    waitForSatisfied s nd = true ↔
      ∀ w ∈ nd.waitFor, AL.has s.values w = true ∧
        ∀ e, AL.get? s.execs nd.name = some e → s.ver w > (AL.get? e.waitForVersions w).getD 0 := by
  unfold waitForSatisfied
  simp only [List.all_eq_true, Bool.and_eq_true]
  cases AL.get? s.execs nd.name with
  | none => simp
  | some e => simp

/-- an activated gated node has a witnessing gate -/
theorem activated_gated (g : GraphD) (s : GState) (n : Name) (h : activated g s n = true)
    (hne : controlledBy g.nodes n ≠ []) :
    ∃ c ∈ controlledBy g.nodes n,
      (∃ d, AL.get? s.decisions c.name = some d ∧ decisionNames d n = true) ∨
      (AL.get? s.decisions c.name = .none ∧ AL.has s.execs c.name = false ∧ c.defaultOpen = true) := by
  unfold activated at h
  simp only [Bool.or_eq_true, List.isEmpty_iff, List.any_eq_true] at h
  rcases h with h | ⟨c, hc, h⟩
  · exact absurd h hne
  · refine ⟨c, hc, ?_⟩
    cases hd : AL.get? s.decisions c.name with
    | none =>
      rw [hd] at h
      simp only [Bool.and_eq_true, Bool.not_eq_true'] at h
      exact Or.inr ⟨rfl, h.1, h.2⟩
    | some d =>
      rw [hd] at h
      exact Or.inl ⟨d, rfl, h⟩

theorem mem_controlledBy (nodes : List NodeD) (n : Name) (c : NodeD) :
    c ∈ controlledBy nodes n ↔
      c ∈ nodes ∧ c.isGate = true ∧ n ∈ c.targetNames ∧ (findNode nodes n).isSome = true := by
  unfold controlledBy
  simp only [List.mem_filter, Bool.and_eq_true, List.contains_iff_mem]
  constructor
  · rintro ⟨a, ⟨b, c⟩, d⟩; exact ⟨a, b, c, d⟩
  · rintro ⟨a, b, c, d⟩; exact ⟨a, ⟨b, c⟩, d⟩

theorem decisionNames_ne_end (d : Dec) (n : Name) (h : decisionNames d n = true) : d ≠ Dec.end_ := by
  intro e; subst e; simp [decisionNames] at h

/-! ## `filterOutputs` -/

theorem AL.mem_of_get?₁ {α : Type} (m : AL α) (k : Name) (v : α) (h : AL.get? m k = some v) : (k, v) ∈ m := by
  induction m with
  | nil => simp at h
  | cons hd t ih =>
    obtain ⟨a, w⟩ := hd
    by_cases hk : k = a
    · simp only [AL.get?, hk, if_true] at h
      rw [hk, Option.some.inj h]; exact List.mem_cons_self
    · simp only [AL.get?, hk, if_false] at h
      exact List.mem_cons_of_mem _ (ih h)

/-- per-key step of the unselected branch of `filterOutputs` -/
def outStep (s : GState) (k : Name) : Option (Name × Val) :=
  match AL.get? s.values k with
  | some v => if v == .sentinel then .none else some (k, v)
  | .none => .none

/-- per-key step of the selected branch of `filterOutputs` -/
def selStep (s : GState) (acc : AL Val) (k : Name) : AL Val :=
  match AL.get? s.values k with
  | some v => if v == .sentinel then acc else AL.put acc k v
  | .none => acc

def selVals (s : GState) (names : List Name) : AL Val := names.foldl (selStep s) []

def missingOf (s : GState) (names : List Name) : List Name := names.filter fun k => !AL.has s.values k

theorem filterOutputs_none (g : GraphD) (s : GState) (sel : Select) (om : OnMissing)
    (h : effectiveSelect g sel = .none) :
    filterOutputs g s sel om = .ok ((graphOutputs g.nodes).filterMap (outStep s), 0) := by
  unfold filterOutputs; rw [h]; rfl

theorem filterOutputs_some (g : GraphD) (s : GState) (sel : Select) (om : OnMissing) (names : List Name)
    (h : effectiveSelect g sel = some names) :
    filterOutputs g s sel om =
      if (missingOf s names).isEmpty then .ok (selVals s names, 0)
      else match om with
        | .ignore => .ok (selVals s names, 0)
        | .warn => .ok (selVals s names, 1)
        | .error => .error (.valueError "on_missing") := by
  unfold filterOutputs; rw [h]; rfl

theorem filterOutputs_some_ok (g : GraphD) (s : GState) (sel : Select) (om : OnMissing) (names : List Name)
    (h : effectiveSelect g sel = some names) (vals : AL Val) (w : Nat)
    (hok : filterOutputs g s sel om = .ok (vals, w)) : vals = selVals s names := by
  rw [filterOutputs_some g s sel om names h] at hok
  split at hok
  · injection hok with e; exact (congrArg Prod.fst e).symm
  · cases om
    · injection hok with e; exact (congrArg Prod.fst e).symm
    · injection hok with e; exact (congrArg Prod.fst e).symm
    · cases hok

theorem outStep_some (s : GState) (a k : Name) (v : Val) (h : outStep s a = some (k, v)) :
    a = k ∧ AL.get? s.values k = some v ∧ v ≠ Val.sentinel := by
  unfold outStep at h
  cases hv : AL.get? s.values a with
  | none => rw [hv] at h; cases h
  | some v' =>
    rw [hv] at h
    by_cases hs : v' = Val.sentinel
    · simp [hs] at h
    · simp only [beq_iff_eq, hs, if_false] at h
      injection h with h; injection h with h1 h2
      subst h1; subst h2
      exact ⟨rfl, hv, hs⟩

theorem selStep_cases (s : GState) (acc : AL Val) (k : Name) :
    selStep s acc k = acc ∨
    ∃ v, AL.get? s.values k = some v ∧ v ≠ Val.sentinel ∧ selStep s acc k = AL.put acc k v := by
  unfold selStep
  cases hv : AL.get? s.values k with
  | none => exact Or.inl rfl
  | some v =>
    by_cases hs : v = Val.sentinel
    · left; simp [hs]
    · right; exact ⟨v, rfl, hs, by simp [hs]⟩

theorem selFold_sound (s : GState) (L : List Name) (l : List Name) (acc : AL Val)
    (hl : ∀ k ∈ l, k ∈ L)
    (hacc : ∀ kv ∈ acc, kv.1 ∈ L ∧ kv.2 ≠ Val.sentinel ∧ AL.get? s.values kv.1 = some kv.2) :
    ∀ kv ∈ l.foldl (selStep s) acc, kv.1 ∈ L ∧ kv.2 ≠ Val.sentinel ∧ AL.get? s.values kv.1 = some kv.2 := by
  induction l generalizing acc with
  | nil => exact hacc
  | cons x l ih =>
    rw [List.foldl_cons]
    apply ih _ (fun k hk => hl k (List.mem_cons_of_mem _ hk))
    rcases selStep_cases s acc x with h | ⟨v, hv, hs, h⟩ <;> rw [h]
    · exact hacc
    · intro kv hkv
      rcases AL.mem_put acc x v kv hkv with h' | h'
      · exact hacc kv h'
      · rw [h']; exact ⟨hl x List.mem_cons_self, hs, hv⟩

theorem selFold_nodup (s : GState) (l : List Name) (acc : AL Val) (h : (AL.keys acc).Nodup) :
    (AL.keys (l.foldl (selStep s) acc)).Nodup := by
  induction l generalizing acc with
  | nil => exact h
  | cons x l ih =>
    rw [List.foldl_cons]
    apply ih
    rcases selStep_cases s acc x with h' | ⟨v, _, _, h'⟩ <;> rw [h']
    · exact h
    · exact AL.nodup_keys_put₁ _ _ _ h

theorem selFold_complete (s : GState) (l : List Name) (acc : AL Val) (k : Name) (v : Val)
    (hv : AL.get? s.values k = some v) (hs : v ≠ Val.sentinel)
    (h : k ∈ l ∨ AL.get? acc k = some v) : AL.get? (l.foldl (selStep s) acc) k = some v := by
  induction l generalizing acc with
  | nil =>
    rcases h with h | h
    · cases h
    · exact h
  | cons x l ih =>
    rw [List.foldl_cons]
    apply ih
    by_cases hx : k = x
    · right
      subst hx
      unfold selStep; rw [hv]; simp only [beq_iff_eq, hs, if_false]
      exact AL.get?_put_same _ _ _
    · rcases h with h | h
      · left
        rcases List.mem_cons.1 h with e | e
        · exact absurd e hx
        · exact e
      · right
        rcases selStep_cases s acc x with h' | ⟨v', _, _, h'⟩ <;> rw [h']
        · exact h
        · rw [AL.get?_put_other _ _ _ _ hx]; exact h

theorem dedupFold_nodup (l : List Name) (acc : List Name) (h : acc.Nodup) :
    (l.foldl (fun acc x => if acc.contains x then acc else acc ++ [x]) acc).Nodup := by
  induction l generalizing acc with
  | nil => exact h
  | cons x l ih =>
    rw [List.foldl_cons]
    apply ih
    by_cases hx : x ∈ acc
    · simp only [List.contains_iff_mem, hx, if_true]; exact h
    · simp only [List.contains_iff_mem, hx, if_false]
      rw [List.nodup_append]
      refine ⟨h, by simp, ?_⟩
      intro a ha b hb
      simp at hb; subst hb
      intro e; subst e; exact hx ha

theorem dedup_nodup (l : List Name) : (dedup l).Nodup := dedupFold_nodup l [] List.nodup_nil

theorem keys_filterMap_outStep_sublist (s : GState) (l : List Name) :
    (AL.keys (l.filterMap (outStep s))).Sublist l := by
  induction l with
  | nil => exact List.Sublist.refl _
  | cons a l ih =>
    cases h : outStep s a with
    | none => rw [List.filterMap_cons_none h]; exact ih.cons _
    | some kv =>
      obtain ⟨k, v⟩ := kv
      rw [List.filterMap_cons_some h]
      have := (outStep_some s a k v h).1
      subst this
      exact ih.cons_cons _

/-! ## supersteps: which events a step can log -/

/-- every event of the log has a parent span extending `sp` -/
def LogUnder (sp : Span) (l : List Log) : Prop := ∀ e, Log.ev e ∈ l → ∃ p, e.parent = some (sp ++ p)

structure NestedScoped (nested : Nested) : Prop where
  run : ∀ gi vals sp, LogUnder sp (nested.run gi vals sp).log
  map : ∀ gi vals mo mm em sp, LogUnder sp (nested.map gi vals mo mm em sp).log

theorem execFn_log (sem : Sem) (gi : Nat) (nd : NodeD) (inputs : AL Val) :
    (execFn sem gi nd inputs).log = [Log.call (fnId gi nd) (toParams nd inputs)] := by
  unfold execFn
  simp only []
  split
  · rfl
  · rfl
  · split <;> rfl

theorem execIfElse_log (sem : Sem) (gi : Nat) (nd : NodeD) (inputs : AL Val) :
    (execIfElse sem gi nd inputs).log = [Log.call (fnId gi nd) (toParams nd inputs)] := by
  unfold execIfElse
  simp only []
  split <;> rfl

theorem execRoute_log (sem : Sem) (gi : Nat) (nd : NodeD) (inputs : AL Val) :
    (execRoute sem gi nd inputs).log = [Log.call (fnId gi nd) (toParams nd inputs)] := by
  unfold execRoute
  simp only []
  split
  · rfl
  · split <;> rfl
  · split <;> rfl
  · rfl

theorem execInterrupt_log (sem : Sem) (gi : Nat) (nd : NodeD) (inputs : AL Val) (ns : GState) :
    (execInterrupt sem gi nd inputs ns).log = [] ∨
    (execInterrupt sem gi nd inputs ns).log = [Log.call (fnId gi nd) (toParams nd inputs)] := by
  unfold execInterrupt
  simp only []
  split
  · left; rfl
  · right
    split
    · rfl
    · rfl
    · split <;> rfl
    · split <;> rfl

theorem execGraphNode_log (nested : Nested) (hn : NestedScoped nested) (nd : NodeD) (inputs : AL Val) (sp : Span) :
    LogUnder sp (execGraphNode nested nd inputs sp).log := by
  unfold execGraphNode
  simp only []
  split
  · split
    · exact hn.map _ _ _ _ _ _
    · split <;> exact hn.map _ _ _ _ _ _
  · split
    · exact hn.run _ _ _
    · split <;> exact hn.run _ _ _

theorem nodeError_ne : ("NodeError" : String) ≠ "NodeStart" := by decide
theorem nodeEnd_ne : ("NodeEnd" : String) ≠ "NodeStart" := by decide
theorem routeDecision_ne : ("RouteDecision" : String) ≠ "NodeStart" := by decide
theorem runStart_ne : ("RunStart" : String) ≠ "NodeStart" := by decide
theorem runEnd_ne : ("RunEnd" : String) ≠ "NodeStart" := by decide

theorem logUnder_calls (sp : Span) (fn : String) (args : AL Val) : LogUnder sp [Log.call fn args] := by
  intro e he; simp at he

theorem execNode_log (nested : Nested) (hn : NestedScoped nested) (sem : Sem) (gi : Nat) (nd : NodeD)
    (inputs : AL Val) (ns : GState) (sp : Span) :
    LogUnder sp (execNode nested sem gi nd inputs ns sp).log := by
  unfold execNode
  split
  · rw [execFn_log]; exact logUnder_calls _ _ _
  · rw [execIfElse_log]; exact logUnder_calls _ _ _
  · rw [execRoute_log]; exact logUnder_calls _ _ _
  · exact execGraphNode_log nested hn nd inputs sp
  · rcases execInterrupt_log sem gi nd inputs ns with h | h <;> rw [h]
    · intro e he; cases he
    · exact logUnder_calls _ _ _

/-- what one node of a superstep may log: its own start / end / error / route events (parent =
the run span; a `NodeStart` carries the node's name), or events of nested runs below its span -/
def NodeEv (runSpan : Span) (k : Nat) (nd : NodeD) (e : Ev) : Prop :=
  (e.parent = some runSpan ∧ (e.kind = "NodeStart" → e.name = nd.name)) ∨
  (∃ p, e.parent = some (nodeSpanOf runSpan k nd ++ p))

theorem routeEvent_nodeEv (runSpan : Span) (k : Nat) (nd : NodeD) (ns : GState) (e : Ev)
    (h : Log.ev e ∈ routeEvent runSpan k nd ns) : NodeEv runSpan k nd e := by
  unfold routeEvent at h
  split at h
  · split at h
    · simp only [List.mem_singleton, Log.ev.injEq] at h
      subst h
      exact Or.inl ⟨rfl, fun hk => absurd hk routeDecision_ne⟩
    · cases h
  · cases h

theorem stepSync_events (nested : Nested) (hn : NestedScoped nested) (sem : Sem) (gi : Nat) (g : GraphD)
    (runSpan : Span) (k : Nat) (s : GState) (rs : List NodeD) (ns : GState) (log : List Log) (e : Ev)
    (h : Log.ev e ∈ (stepSync nested sem gi g runSpan k s rs ns log).log) :
    Log.ev e ∈ log ∨ ∃ nd ∈ rs, NodeEv runSpan k nd e := by
  induction rs generalizing ns log with
  | nil => exact Or.inl h
  | cons nd rest ih =>
    unfold stepSync at h
    split at h
    · exact Or.inl h
    · rename_i inputs _
      have hexec := execNode_log nested hn sem gi nd inputs ns (nodeSpanOf runSpan k nd)
      have hstart : ∀ e', Log.ev e' ∈ [Log.ev { kind := "NodeStart", span := nodeSpanOf runSpan k nd, parent := some runSpan, name := nd.name }] →
          NodeEv runSpan k nd e' := by
        intro e' he'
        simp only [List.mem_singleton, Log.ev.injEq] at he'
        subst he'
        exact Or.inl ⟨rfl, fun _ => rfl⟩
      have hexec' : ∀ e', Log.ev e' ∈ (execNode nested sem gi nd inputs ns (nodeSpanOf runSpan k nd)).log →
          NodeEv runSpan k nd e' := fun e' he' => Or.inr (hexec e' he')
      simp only [] at h
      split at h
      · simp only [StepOut.log, List.mem_append] at h
        rcases h with ((h | h) | h) | h
        · exact Or.inl h
        · exact Or.inr ⟨nd, List.mem_cons_self, hstart e h⟩
        · exact Or.inr ⟨nd, List.mem_cons_self, hexec' e h⟩
        · simp only [List.mem_singleton, Log.ev.injEq] at h
          subst h
          exact Or.inr ⟨nd, List.mem_cons_self, Or.inl ⟨rfl, fun hk => absurd hk nodeError_ne⟩⟩
      · split at h
        · simp only [StepOut.log, List.mem_append] at h
          rcases h with ((h | h) | h) | h
          · exact Or.inl h
          · exact Or.inr ⟨nd, List.mem_cons_self, hstart e h⟩
          · exact Or.inr ⟨nd, List.mem_cons_self, hexec' e h⟩
          · simp only [List.mem_singleton, Log.ev.injEq] at h
            subst h
            exact Or.inr ⟨nd, List.mem_cons_self, Or.inl ⟨rfl, fun hk => absurd hk nodeError_ne⟩⟩
        · rcases ih _ _ h with h | ⟨nd', hnd', h⟩
          · simp only [List.mem_append] at h
            rcases h with (((h | h) | h) | h) | h
            · exact Or.inl h
            · exact Or.inr ⟨nd, List.mem_cons_self, hstart e h⟩
            · exact Or.inr ⟨nd, List.mem_cons_self, hexec' e h⟩
            · exact Or.inr ⟨nd, List.mem_cons_self, routeEvent_nodeEv _ _ _ _ e h⟩
            · simp only [List.mem_singleton, Log.ev.injEq] at h
              subst h
              exact Or.inr ⟨nd, List.mem_cons_self, Or.inl ⟨rfl, fun hk => absurd hk nodeEnd_ne⟩⟩
          · exact Or.inr ⟨nd', List.mem_cons_of_mem _ hnd', h⟩

def asyncRs (rs : List NodeD) : List NodeD :=
  match rs.find? (·.isInterrupt) with
  | some i => [i]
  | .none => rs

theorem asyncRs_sub (rs : List NodeD) (nd : NodeD) (h : nd ∈ asyncRs rs) : nd ∈ rs := by
  unfold asyncRs at h
  split at h
  · rename_i i hi
    rw [List.mem_singleton] at h; subst h
    exact List.mem_of_find?_eq_some hi
  · exact h

/-- the per-node result computed inside `stepAsync` -/
def asyncOne (nested : Nested) (sem : Sem) (gi : Nat) (g : GraphD) (runSpan : Span) (k : Nat) (s : GState)
    (nd : NodeD) : AsyncOne :=
  match collectInputs g s nd nd.inputs with
  | .none => { nd := nd, out := { res := .error (.keyError nd.name) } }
  | some inputs =>
    let sp := nodeSpanOf runSpan k nd
    let out := execNode nested sem gi nd inputs s sp
    let startEv := Log.ev { kind := "NodeStart", span := sp, parent := some runSpan, name := nd.name }
    let decState := match out.dec with
      | some d => { s with decisions := AL.put s.decisions nd.name d }
      | .none => s
    let endEv : List Log := match out.pause, out.res with
      | some _, _ => []
      | .none, .ok _ => routeEvent runSpan k nd decState ++
          [.ev { kind := "NodeEnd", span := sp, parent := some runSpan, name := nd.name }]
      | .none, .error _ => [.ev { kind := "NodeError", span := sp, parent := some runSpan, name := nd.name }]
    { nd := nd, out := { out with log := [startEv] ++ out.log ++ endEv } }

theorem stepAsync_log (nested : Nested) (sem : Sem) (gi : Nat) (g : GraphD) (runSpan : Span) (k : Nat)
    (order : List Nat) (s : GState) (rs : List NodeD) :
    (stepAsync nested sem gi g runSpan k order s rs).log =
      (permute ((asyncRs rs).map (asyncOne nested sem gi g runSpan k s)) order).flatMap (·.out.log) := by
  unfold stepAsync
  simp only []
  split
  · rfl
  · split <;> rfl

theorem mem_permute {α} [Inhabited α] (l : List α) (order : List Nat) (x : α) (h : x ∈ permute l order) :
    x ∈ l ∨ x = default := by
  unfold permute at h
  simp only [] at h
  split at h
  · obtain ⟨i, _, hi⟩ := List.mem_map.1 h
    rw [List.getD_eq_getElem?_getD] at hi
    cases hl : l[i]? with
    | none => rw [hl] at hi; exact Or.inr hi.symm
    | some y =>
      rw [hl] at hi
      simp only [Option.getD_some] at hi
      subst hi
      exact Or.inl (List.mem_of_getElem? hl)
  · exact Or.inl h

theorem asyncOne_default_log : (default : AsyncOne).out.log = [] := rfl

theorem asyncOne_events (nested : Nested) (hn : NestedScoped nested) (sem : Sem) (gi : Nat) (g : GraphD)
    (runSpan : Span) (k : Nat) (s : GState) (nd : NodeD) (e : Ev)
    (h : Log.ev e ∈ (asyncOne nested sem gi g runSpan k s nd).out.log) : NodeEv runSpan k nd e := by
  unfold asyncOne at h
  split at h
  · cases h
  · rename_i inputs _
    have hexec := execNode_log nested hn sem gi nd inputs s (nodeSpanOf runSpan k nd)
    simp only [List.mem_append] at h
    rcases h with (h | h) | h
    · simp only [List.mem_singleton, Log.ev.injEq] at h
      subst h
      exact Or.inl ⟨rfl, fun _ => rfl⟩
    · exact Or.inr (hexec e h)
    · split at h
      · cases h
      · rw [List.mem_append] at h
        rcases h with h | h
        · exact routeEvent_nodeEv _ _ _ _ e h
        · simp only [List.mem_singleton, Log.ev.injEq] at h
          subst h
          exact Or.inl ⟨rfl, fun hk => absurd hk nodeEnd_ne⟩
      · simp only [List.mem_singleton, Log.ev.injEq] at h
        subst h
        exact Or.inl ⟨rfl, fun hk => absurd hk nodeError_ne⟩

theorem stepAsync_events (nested : Nested) (hn : NestedScoped nested) (sem : Sem) (gi : Nat) (g : GraphD)
    (runSpan : Span) (k : Nat) (order : List Nat) (s : GState) (rs : List NodeD) (e : Ev)
    (h : Log.ev e ∈ (stepAsync nested sem gi g runSpan k order s rs).log) :
    ∃ nd ∈ rs, NodeEv runSpan k nd e := by
  rw [stepAsync_log, List.mem_flatMap] at h
  obtain ⟨r, hr, he⟩ := h
  rcases mem_permute _ _ r hr with hr | hr
  · obtain ⟨nd, hnd, rfl⟩ := List.mem_map.1 hr
    exact ⟨nd, asyncRs_sub rs nd hnd, asyncOne_events nested hn sem gi g runSpan k s nd e he⟩
  · subst hr; rw [asyncOne_default_log] at he; cases he

theorem span_append_ne (sp : Span) (x : String) (p : Span) : sp ++ [x] ++ p ≠ sp := by
  intro h
  have := congrArg List.length h
  simp at this

theorem nodeEv_start (runSpan : Span) (k : Nat) (nd : NodeD) (e : Ev) (h : NodeEv runSpan k nd e)
    (hk : e.kind = "NodeStart") (hp : e.parent = some runSpan) : e.name = nd.name := by
  rcases h with ⟨_, h⟩ | ⟨p, h⟩
  · exact h hk
  · rw [hp] at h
    exact absurd (Option.some.inj h).symm (span_append_ne _ _ _)

theorem nodeEv_under (runSpan : Span) (k : Nat) (nd : NodeD) (e : Ev) (h : NodeEv runSpan k nd e) :
    ∃ p, e.parent = some (runSpan ++ p) := by
  rcases h with ⟨h, _⟩ | ⟨p, h⟩
  · exact ⟨[], by rw [h, List.append_nil]⟩
  · exact ⟨[nd.name ++ "#" ++ toString k] ++ p, by rw [h]; simp [nodeSpanOf]⟩

theorem LogUnder.nil (sp : Span) : LogUnder sp [] := by intro e he; cases he
theorem LogUnder.append {sp : Span} {a b : List Log} (ha : LogUnder sp a) (hb : LogUnder sp b) :
    LogUnder sp (a ++ b) := by
  intro e he
  rcases List.mem_append.1 he with h | h
  · exact ha e h
  · exact hb e h
theorem LogUnder.weaken {P q : Span} {l : List Log} (h : LogUnder (P ++ q) l) : LogUnder P l := by
  intro e he
  obtain ⟨p, hp⟩ := h e he
  exact ⟨q ++ p, by rw [hp, List.append_assoc]⟩
theorem LogUnder.shutdown (sp : Span) : LogUnder sp [Log.shutdown] := by intro e he; simp at he
theorem LogUnder.flatMap {α} {sp : Span} (l : List α) (f : α → List Log) (h : ∀ x ∈ l, LogUnder sp (f x)) :
    LogUnder sp (l.flatMap f) := by
  intro e he
  obtain ⟨x, hx, hxe⟩ := List.mem_flatMap.1 he
  exact h x hx e hxe
theorem logUnder_runStart (P sp : Span) (g : GraphD) (info : String) : LogUnder P [runStartEv sp (some P) g info] := by
  intro e he
  simp only [runStartEv, List.mem_singleton, Log.ev.injEq] at he
  subst he; exact ⟨[], by simp⟩
theorem logUnder_runEnd (P sp : Span) (g : GraphD) (info : String) : LogUnder P [runEndEv sp (some P) g info] := by
  intro e he
  simp only [runEndEv, List.mem_singleton, Log.ev.injEq] at he
  subst he; exact ⟨[], by simp⟩

def LoopOut.log : LoopOut → List Log
  | .done _ l _ => l
  | .fail _ _ l _ => l
  | .pause _ _ l _ => l

theorem runLoop_log (step : Nat → GState → List NodeD → StepOut) (g : GraphD) (act : Option (List Name))
    (maxIter : Nat) (P : Span) (hstep : ∀ k s rs, LogUnder P (step k s rs).log) (fuel k : Nat) (s : GState)
    (log : List Log) (hl : LogUnder P log) : LogUnder P (runLoop step g act maxIter fuel k s log).log := by
  induction fuel generalizing k s log with
  | zero =>
    unfold runLoop
    simp only []
    split <;> exact hl
  | succ fuel ih =>
    unfold runLoop
    split
    · exact hl
    · rename_i rs s1 _ _
      have := hstep k s1 rs
      split
      · rename_i ns l heq
        rw [heq] at this
        exact ih _ _ _ (hl.append this)
      · rename_i e ps l heq
        rw [heq] at this
        exact hl.append this
      · rename_i p l heq
        rw [heq] at this
        exact hl.append this

theorem step_logUnder (nested : Nested) (hn : NestedScoped nested) (sem : Sem) (runner : Runner) (gi : Nat)
    (g : GraphD) (span : Span) (k : Nat) (s : GState) (rs : List NodeD) :
    LogUnder span (match runner with
      | .sync => stepSync nested sem gi g span k s rs s []
      | .async order => stepAsync nested sem gi g span k (order k) s rs).log := by
  intro e he
  cases runner with
  | sync =>
    rcases stepSync_events nested hn sem gi g span k s rs s [] e he with h | ⟨nd, _, h⟩
    · cases h
    · exact nodeEv_under _ _ _ _ h
  | async order =>
    obtain ⟨nd, _, h⟩ := stepAsync_events nested hn sem gi g span k (order k) s rs e he
    exact nodeEv_under _ _ _ _ h

theorem runGraph_log (nested : Nested) (hn : NestedScoped nested) (sem : Sem) (runner : Runner) (gi : Nat)
    (g : GraphD) (values : AL Val) (cfg : RunCfg) (P q : Span) :
    LogUnder P (runGraph nested sem runner gi g values cfg (P ++ q) (some P)).log := by
  unfold runGraph
  simp only []
  split
  · rename_i s log steps heq
    have hloop : LogUnder P (LoopOut.done s log steps).log := by
      rw [← heq]
      exact runLoop_log _ _ _ _ P
        (fun k s rs => (step_logUnder nested hn sem runner gi g (P ++ q) k s rs).weaken) _ _ _ _
        (logUnder_runStart _ _ _ _)
    split
    · exact (LogUnder.append (hloop.append (logUnder_runEnd _ _ _ _)) (LogUnder.nil _))
    · split <;> exact (LogUnder.append (hloop.append (logUnder_runEnd _ _ _ _)) (LogUnder.nil _))
  · rename_i e ps log steps heq
    have hloop : LogUnder P (LoopOut.fail e ps log steps).log := by
      rw [← heq]
      exact runLoop_log _ _ _ _ P
        (fun k s rs => (step_logUnder nested hn sem runner gi g (P ++ q) k s rs).weaken) _ _ _ _
        (logUnder_runStart _ _ _ _)
    split <;> exact (LogUnder.append (hloop.append (logUnder_runEnd _ _ _ _)) (LogUnder.nil _))
  · rename_i p ps log steps heq
    have hloop : LogUnder P (LoopOut.pause p ps log steps).log := by
      rw [← heq]
      exact runLoop_log _ _ _ _ P
        (fun k s rs => (step_logUnder nested hn sem runner gi g (P ++ q) k s rs).weaken) _ _ _ _
        (logUnder_runStart _ _ _ _)
    exact hloop.append (LogUnder.nil _)

theorem goSync_log (runItem : AL Val → Span → RunOut) (g : GraphD) (errMode : ErrMode) (P q : Span)
    (hitem : ∀ v x, LogUnder P (runItem v (P ++ q ++ [x])).log)
    (vars : List (AL Val)) (i : Nat) (acc : List RunOut) (log : List Log) (hl : LogUnder P log) :
    LogUnder P (mapGraph.goSync runItem g errMode (P ++ q) (some P) [] vars i acc log).log := by
  induction vars generalizing i acc log with
  | nil =>
    unfold mapGraph.goSync
    exact (hl.append (logUnder_runEnd _ _ _ _)).append (LogUnder.nil _)
  | cons v vs ih =>
    unfold mapGraph.goSync
    simp only []
    split
    · exact ((hl.append (hitem _ _)).append (logUnder_runEnd _ _ _ _)).append (LogUnder.nil _)
    · exact ih _ _ _ (hl.append (hitem _ _))

theorem mapGraph_log (runItem : AL Val → Span → RunOut) (isSync : Bool) (g : GraphD) (values : AL Val)
    (mapOver : List Name) (mode : MapMode) (errMode : ErrMode) (P q : Span)
    (hitem : ∀ v x, LogUnder P (runItem v (P ++ q ++ [x])).log) :
    LogUnder P (mapGraph runItem isSync g values mapOver mode errMode (P ++ q) (some P)).log := by
  unfold mapGraph
  split
  · exact LogUnder.nil _
  · exact LogUnder.nil _
  · rename_i vars _ _
    simp only []
    split
    · exact goSync_log runItem g errMode P q hitem _ _ _ _ (logUnder_runStart _ _ _ _)
    · have hitems : LogUnder P
          (List.flatMap (fun x => x.log)
            (List.map (fun i => runItem (vars.getD i []) (P ++ q ++ [toString i])) (List.range vars.length))) := by
        apply LogUnder.flatMap
        intro r hr
        obtain ⟨i, _, rfl⟩ := List.mem_map.1 hr
        exact hitem _ _
      split
      · exact (((logUnder_runStart _ _ _ _).append hitems).append (logUnder_runEnd _ _ _ _)).append (LogUnder.nil _)
      · exact (((logUnder_runStart _ _ _ _).append hitems).append (logUnder_runEnd _ _ _ _)).append (LogUnder.nil _)

theorem nestedAt_scoped (sem : Sem) (runner : Runner) (prog : Program) (d : Nat) :
    NestedScoped (nestedAt sem runner prog d) := by
  induction d with
  | zero => exact ⟨fun _ _ _ => LogUnder.nil _, fun _ _ _ _ _ _ => LogUnder.nil _⟩
  | succ d ih =>
    constructor
    · intro gi vals sp
      exact runGraph_log _ ih sem runner gi _ vals {} sp ["run"]
    · intro gi vals mo mm em sp
      refine mapGraph_log _ _ _ _ _ _ _ sp ["map"] ?_
      intro v x
      exact (runGraph_log _ ih sem runner gi _ v { errMode := .cont } (sp ++ ["map"]) [x]).weaken

end HG
