import HG.Model.Events
/-! # Lemmas for the dispatcher model (`HG.Model.Events`) — helpers for `HG.Props.C13` -/
namespace HG.Events

variable {ε : Type}

/-! ## one pass over the processor list -/

/-- no BaseException: the loop returns normally having called everybody once, in order -/
theorem loopFrom_clean (f : Processor ε → Outcome) : ∀ (ps : List (Processor ε)) (j : Nat),
    (∀ p ∈ ps, f p ≠ .raiseBaseException) →
    (loopFrom f j ps).calls = List.range' j ps.length ∧
    (loopFrom f j ps).called = List.replicate ps.length true ∧
    (loopFrom f j ps).escaped = none := by
  intro ps
  induction ps with
  | nil => intro j _; exact ⟨rfl, rfl, rfl⟩
  | cons p ps ih =>
    intro j h
    obtain ⟨h1, h2, h3⟩ := ih (j + 1) (fun q hq => h q (List.mem_cons_of_mem _ hq))
    have hp := h p (List.mem_cons_self ..)
    simp only [loopFrom]
    cases hf : f p with
    | ok => simp [h1, h2, h3, List.range'_succ, List.replicate_succ]
    | raiseException => simp [h1, h2, h3, List.range'_succ, List.replicate_succ]
    | raiseBaseException => exact absurd hf hp

/-- first BaseException at position `qs.length`: everybody up to and including the raiser was
called once, in order; nobody after it; the exception escapes -/
theorem loopFrom_escape (f : Processor ε → Outcome) (p : Processor ε) (rs : List (Processor ε))
    (hp : f p = .raiseBaseException) : ∀ (qs : List (Processor ε)) (j : Nat),
    (∀ q ∈ qs, f q ≠ .raiseBaseException) →
    (loopFrom f j (qs ++ p :: rs)).calls = List.range' j (qs.length + 1) ∧
    (loopFrom f j (qs ++ p :: rs)).called =
      List.replicate (qs.length + 1) true ++ List.replicate rs.length false ∧
    (loopFrom f j (qs ++ p :: rs)).escaped = some (j + qs.length) := by
  intro qs
  induction qs with
  | nil => intro j _; simp [loopFrom, hp, List.range'_succ, List.replicate_succ]
  | cons q qs ih =>
    intro j h
    obtain ⟨h1, h2, h3⟩ := ih (j + 1) (fun x hx => h x (List.mem_cons_of_mem _ hx))
    have hq := h q (List.mem_cons_self ..)
    simp only [List.cons_append, loopFrom]
    cases hf : f q with
    | ok =>
      simp only [h1, h2, h3, List.length_cons]
      refine ⟨by rw [List.range'_succ (n := qs.length + 1)], by simp [List.replicate_succ], by congr 1; omega⟩
    | raiseException =>
      simp only [h1, h2, h3, List.length_cons]
      refine ⟨by rw [List.range'_succ (n := qs.length + 1)], by simp [List.replicate_succ], by congr 1; omega⟩
    | raiseBaseException => exact absurd hf hq

/-! ## recording -/

theorem record_all (e : ε) : ∀ (acc : List (List ε)) (n : Nat), acc.length = n →
    record e acc (List.replicate n true) = acc.map (· ++ [e]) := by
  intro acc
  induction acc with
  | nil => intro n _; simp [record]
  | cons r acc ih =>
    intro n h
    cases n with
    | zero => simp at h
    | succ n =>
      have := ih n (by simpa using h)
      simp only [record] at this ⊢
      simp [List.replicate_succ, this]

theorem record_none (e : ε) : ∀ (acc : List (List ε)) (n : Nat), acc.length = n →
    record e acc (List.replicate n false) = acc := by
  intro acc
  induction acc with
  | nil => intro n _; simp [record]
  | cons r acc ih =>
    intro n h
    cases n with
    | zero => simp at h
    | succ n =>
      have := ih n (by simpa using h)
      simp only [record] at this ⊢
      simp [List.replicate_succ, this]

theorem record_split (e : ε) (a b : List (List ε)) :
    record e (a ++ b) (List.replicate a.length true ++ List.replicate b.length false) =
      a.map (· ++ [e]) ++ b := by
  have h1 := record_all e a a.length rfl
  have h2 := record_none e b b.length rfl
  simp only [record] at h1 h2 ⊢
  rw [List.zipWith_append (by simp), h1, h2]

theorem length_record (e : ε) (acc : List (List ε)) (called : List Bool)
    (h : called.length = acc.length) : (record e acc called).length = acc.length := by
  simp [record, h]

/-! ## delivering a trace -/

/-- the events of `es`, delivered as emissions `i, i+1, …`, meet no BaseException -/
def CleanFrom (ps : List (Processor ε)) (i : Nat) (es : List ε) : Prop :=
  ∀ (m : Nat) (e : ε), es[m]? = some e → ∀ p ∈ ps, p.onEvent (i + m) e ≠ .raiseBaseException

theorem CleanFrom.tail {ps : List (Processor ε)} {i : Nat} {e : ε} {es : List ε}
    (h : CleanFrom ps i (e :: es)) : CleanFrom ps (i + 1) es := by
  intro m e' hm p hp
  have := h (m + 1) e' (by simpa using hm) p hp
  rwa [show i + (m + 1) = i + 1 + m by omega] at this

/-- a clean prefix is delivered to everybody, then delivery goes on with the rest -/
theorem deliverFrom_append_clean (ps : List (Processor ε)) : ∀ (pre : List ε) (i : Nat)
    (rest : List ε) (acc : List (List ε)) (lg : List (Nat × Nat)),
    acc.length = ps.length → CleanFrom ps i pre →
    ∃ lg', deliverFrom ps i (pre ++ rest) acc lg =
      deliverFrom ps (i + pre.length) rest (acc.map (· ++ pre)) lg' := by
  intro pre
  induction pre with
  | nil => intro i rest acc lg _ _; exact ⟨lg, by simp⟩
  | cons e pre ih =>
    intro i rest acc lg hlen hc
    have hclean : ∀ p ∈ ps, p.onEvent i e ≠ .raiseBaseException := by
      intro p hp
      have := hc 0 e (by simp) p hp
      simpa using this
    obtain ⟨_, h2, h3⟩ := loopFrom_clean (fun p => p.onEvent i e) ps 0 hclean
    have hrec : record e acc (emit ps i e).called = acc.map (· ++ [e]) := by
      show record e acc (loopFrom _ 0 ps).called = _
      rw [h2]; exact record_all e acc _ hlen
    have hesc : (emit ps i e).escaped = none := h3
    obtain ⟨lg', hlg⟩ := ih (i + 1) rest (acc.map (· ++ [e]))
      (lg ++ (emit ps i e).logged.map (fun j => (i, j))) (by simpa using hlen) hc.tail
    refine ⟨lg', ?_⟩
    simp only [List.cons_append, deliverFrom, hesc, hrec]
    rw [hlg]
    congr 1
    · simp only [List.length_cons]; omega
    · simp [List.map_map, Function.comp_def]

theorem deliverFrom_clean (ps : List (Processor ε)) (i : Nat) (es : List ε)
    (acc : List (List ε)) (lg : List (Nat × Nat)) (hlen : acc.length = ps.length)
    (hc : CleanFrom ps i es) :
    (deliverFrom ps i es acc lg).received = acc.map (· ++ es) ∧
    (deliverFrom ps i es acc lg).escaped = none := by
  obtain ⟨lg', h⟩ := deliverFrom_append_clean ps es i [] acc lg hlen hc
  rw [List.append_nil] at h
  rw [h]
  exact ⟨rfl, rfl⟩

/-- one emission whose first BaseException comes from the processor at position `qs.length` -/
theorem deliverFrom_escape (qs rs : List (Processor ε)) (p : Processor ε) (i : Nat) (e : ε)
    (post : List ε) (a b : List (List ε)) (lg : List (Nat × Nat))
    (ha : a.length = qs.length + 1) (hb : b.length = rs.length)
    (hq : ∀ q ∈ qs, q.onEvent i e ≠ .raiseBaseException)
    (hp : p.onEvent i e = .raiseBaseException) :
    (deliverFrom (qs ++ p :: rs) i (e :: post) (a ++ b) lg).received = a.map (· ++ [e]) ++ b ∧
    (deliverFrom (qs ++ p :: rs) i (e :: post) (a ++ b) lg).escaped = some (i, qs.length) := by
  obtain ⟨_, h2, h3⟩ := loopFrom_escape (fun p => p.onEvent i e) p rs hp qs 0 hq
  have hesc : (emit (qs ++ p :: rs) i e).escaped = some qs.length := by
    show (loopFrom _ 0 _).escaped = _
    rw [h3]; simp
  have hrec : record e (a ++ b) (emit (qs ++ p :: rs) i e).called = a.map (· ++ [e]) ++ b := by
    show record e (a ++ b) (loopFrom _ 0 _).called = _
    rw [h2, ← ha, ← hb]; exact record_split e a b
  simp [deliverFrom, hesc, hrec]

end HG.Events
