import HG.Lemmas.NestOuter
/-! # HG.Lemmas.NestEx — helpers for C05, part 5: decidable criteria and the concrete graphs of the
non-vacuity examples -/
namespace HG.Nest
open HG HG.C01 HG.Intr

/-! ## a decidable criterion for convexity -/

instance (m n : NodeD) : Decidable (Feeds m n) := by unfold Feeds; exact inferInstance

/-- local certificate of convexity: every node outside `S` is labelled "upstream" (`false`: all its feeders
are outside `S` and upstream) or "downstream" (`true`: everything it feeds is outside `S` and downstream) -/
def SideOK (G : GraphD) (S : List Name) (side : Name → Bool) : Prop :=
  (∀ n ∈ G.nodes, n.name ∉ S → side n.name = false →
    ∀ m ∈ G.nodes, Feeds m n → m.name ∉ S ∧ side m.name = false) ∧
  (∀ n ∈ G.nodes, n.name ∉ S → side n.name = true →
    ∀ k ∈ G.nodes, Feeds n k → k.name ∉ S ∧ side k.name = true)

instance (G : GraphD) (S : List Name) (side : Name → Bool) : Decidable (SideOK G S side) := by
  unfold SideOK; exact @instDecidableAnd _ _ inferInstance inferInstance

theorem Reach.mem_left {G : GraphD} {a b : NodeD} (h : Reach G a b) : a ∈ G.nodes := by
  induction h with
  | step ha _ _ => exact ha
  | snoc _ _ _ ih => exact ih

theorem Reach.mem_right {G : GraphD} {a b : NodeD} (h : Reach G a b) : b ∈ G.nodes := by
  cases h with
  | step _ hb _ => exact hb
  | snoc _ hb _ => exact hb

theorem convex_of_sides (G : GraphD) (S : List NodeD) (side : Name → Bool)
    (hnames : (G.nodes.map (·.name)).Nodup) (hS : ∀ x ∈ S, x ∈ G.nodes)
    (hok : SideOK G (S.map (·.name)) side) : Convex G S := by
  obtain ⟨hU, hD⟩ := hok
  -- nothing upstream is reachable from `S`
  have hup : ∀ a n, Reach G a n → a ∈ S → n.name ∉ S.map (·.name) → side n.name = false → False := by
    intro a n hr
    induction hr with
    | step ha hn hf =>
      intro haS hnS hs
      exact (hU _ hn hnS hs _ ha hf).1 (List.mem_map_of_mem haS)
    | snoc hr hk hf ih =>
      intro haS hkS hs
      obtain ⟨h1, h2⟩ := hU _ hk hkS hs _ hr.mem_right hf
      exact ih haS h1 h2
  -- everything reachable from a downstream node is outside `S`
  have hdown : ∀ n b, Reach G n b → n.name ∉ S.map (·.name) → side n.name = true →
      b.name ∉ S.map (·.name) ∧ side b.name = true := by
    intro n b hr
    induction hr with
    | step hn hb hf =>
      intro hnS hs
      exact hD _ hn hnS hs _ hb hf
    | snoc hr hk hf ih =>
      intro hnS hs
      obtain ⟨h1, h2⟩ := ih hnS hs
      exact hD _ hr.mem_right h1 h2 _ hk hf
  intro a ha b hb n hn hran hrnb
  cases hnS : decide (n.name ∈ S.map (·.name)) with
  | true =>
    have hmem : n.name ∈ S.map (·.name) := by simpa using hnS
    obtain ⟨x, hx, e⟩ := List.mem_map.1 hmem
    have : x = n := mem_unique_of_nodup_map (·.name) G.nodes hnames x (hS x hx) n hn e
    exact this ▸ hx
  | false =>
    have hnot : n.name ∉ S.map (·.name) := by simpa using hnS
    exfalso
    cases hs : side n.name with
    | false => exact hup a n hran ha hnot hs
    | true => exact (hdown n b hrnb hnot hs).1 (List.mem_map_of_mem hb)

/-- the same for a nested part given as a segment of the node list -/
theorem convex_of_sides_seg (G : GraphD) (pre S post : List NodeD) (side : Name → Bool)
    (hG : G.nodes = pre ++ S ++ post) (hnames : (G.nodes.map (·.name)).Nodup)
    (hok : SideOK G (S.map (·.name)) side) : Convex G S :=
  convex_of_sides G S side hnames (fun x hx => by rw [hG]; simp [hx]) hok

/-! ## `bodySem` never returns the emit sentinel on tagged single-output nodes -/

/-- a node whose body is a tagged tuple written to exactly one data output, without emit outputs -/
def tagOne (nd : NodeD) : Bool :=
  match nd.body with
  | .tag _ => nd.dataOuts.length == 1 && nd.emits.isEmpty
  | _ => false

theorem bodySem_noSentinel {g : GraphD} (h : ∀ nd ∈ g.nodes, tagOne nd = true) : NoSentinel bodySem g := by
  intro nd hn args v outs hv hw o w hget
  have hb := h nd hn
  unfold tagOne at hb
  split at hb
  · rename_i t hbody
    simp only [Bool.and_eq_true, beq_iff_eq, List.isEmpty_iff] at hb
    obtain ⟨hlen, hem⟩ := hb
    match hd : nd.dataOuts with
    | [] => rw [hd] at hlen; cases hlen
    | _ :: _ :: _ => rw [hd] at hlen; simp at hlen
    | [o'] =>
      unfold bodySem at hv
      rw [hbody] at hv
      simp only [Body.eval, Outcome.val.injEq] at hv
      subst hv
      unfold wrapOutputs at hw
      rw [hd, hem] at hw
      simp only [List.map_nil, Option.some.injEq] at hw
      subst hw
      have : AL.merge [(o', Val.mkTup (Val.str t :: args.map (·.2)))] ([] : AL Val) =
          [(o', Val.mkTup (Val.str t :: args.map (·.2)))] := rfl
      rw [this] at hget
      simp only [AL.get?] at hget
      split at hget
      · injection hget with e; subst e; simp [Val.mkTup]
      · cases hget
  · cases hb

/-! ## the concrete graphs: `a(x)→p`, `b(p)→q`, `c(q, y)→r`, `d(r)→out`; nested part `{b, c}` -/

def nxA : NodeSpec := { name := "a", kind := .fn, params := [("x", .none)], dataOuts := ["p"], body := .tag "a" }
def nxB : NodeSpec := { name := "b", kind := .fn, params := [("p", .none)], dataOuts := ["q"], body := .tag "b" }
def nxC : NodeSpec :=
  { name := "c", kind := .fn, params := [("q", .none), ("y", .none)], dataOuts := ["r"], body := .tag "c" }
def nxD : NodeSpec := { name := "d", kind := .fn, params := [("r", .none)], dataOuts := ["out"], body := .tag "d" }
/-- the wrapper description: plain, inner graph = program index 0 -/
def nxW : NodeSpec := { name := "W", kind := .graph, inner := 0 }

def nxInnerSpec : GraphSpec := { name := "inner", nodes := [nxB, nxC] }
def nxOuterSpec : GraphSpec := { name := "outer", nodes := [nxA, nxW, nxD] }
def nxFlatSpec : GraphSpec := { name := "flat", nodes := [nxA, nxB, nxC, nxD] }

/-- program: 0 = inner graph, 1 = outer graph with the wrapper, 2 = flat graph -/
def nxProg : List GraphD := elabProgram [nxInnerSpec, nxOuterSpec, nxFlatSpec]
def nxI : GraphD := nxProg.getD 0 default
def nxO : GraphD := nxProg.getD 1 default
def nxG : GraphD := nxProg.getD 2 default

def nxVals : AL Val := [("x", .int 1), ("y", .int 2)]
def nxLevelG : Name → Nat := fun n => if n = "a" then 0 else if n = "b" then 1 else if n = "c" then 2 else 3
/-- `a` is upstream of the nested part, `d` downstream -/
def nxSide : Name → Bool := fun n => n == "d"

end HG.Nest
