import HG.Model.IsoNested
import HG.Lemmas.Heap
/-! # Lemmas for the nested / mapped run-isolation model (`HG.IsoN`) -/
namespace HG
namespace IsoN
open Iso (Ref Mem Eff Src Arg Res Ev cell dict lookupState resolveArgs mkRes applyEff)

/-! ### recursive collections -/
theorem defaults_fn (srcs : List Src) (eff : Eff) (out : Name) :
    (Node.fn srcs eff out).defaults = srcs.filterMap srcDefault := by rw [Node.defaults]
theorem defaults_sub (i : List Node) (f : List (Name × Src')) (it : Option (List (AL Ref)))
    (c : CloneCfg) (o : List Name) : (Node.sub i f it c o).defaults = defaultsL i := by
  rw [Node.defaults]
theorem defaultsL_cons (n : Node) (ns : List Node) :
    defaultsL (n :: ns) = n.defaults ++ defaultsL ns := by rw [defaultsL]
theorem shared_fn (srcs : List Src) (eff : Eff) (out : Name) :
    (Node.fn srcs eff out).shared = srcs.filterMap srcBound := by rw [Node.shared]
theorem shared_sub (i : List Node) (f : List (Name × Src')) (it : Option (List (AL Ref)))
    (c : CloneCfg) (o : List Name) :
    (Node.sub i f it c o).shared = f.filterMap fwdBound ++ itemRefs it ++ sharedL i := by
  rw [Node.shared]
theorem sharedL_cons (n : Node) (ns : List Node) :
    sharedL (n :: ns) = n.shared ++ sharedL ns := by rw [sharedL]
theorem depth_fn (srcs : List Src) (eff : Eff) (out : Name) : (Node.fn srcs eff out).depth = 0 := by
  rw [Node.depth]
theorem depth_sub (i : List Node) (f : List (Name × Src')) (it : Option (List (AL Ref)))
    (c : CloneCfg) (o : List Name) : (Node.sub i f it c o).depth = depthL i + 1 := by
  rw [Node.depth]
theorem depthL_cons (n : Node) (ns : List Node) : depthL (n :: ns) = max n.depth (depthL ns) := by
  rw [depthL]

theorem mem_defaultsL {nds : List Node} {nd : Node} (h : nd ∈ nds) {c : Ref}
    (hc : c ∈ nd.defaults) : c ∈ defaultsL nds := by
  induction nds with
  | nil => cases h
  | cons n ns ih =>
    rw [defaultsL_cons, List.mem_append]
    rcases List.mem_cons.mp h with rfl | h
    · exact Or.inl hc
    · exact Or.inr (ih h)

theorem mem_sharedL {nds : List Node} {nd : Node} (h : nd ∈ nds) {c : Ref}
    (hc : c ∈ nd.shared) : c ∈ sharedL nds := by
  induction nds with
  | nil => cases h
  | cons n ns ih =>
    rw [sharedL_cons, List.mem_append]
    rcases List.mem_cons.mp h with rfl | h
    · exact Or.inl hc
    · exact Or.inr (ih h)

theorem depth_le_depthL {nds : List Node} {nd : Node} (h : nd ∈ nds) : nd.depth ≤ depthL nds := by
  induction nds with
  | nil => cases h
  | cons n ns ih =>
    rw [depthL_cons]
    rcases List.mem_cons.mp h with rfl | h
    · exact Nat.le_max_left _ _
    · exact Nat.le_trans (ih h) (Nat.le_max_right _ _)

/-! ### addressing -/
theorem nodeAt_snoc {inner : List Node} {fwd : List (Name × Src')} {items : Option (List (AL Ref))}
    {cl : CloneCfg} {outs : List Name} (it j : Nat) :
    ∀ (p : Path) (nds : List Node) (sid : Nat),
      nodeAt nds sid p = some (.sub inner fwd items cl outs) →
      nodeAt nds sid (p ++ [(it, j)]) = inner[j]?
  | [], nds, sid, h => by
    simp only [nodeAt] at h
    simp only [List.nil_append, nodeAt, h]
  | (i, j') :: p, nds, sid, h => by
    simp only [nodeAt] at h
    cases hn : nds[sid]? with
    | none => simp [hn] at h
    | some nd =>
      cases nd with
      | fn => simp [hn] at h
      | sub inner' f' it' c' o' =>
        simp only [hn] at h
        simp only [List.cons_append, nodeAt, hn]
        exact nodeAt_snoc it j p inner' j' h

theorem defaults_of_nodeAt {c : Ref} : ∀ (p : Path) (nds : List Node) (sid : Nat) (nd : Node),
    nodeAt nds sid p = some nd → c ∈ nd.defaults → c ∈ defaultsL nds
  | [], nds, sid, nd, h, hc => by
    simp only [nodeAt] at h
    exact mem_defaultsL (List.mem_of_getElem? h) hc
  | (i, j') :: p, nds, sid, nd, h, hc => by
    simp only [nodeAt] at h
    cases hn : nds[sid]? with
    | none => simp [hn] at h
    | some nd' =>
      cases nd' with
      | fn => simp [hn] at h
      | sub inner' f' it' c' o' =>
        simp only [hn] at h
        have := defaults_of_nodeAt p inner' j' nd h hc
        exact mem_defaultsL (List.mem_of_getElem? hn) (by rw [defaults_sub]; exact this)

theorem shared_of_nodeAt {c : Ref} : ∀ (p : Path) (nds : List Node) (sid : Nat) (nd : Node),
    nodeAt nds sid p = some nd → c ∈ nd.shared → c ∈ sharedL nds
  | [], nds, sid, nd, h, hc => by
    simp only [nodeAt] at h
    exact mem_sharedL (List.mem_of_getElem? h) hc
  | (i, j') :: p, nds, sid, nd, h, hc => by
    simp only [nodeAt] at h
    cases hn : nds[sid]? with
    | none => simp [hn] at h
    | some nd' =>
      cases nd' with
      | fn => simp [hn] at h
      | sub inner' f' it' c' o' =>
        simp only [hn] at h
        have := shared_of_nodeAt p inner' j' nd h hc
        exact mem_sharedL (List.mem_of_getElem? hn)
          (by rw [shared_sub]; exact List.mem_append_right _ this)

/-! ### well-formedness -/
/-- `c` is the signature-default cell of some parameter of some function node at ANY depth -/
def IsDefault (specs : List RunSpec) (c : Ref) : Prop :=
  ∃ (rid : Nat) (spec : RunSpec), specs[rid]? = some spec ∧ c ∈ defaultsL spec.nodes
/-- `c` is shared INTENTIONALLY: bound on a graph at any depth, an element of a mapped-over list at
any depth, reachable from a caller's mapping, or passed as a keyword argument -/
def IsShared (specs : List RunSpec) (m0 : Mem) (c : Ref) : Prop :=
  (∃ (rid : Nat) (spec : RunSpec), specs[rid]? = some spec ∧ c ∈ sharedL spec.nodes) ∨
  (∃ (d : Nat) (dc : AL Ref) (k : Name), m0.dicts[d]? = some dc ∧ (k, c) ∈ dc) ∨
  (∃ (rid : Nat) (spec : RunSpec) (k : Name), specs[rid]? = some spec ∧ (k, c) ∈ spec.kwargs)
/-- well-formed initial situation: every default cell exists, and it is not ALSO handed out
explicitly (bound / mapped item / provided / kwarg) by the user at any depth -/
structure WF (specs : List RunSpec) (m0 : Mem) : Prop where
  default_lt : ∀ c, IsDefault specs c → c < m0.cells.length
  priv : ∀ c, IsDefault specs c → ¬ IsShared specs m0 c
/-- a reference that may legitimately reach a node function -/
def RefOk (specs : List RunSpec) (m0 : Mem) (c : Ref) : Prop :=
  IsShared specs m0 c ∨ m0.cells.length ≤ c

theorem default_not_refOk {specs : List RunSpec} {m0 : Mem} (hw : WF specs m0) {c : Ref}
    (hc : IsDefault specs c) : ¬ RefOk specs m0 c := by
  rintro (h | h)
  · exact hw.priv c hc h
  · have := hw.default_lt c hc; iomega

theorem isDefault_of_nodeAt {specs : List RunSpec} {rid : Nat} {spec : RunSpec}
    (hs : specs[rid]? = some spec) {sid : Nat} {p : Path} {nd : Node}
    (h : nodeAt spec.nodes sid p = some nd) {c : Ref} (hc : c ∈ nd.defaults) : IsDefault specs c :=
  ⟨rid, spec, hs, defaults_of_nodeAt p _ sid nd h hc⟩
theorem isShared_of_nodeAt {specs : List RunSpec} {m0 : Mem} {rid : Nat} {spec : RunSpec}
    (hs : specs[rid]? = some spec) {sid : Nat} {p : Path} {nd : Node}
    (h : nodeAt spec.nodes sid p = some nd) {c : Ref} (hc : c ∈ nd.shared) : IsShared specs m0 c :=
  Or.inl ⟨rid, spec, hs, shared_of_nodeAt p _ sid nd h hc⟩

/-! ### the memory part of the invariant -/
structure JM (specs : List RunSpec) (m0 m : Mem) : Prop where
  cells_le : m0.cells.length ≤ m.cells.length
  dicts_le : m0.dicts.length ≤ m.dicts.length
  dicts_old : ∀ d : Nat, d < m0.dicts.length → m.dicts[d]? = m0.dicts[d]?
  dict_vals : ∀ (d : Nat) (dc : AL Ref) (k : Name) (c : Ref),
    m.dicts[d]? = some dc → (k, c) ∈ dc → RefOk specs m0 c
  defaults_kept : ∀ c : Nat, c < m0.cells.length → IsDefault specs c → cell m c = cell m0 c

theorem JM.init (specs : List RunSpec) (m0 : Mem) : JM specs m0 m0 :=
  ⟨Nat.le_refl _, Nat.le_refl _, fun _ _ => rfl,
    fun d dc k _ h1 h2 => Or.inl (Or.inr (Or.inl ⟨d, dc, k, h1, h2⟩)), fun _ _ _ => rfl⟩

theorem JM.dict_ok {specs : List RunSpec} {m0 m : Mem} (h : JM specs m0 m) {d : Ref} {k : Name}
    {c : Ref} (hk : (k, c) ∈ dict m d) : RefOk specs m0 c := by
  simp only [dict, List.getD_eq_getElem?_getD] at hk
  cases hd : m.dicts[d]? with
  | none => simp [hd] at hk
  | some dc => simp only [hd, Option.getD_some] at hk; exact h.dict_vals d dc k c hd hk

theorem JM.alloc_cells {specs : List RunSpec} {m0 m : Mem} (h : JM specs m0 m) (xs : List (List Int)) :
    JM specs m0 ⟨m.cells ++ xs, m.dicts⟩ :=
  ⟨by simp only [List.length_append]; have := h.cells_le; omega, h.dicts_le, h.dicts_old, h.dict_vals,
    fun c hc hd => by
      rw [Iso.cell_append_lt m.cells xs m.dicts m.dicts (by have := h.cells_le; iomega)]
      exact h.defaults_kept c hc hd⟩

theorem JM.alloc_dict {specs : List RunSpec} {m0 m : Mem} (h : JM specs m0 m) (d : AL Ref)
    (hd : ∀ k c, (k, c) ∈ d → RefOk specs m0 c) : JM specs m0 ⟨m.cells, m.dicts ++ [d]⟩ := by
  refine ⟨h.cells_le, by simp only [List.length_append]; have := h.dicts_le; omega, ?_, ?_,
    h.defaults_kept⟩
  · intro i hi
    have := h.dicts_le
    simp only
    rw [List.getElem?_append_left (by omega)]
    exact h.dicts_old i hi
  · intro i dc k c hi hkc
    simp only at hi
    by_cases hlt : i < m.dicts.length
    · rw [List.getElem?_append_left hlt] at hi
      exact h.dict_vals i dc k c hi hkc
    · rw [List.getElem?_append_right (by omega)] at hi
      cases hidx : i - m.dicts.length with
      | zero =>
        rw [hidx] at hi
        simp only [List.getElem?_cons_zero, Option.some.injEq] at hi
        subst hi; exact hd k c hkc
      | succ n => rw [hidx] at hi; simp at hi

theorem JM.set_dict {specs : List RunSpec} {m0 m : Mem} (h : JM specs m0 m) {st : Ref}
    (hst : m0.dicts.length ≤ st) (d : AL Ref) (hd : ∀ k c, (k, c) ∈ d → RefOk specs m0 c) :
    JM specs m0 ⟨m.cells, m.dicts.set st d⟩ := by
  refine ⟨h.cells_le, by simp only [List.length_set]; exact h.dicts_le, ?_, ?_, h.defaults_kept⟩
  · intro i hi
    simp only
    rw [List.getElem?_set_ne (by iomega)]
    exact h.dicts_old i hi
  · intro i dc k c hi hkc
    simp only [List.getElem?_set] at hi
    by_cases hds : st = i
    · simp only [hds, if_true] at hi
      split at hi
      · simp only [Option.some.injEq] at hi
        subst hi; exact hd k c hkc
      · simp at hi
    · simp only [hds, if_false] at hi
      exact h.dict_vals i dc k c hi hkc

theorem JM.write_cell {specs : List RunSpec} {m0 m : Mem} (h : JM specs m0 m) (a : Ref) (x : List Int)
    (ha : ¬ IsDefault specs a) : JM specs m0 ⟨m.cells.set a x, m.dicts⟩ := by
  refine ⟨by simp only [List.length_set]; exact h.cells_le, h.dicts_le, h.dicts_old, h.dict_vals, ?_⟩
  intro c hc hd
  have hne : a ≠ c := fun e => ha (e ▸ hd)
  rw [← h.defaults_kept c hc hd]
  simp [cell, List.getD_eq_getElem?_getD, hne]

/-! ### the invariant -/
/-- how a logged argument relates to the source it was resolved from -/
def SrcArgOk (specs : List RunSpec) (m0 : Mem) : Src → Arg → Prop
  | .default c, a => a.copyOf = some c ∧ m0.cells.length ≤ a.ref
  | .bound c, a => a = ⟨c, .none⟩
  | .provided _, a => a.copyOf = .none ∧ RefOk specs m0 a.ref

/-- a logged call is the call of a function node (at `rid`, `sid`, `path`); one argument per
parameter, each related to its source; a default-sourced argument saw the INITIAL contents of its
default cell -/
def CallOk (specs : List RunSpec) (m0 : Mem) (call : Call) : Prop :=
  ∃ (spec : RunSpec) (srcs : List Src) (out : Name), specs[call.rid]? = some spec ∧
    nodeAt spec.nodes call.sid call.path = some (.fn srcs call.eff out) ∧
    call.args.length = srcs.length ∧ call.res.before.length = call.args.length ∧
    ∀ (j : Nat) (src : Src) (a : Arg), srcs[j]? = some src → call.args[j]? = some a →
      SrcArgOk specs m0 src a ∧ (∀ c, src = .default c → call.res.before[j]? = some (cell m0 c))

/-- the clone configuration in effect: cloning exists only for mapped sub nodes -/
def effClone : Option (List (AL Ref)) → CloneCfg → CloneCfg
  | .none, _ => .none
  | some _, cl => cl

def clonedRef (p : Name × Arg) : Option Ref :=
  match p.2.copyOf with
  | some _ => some p.2.ref
  | .none => .none
/-- the references created by the clone step of one inner-run start -/
def clones (fa : List (Name × Arg)) : List Ref := fa.filterMap clonedRef
/-- every reference ever created by a clone step -/
def cloneRefs (inits : List InnerStart) : List Ref := inits.flatMap fun i => clones i.fwd

/-- a forwarded name `k` reaching an inner run as `a` -/
def FwdOk (m0 : Mem) (fwd : List (Name × Src')) (cl : CloneCfg) (k : Name) (a : Arg) : Prop :=
  (∃ src, (k, src) ∈ fwd ∧ ∀ c, src = .bound c → a.copyOf.getD a.ref = c) ∧
  (cl.selects k = true → ∃ c, a.copyOf = some c ∧ m0.cells.length ≤ a.ref) ∧
  (cl.selects k = false → a.copyOf = .none)

def InitOk (specs : List RunSpec) (m0 : Mem) (i : InnerStart) : Prop :=
  ∃ (spec : RunSpec) (inner : List Node) (fwd : List (Name × Src')) (items : Option (List (AL Ref)))
    (cl : CloneCfg) (outs : List Name), specs[i.rid]? = some spec ∧
    nodeAt spec.nodes i.sid i.path = some (.sub inner fwd items cl outs) ∧
    (∀ L, items = some L → i.item < L.length) ∧
    ∀ k a, (k, a) ∈ i.fwd → FwdOk m0 fwd (effClone items cl) k a

structure J (specs : List RunSpec) (m0 : Mem) (s : St) : Prop where
  mem : JM specs m0 s.mem
  calls : ∀ call, call ∈ s.log → CallOk specs m0 call
  inits : ∀ i, i ∈ s.inits → InitOk specs m0 i
  clones_lt : ∀ r, r ∈ cloneRefs s.inits → r < s.mem.cells.length
  clones_nodup : (cloneRefs s.inits).Nodup

theorem J.of_mem {specs : List RunSpec} {m0 : Mem} {s : St} (h : J specs m0 s) {m' : Mem}
    (hm : JM specs m0 m') (hle : s.mem.cells.length ≤ m'.cells.length) :
    J specs m0 ⟨m', s.log, s.inits⟩ :=
  ⟨hm, h.calls, h.inits, fun r hr => Nat.lt_of_lt_of_le (h.clones_lt r hr) hle, h.clones_nodup⟩

theorem mkRes_before (cs : List (List Int)) (eff : Eff) : (mkRes cs eff).before = cs := by
  cases eff <;> rfl

theorem applyEff_JM {specs : List RunSpec} {m0 m : Mem} (h : JM specs m0 m) (refs : List Ref)
    (eff : Eff) (hr : ∀ a, a ∈ refs → ¬ IsDefault specs a) : JM specs m0 (applyEff m refs eff) := by
  cases eff with
  | none => exact h
  | appendTo i x =>
    simp only [applyEff]
    split
    · rename_i a ha
      exact h.write_cell a _ (hr a (List.mem_of_getElem? ha))
    · exact h

/-- a function-node call preserves the invariant -/
theorem execFn_J {specs : List RunSpec} {m0 : Mem} (hw : WF specs m0) {s : St} (hJ : J specs m0 s)
    {rid sid : Nat} {path : Path} {st : Ref} {srcs : List Src} {eff : Eff} {out : Name}
    {spec : RunSpec} (hs : specs[rid]? = some spec)
    (hn : nodeAt spec.nodes sid path = some (.fn srcs eff out)) (hst : m0.dicts.length ≤ st) :
    J specs m0 (execFn true rid sid path st srcs eff out s) := by
  unfold execFn
  cases hr : resolveArgs true (dict s.mem st) s.mem srcs with
  | none => exact hJ
  | some r =>
    obtain ⟨m1, args⟩ := r
    simp only
    have hdefault : ∀ c, Src.default c ∈ srcs → IsDefault specs c := fun c hc =>
      isDefault_of_nodeAt hs hn (by rw [defaults_fn]; exact List.mem_filterMap.mpr ⟨_, hc, rfl⟩)
    have hdeflt : ∀ c, Src.default c ∈ srcs → c < s.mem.cells.length := by
      intro c hc
      have := hw.default_lt c (hdefault c hc); have := hJ.mem.cells_le; iomega
    obtain ⟨hd1, ⟨ex, hex⟩, hlen, hall⟩ := Iso.resolveArgs_spec _ srcs s.mem m1 args hr hdeflt
    have hsrcok : ∀ (j : Nat) (src : Src) (a : Arg), srcs[j]? = some src → args[j]? = some a →
        SrcArgOk specs m0 src a := by
      intro j src a hsrc ha
      have hok := hall j src a hsrc ha
      cases src with
      | default c =>
        obtain ⟨h1, h2, _, _⟩ := hok
        exact ⟨h1, by have := hJ.mem.cells_le; iomega⟩
      | bound c => exact hok
      | provided k => exact ⟨hok.2, hJ.mem.dict_ok (Iso.mem_of_get? hok.1)⟩
    have hargok : ∀ a, a ∈ args → RefOk specs m0 a.ref := by
      intro a ha
      obtain ⟨j, hj⟩ := List.getElem?_of_mem ha
      have hjlt : j < args.length := (List.getElem?_eq_some_iff.mp hj).1
      obtain ⟨src, hsrc⟩ : ∃ src, srcs[j]? = some src :=
        ⟨srcs[j]'(by omega), List.getElem?_eq_getElem (by omega)⟩
      have hok := hsrcok j src a hsrc hj
      cases src with
      | default c => exact Or.inr hok.2
      | bound c =>
        simp only [SrcArgOk] at hok; subst hok
        exact Or.inl (isShared_of_nodeAt hs hn
          (by rw [shared_fn]; exact List.mem_filterMap.mpr ⟨_, List.mem_of_getElem? hsrc, rfl⟩))
      | provided k => exact hok.2
    have hm1 : JM specs m0 m1 := by
      obtain ⟨c1, d1⟩ := m1
      simp only at hd1 hex
      subst hd1 hex
      exact hJ.mem.alloc_cells ex
    have hm2 : JM specs m0 (applyEff m1 (args.map (·.ref)) eff) :=
      applyEff_JM hm1 _ _ (by
        intro a ha hd
        obtain ⟨a', ha', rfl⟩ := List.mem_map.mp ha
        exact default_not_refOk hw hd (hargok a' ha'))
    have hlen2 : (applyEff m1 (args.map (·.ref)) eff).cells.length = m1.cells.length :=
      Iso.applyEff_length _ _ _
    have hm1len : s.mem.cells.length ≤ m1.cells.length := by rw [hex]; simp
    refine ⟨?_, ?_, hJ.inits, ?_, hJ.clones_nodup⟩
    · refine (hm2.alloc_cells [_]).set_dict hst _ ?_
      intro k c hkc
      rcases Iso.mem_put hkc with h | h
      · exact hm2.dict_ok h
      · simp only [Prod.mk.injEq] at h
        right; rw [h.2]; exact hm2.cells_le
    · intro call hc
      rcases List.mem_append.mp hc with hc | hc
      · exact hJ.calls call hc
      · rw [List.mem_singleton.mp hc]
        refine ⟨spec, srcs, out, hs, hn, hlen, by simp [mkRes_before], ?_⟩
        intro j src a hsrc ha
        refine ⟨hsrcok j src a hsrc ha, ?_⟩
        rintro c rfl
        obtain ⟨h1, _, _, h4⟩ := hall j _ a hsrc ha
        simp only at ha
        simp only [mkRes_before, List.getElem?_map, ha, Option.map_some, h4]
        have hd := hdefault c (List.mem_of_getElem? hsrc)
        rw [hJ.mem.defaults_kept c (hw.default_lt c hd) hd]
    · intro r hr
      have := hJ.clones_lt r hr
      simp only [List.length_append, List.length_singleton, hlen2]
      iomega

theorem JM.of_ext {specs : List RunSpec} {m0 m m' : Mem} (h : JM specs m0 m) (hd : m'.dicts = m.dicts)
    {ex : List (List Int)} (hc : m'.cells = m.cells ++ ex) : JM specs m0 m' := by
  obtain ⟨c1, d1⟩ := m'
  simp only at hd hc
  subst hd hc
  exact h.alloc_cells ex

/-! ### starting an inner run -/
theorem clones_cons_some (k : Name) (r c : Ref) (t : List (Name × Arg)) :
    clones ((k, ⟨r, some c⟩) :: t) = r :: clones t := by
  simp [clones, clonedRef]
theorem clones_cons_none (k : Name) (r : Ref) (t : List (Name × Arg)) :
    clones ((k, ⟨r, .none⟩) :: t) = clones t := by
  simp only [clones, List.filterMap_cons, clonedRef]

theorem cloneFwd_spec (cl : CloneCfg) : ∀ (bc : AL Ref) (m : Mem),
    (cloneFwd cl m bc).1.dicts = m.dicts ∧
    (∃ ex, (cloneFwd cl m bc).1.cells = m.cells ++ ex) ∧
    (∀ k a, (k, a) ∈ (cloneFwd cl m bc).2 →
      (cl.selects k = true → ∃ c, a.copyOf = some c ∧ (k, c) ∈ bc ∧ m.cells.length ≤ a.ref) ∧
      (cl.selects k = false → a.copyOf = .none ∧ (k, a.ref) ∈ bc)) ∧
    (∀ r, r ∈ clones (cloneFwd cl m bc).2 →
      m.cells.length ≤ r ∧ r < (cloneFwd cl m bc).1.cells.length) ∧
    (clones (cloneFwd cl m bc).2).Nodup := by
  intro bc
  induction bc with
  | nil =>
    intro m
    refine ⟨rfl, ⟨[], by simp [cloneFwd]⟩, ?_, ?_, ?_⟩
    · intro k a h; simp [cloneFwd] at h
    · intro r h; simp [cloneFwd, clones] at h
    · simp [cloneFwd, clones]
  | cons hd t ih =>
    obtain ⟨k, c⟩ := hd
    intro m
    by_cases hsel : cl.selects k = true
    · obtain ⟨ih1, ⟨ex, ih2⟩, ih3, ih4, ih5⟩ := ih ⟨m.cells ++ [cell m c], m.dicts⟩
      simp only [cloneFwd, hsel, if_true]
      refine ⟨ih1, ⟨[cell m c] ++ ex, by rw [ih2, List.append_assoc]⟩, ?_, ?_, ?_⟩
      · intro k' a h
        rcases List.mem_cons.mp h with h | h
        · simp only [Prod.mk.injEq] at h
          obtain ⟨rfl, rfl⟩ := h
          exact ⟨fun _ => ⟨c, rfl, List.mem_cons_self, Nat.le_refl _⟩,
            fun hf => by rw [hsel] at hf; cases hf⟩
        · obtain ⟨g1, g2⟩ := ih3 k' a h
          refine ⟨fun hs => ?_, fun hs => ?_⟩
          · obtain ⟨c', e1, e2, e3⟩ := g1 hs
            refine ⟨c', e1, List.mem_cons_of_mem _ e2, ?_⟩
            simp only [List.length_append, List.length_singleton] at e3; omega
          · exact ⟨(g2 hs).1, List.mem_cons_of_mem _ (g2 hs).2⟩
      · intro r hr
        rw [clones_cons_some] at hr
        rcases List.mem_cons.mp hr with rfl | hr
        · refine ⟨Nat.le_refl _, ?_⟩
          rw [ih2]; simp only [List.length_append, List.length_singleton]; iomega
        · have := ih4 r hr
          simp only [List.length_append, List.length_singleton] at this
          exact ⟨by omega, this.2⟩
      · rw [clones_cons_some]
        refine List.nodup_cons.mpr ⟨?_, ih5⟩
        intro hmem
        have := (ih4 _ hmem).1
        simp only [List.length_append, List.length_singleton] at this; omega
    · have hsel' : cl.selects k = false := by cases h : cl.selects k <;> simp_all
      obtain ⟨ih1, ⟨ex, ih2⟩, ih3, ih4, ih5⟩ := ih m
      simp only [cloneFwd, hsel', Bool.false_eq_true, if_false]
      refine ⟨ih1, ⟨ex, ih2⟩, ?_, ?_, ?_⟩
      · intro k' a h
        rcases List.mem_cons.mp h with h | h
        · simp only [Prod.mk.injEq] at h
          obtain ⟨rfl, rfl⟩ := h
          exact ⟨fun hf => (by rw [hsel'] at hf; cases hf), fun _ => ⟨rfl, List.mem_cons_self⟩⟩
        · obtain ⟨g1, g2⟩ := ih3 k' a h
          refine ⟨fun hs => ?_, fun hs => ⟨(g2 hs).1, List.mem_cons_of_mem _ (g2 hs).2⟩⟩
          obtain ⟨c', e1, e2, e3⟩ := g1 hs
          exact ⟨c', e1, List.mem_cons_of_mem _ e2, e3⟩
      · intro r hr
        rw [clones_cons_none] at hr
        exact ih4 r hr
      · rw [clones_cons_none]; exact ih5

theorem resolveFwd_spec (stv : AL Ref) : ∀ (fwd : List (Name × Src')) (k : Name) (c : Ref),
    (k, c) ∈ resolveFwd stv fwd →
    (k, Src'.bound c) ∈ fwd ∨ ∃ k', (k, Src'.provided k') ∈ fwd ∧ AL.get? stv k' = some c := by
  intro fwd
  induction fwd with
  | nil => intro k c h; simp [resolveFwd] at h
  | cons hd t ih =>
    obtain ⟨k0, src⟩ := hd
    intro k c h
    have lift : ((k, Src'.bound c) ∈ t ∨ ∃ k', (k, Src'.provided k') ∈ t ∧ AL.get? stv k' = some c) →
        ((k, Src'.bound c) ∈ (k0, src) :: t ∨
          ∃ k', (k, Src'.provided k') ∈ (k0, src) :: t ∧ AL.get? stv k' = some c) := by
      rintro (g | ⟨k', g1, g2⟩)
      · exact Or.inl (List.mem_cons_of_mem _ g)
      · exact Or.inr ⟨k', List.mem_cons_of_mem _ g1, g2⟩
    cases src with
    | bound c0 =>
      simp only [resolveFwd] at h
      rcases List.mem_cons.mp h with h | h
      · simp only [Prod.mk.injEq] at h
        obtain ⟨rfl, rfl⟩ := h
        exact Or.inl List.mem_cons_self
      · exact lift (ih k c h)
    | provided k' =>
      simp only [resolveFwd] at h
      cases hg : AL.get? stv k' with
      | none => simp only [hg] at h; exact lift (ih k c h)
      | some c0 =>
        simp only [hg] at h
        rcases List.mem_cons.mp h with h | h
        · simp only [Prod.mk.injEq] at h
          obtain ⟨rfl, rfl⟩ := h
          exact Or.inr ⟨k', List.mem_cons_self, hg⟩
        · exact lift (ih k c h)

/-- a resolved forwarded value: legitimately shared, and it IS the bound object when bound -/
def BcOk (specs : List RunSpec) (m0 : Mem) (fwd : List (Name × Src')) (k : Name) (c : Ref) : Prop :=
  RefOk specs m0 c ∧ ∃ src, (k, src) ∈ fwd ∧ ∀ c', src = Src'.bound c' → c = c'

theorem resolveFwd_ok {specs : List RunSpec} {m0 m : Mem} (hm : JM specs m0 m) {st : Ref}
    {fwd : List (Name × Src')} (hsh : ∀ c, c ∈ fwd.filterMap fwdBound → IsShared specs m0 c)
    {k : Name} {c : Ref} (h : (k, c) ∈ resolveFwd (dict m st) fwd) : BcOk specs m0 fwd k c := by
  rcases resolveFwd_spec _ fwd k c h with g | ⟨k', g1, g2⟩
  · exact ⟨Or.inl (hsh c (List.mem_filterMap.mpr ⟨_, g, rfl⟩)), _, g, fun c' e => by cases e; rfl⟩
  · exact ⟨hm.dict_ok (Iso.mem_of_get? g2), _, g1, fun c' e => by cases e⟩

theorem cloneRefs_append (l : List InnerStart) (i : InnerStart) :
    cloneRefs (l ++ [i]) = cloneRefs l ++ clones i.fwd := by
  simp [cloneRefs, List.flatMap_append]

theorem startInner_J {specs : List RunSpec} {m0 : Mem} {s : St} (hJ : J specs m0 s)
    {rid sid : Nat} {path : Path} {spec : RunSpec} (hs : specs[rid]? = some spec)
    {inner : List Node} {fwd : List (Name × Src')} {items : Option (List (AL Ref))}
    {cl0 : CloneCfg} {outs : List Name}
    (hn : nodeAt spec.nodes sid path = some (.sub inner fwd items cl0 outs))
    {it : Nat} (hit : ∀ L, items = some L → it < L.length)
    {bc item : AL Ref} (hbc : ∀ k c, (k, c) ∈ bc → BcOk specs m0 fwd k c)
    (hitem : ∀ k c, (k, c) ∈ item → RefOk specs m0 c) :
    J specs m0 (startInner rid sid path it (effClone items cl0) bc item s).1 ∧
    m0.dicts.length ≤ (startInner rid sid path it (effClone items cl0) bc item s).2 := by
  obtain ⟨h1, ⟨ex, h2⟩, h3, h4, h5⟩ := cloneFwd_spec (effClone items cl0) bc s.mem
  have hm1 : JM specs m0 (cloneFwd (effClone items cl0) s.mem bc).1 := hJ.mem.of_ext h1 h2
  have hle : s.mem.cells.length ≤ (cloneFwd (effClone items cl0) s.mem bc).1.cells.length := by
    rw [h2]; simp
  simp only [startInner]
  refine ⟨⟨?_, hJ.calls, ?_, ?_, ?_⟩, ?_⟩
  · refine hm1.alloc_dict _ ?_
    intro k c hkc
    rcases Iso.mem_merge hkc with h | h
    · simp only [fwdDict, List.mem_map, Prod.mk.injEq] at h
      obtain ⟨⟨k', a⟩, hka, rfl, rfl⟩ := h
      obtain ⟨g1, g2⟩ := h3 k' a hka
      cases hsel : (effClone items cl0).selects k' with
      | true =>
        obtain ⟨c', _, _, e3⟩ := g1 hsel
        right; have := hJ.mem.cells_le; iomega
      | false => exact (hbc k' a.ref (g2 hsel).2).1
    · exact hitem k c h
  · intro i hi
    rcases List.mem_append.mp hi with hi | hi
    · exact hJ.inits i hi
    · rw [List.mem_singleton.mp hi]
      refine ⟨spec, inner, fwd, items, cl0, outs, hs, hn, hit, ?_⟩
      intro k a hka
      obtain ⟨g1, g2⟩ := h3 k a hka
      refine ⟨?_, ?_, fun hsel => (g2 hsel).1⟩
      · cases hsel : (effClone items cl0).selects k with
        | true =>
          obtain ⟨c', e1, e2, _⟩ := g1 hsel
          obtain ⟨_, src, q1, q2⟩ := hbc k c' e2
          exact ⟨src, q1, fun c'' e => by rw [e1]; exact q2 c'' e⟩
        | false =>
          obtain ⟨e1, e2⟩ := g2 hsel
          obtain ⟨_, src, q1, q2⟩ := hbc k a.ref e2
          exact ⟨src, q1, fun c'' e => by rw [e1]; exact q2 c'' e⟩
      · intro hsel
        obtain ⟨c', e1, _, e3⟩ := g1 hsel
        exact ⟨c', e1, by have := hJ.mem.cells_le; iomega⟩
  · intro r hr
    rw [cloneRefs_append] at hr
    rcases List.mem_append.mp hr with hr | hr
    · exact Nat.lt_of_lt_of_le (hJ.clones_lt r hr) hle
    · exact (h4 r hr).2
  · rw [cloneRefs_append]
    refine List.nodup_append.mpr ⟨hJ.clones_nodup, h5, ?_⟩
    intro a ha b hb hab
    have q1 := hJ.clones_lt a ha
    have q2 := (h4 b hb).1
    iomega
  · simp only [h1]; exact hJ.mem.dicts_le

/-! ### storing the outputs of a sub node -/
theorem mem_foldl_putOut (inner : AL Ref) {k : Name} {c : Ref} : ∀ (outs : List Name) (d : AL Ref),
    (k, c) ∈ outs.foldl (putOut inner) d → (k, c) ∈ d ∨ (k, c) ∈ inner := by
  intro outs
  induction outs with
  | nil => intro d h; exact Or.inl h
  | cons o os ih =>
    intro d h
    simp only [List.foldl_cons] at h
    rcases ih _ h with g | g
    · unfold putOut at g
      cases hg : AL.get? inner o with
      | none => simp only [hg] at g; exact Or.inl g
      | some c0 =>
        simp only [hg] at g
        rcases Iso.mem_put g with g | g
        · exact Or.inl g
        · right; rw [g]; exact Iso.mem_of_get? hg
    · exact Or.inr g

theorem copyOuts_J {specs : List RunSpec} {m0 : Mem} {s : St} (hJ : J specs m0 s) {st : Ref}
    (hst : m0.dicts.length ≤ st) (st' : Ref) (outs : List Name) :
    J specs m0 (copyOuts st st' outs s) := by
  refine hJ.of_mem (hJ.mem.set_dict hst _ ?_) (Nat.le_refl _)
  intro k c hkc
  rcases mem_foldl_putOut _ outs _ hkc with g | g
  · exact hJ.mem.dict_ok g
  · exact hJ.mem.dict_ok g

theorem collectOuts_J {specs : List RunSpec} {m0 : Mem} {st : Ref} (hst : m0.dicts.length ≤ st)
    (sts : List Ref) : ∀ (outs : List Name) (s : St), J specs m0 s →
    J specs m0 (collectOuts st sts outs s) := by
  intro outs
  induction outs with
  | nil => intro s hJ; exact hJ
  | cons k ks ih =>
    intro s hJ
    simp only [collectOuts]
    apply ih
    refine hJ.of_mem ((hJ.mem.alloc_cells [_]).set_dict hst _ ?_) (by simp)
    intro k' c hkc
    rcases Iso.mem_put hkc with g | g
    · exact hJ.mem.dict_ok g
    · simp only [Prod.mk.injEq] at g
      right; rw [g.2]; exact hJ.mem.cells_le

/-! ### running the inner graph(s) -/
theorem runNodes_inv {P : St → Prop} {step : Nat → Node → St → St} :
    ∀ (nds : List Node) (k : Nat) (s : St),
      (∀ j nd s, nds[j]? = some nd → P s → P (step (k + j) nd s)) → P s →
      P (runNodes step nds k s)
  | [], _, _, _, h => h
  | nd :: nds, k, s, hstep, h => by
    simp only [runNodes]
    apply runNodes_inv nds (k + 1)
    · intro j nd' s' hj hp
      have := hstep (j + 1) nd' s' (by simpa using hj) hp
      rwa [show k + 1 + j = k + (j + 1) by omega]
    · have := hstep 0 nd s rfl h
      simpa using this

theorem runItems_inv {P : St → Prop} {Q : Ref → Prop} {step : Nat → Ref → Nat → Node → St → St}
    {rid sid : Nat} {path : Path} {cl : CloneCfg} {bc : AL Ref} {inner : List Node}
    (hstep : ∀ it st' j nd s, Q st' → inner[j]? = some nd → P s → P (step it st' j nd s)) :
    ∀ (L : List (AL Ref)) (k : Nat) (x : St × List Ref),
      (∀ i item s, L[i]? = some item → P s →
        P (startInner rid sid path (k + i) cl bc item s).1 ∧
        Q (startInner rid sid path (k + i) cl bc item s).2) →
      P x.1 → P (runItems step rid sid path cl bc inner L k x).1
  | [], _, _, _, h => h
  | item :: rest, k, (s, sts), hstart, h => by
    simp only [runItems]
    have h0 := hstart 0 item s rfl h
    simp only [Nat.add_zero] at h0
    apply runItems_inv hstep rest (k + 1)
    · intro i item' s' hi hp
      have := hstart (i + 1) item' s' (by simpa using hi) hp
      rwa [show k + 1 + i = k + (i + 1) by omega]
    · apply runNodes_inv inner 0 _ _ h0.1
      intro j nd s' hj hp
      rw [Nat.zero_add]
      exact hstep _ _ _ nd s' h0.2 hj hp

theorem substDefault_nil (srcs : List Src) : srcs.map (substDefault []) = srcs := by
  have : substDefault [] = id := by
    funext s; cases s <;> rfl
  rw [this, List.map_id]

theorem execNode_fn (cfg : Cfg) (rid sid f : Nat) (env : List (Ref × Ref)) (path : Path) (st : Ref)
    (srcs : List Src) (eff : Eff) (out : Name) (s : St) :
    execNode cfg rid sid f env path st (.fn srcs eff out) s =
      execFn cfg.deep rid sid path st (srcs.map (substDefault env)) eff out s := by
  cases f <;> simp only [execNode]

theorem execNode_sub_zero (cfg : Cfg) (rid sid : Nat) (env : List (Ref × Ref)) (path : Path) (st : Ref)
    (inner : List Node) (fwd : List (Name × Src')) (items : Option (List (AL Ref)))
    (cl : CloneCfg) (outs : List Name) (s : St) :
    execNode cfg rid sid 0 env path st (.sub inner fwd items cl outs) s = s := by
  simp only [execNode]

theorem execNode_sub_none (rid sid f : Nat) (path : Path) (st : Ref)
    (inner : List Node) (fwd : List (Name × Src')) (cl : CloneCfg) (outs : List Name) (s : St) :
    execNode Cfg.real rid sid (f + 1) [] path st (.sub inner fwd .none cl outs) s =
      copyOuts st (startInner rid sid path 0 .none (resolveFwd (dict s.mem st) fwd) [] s).2 outs
        (runNodes (fun j nd' x => execNode Cfg.real rid sid f [] (path ++ [(0, j)])
            (startInner rid sid path 0 .none (resolveFwd (dict s.mem st) fwd) [] s).2 nd' x)
          inner 0 (startInner rid sid path 0 .none (resolveFwd (dict s.mem st) fwd) [] s).1) := by
  simp only [execNode, Cfg.real, if_true]

theorem execNode_sub_some (rid sid f : Nat) (path : Path) (st : Ref)
    (inner : List Node) (fwd : List (Name × Src')) (L : List (AL Ref)) (cl : CloneCfg)
    (outs : List Name) (s : St) :
    execNode Cfg.real rid sid (f + 1) [] path st (.sub inner fwd (some L) cl outs) s =
      collectOuts st
        (runItems (fun it st' j nd' x => execNode Cfg.real rid sid f [] (path ++ [(it, j)]) st' nd' x)
          rid sid path cl (resolveFwd (dict s.mem st) fwd) inner L 0 (s, [])).2 outs
        (runItems (fun it st' j nd' x => execNode Cfg.real rid sid f [] (path ++ [(it, j)]) st' nd' x)
          rid sid path cl (resolveFwd (dict s.mem st) fwd) inner L 0 (s, [])).1 := by
  simp only [execNode, Cfg.real, if_true]

/-- executing any node at any depth preserves the invariant -/
theorem execNode_J {specs : List RunSpec} {m0 : Mem} (hw : WF specs m0) {rid sid : Nat}
    {spec : RunSpec} (hs : specs[rid]? = some spec) :
    ∀ (f : Nat) (nd : Node) (path : Path) (st : Ref) (s : St),
      nodeAt spec.nodes sid path = some nd → m0.dicts.length ≤ st → J specs m0 s →
      J specs m0 (execNode Cfg.real rid sid f [] path st nd s) := by
  intro f
  induction f with
  | zero =>
    intro nd path st s hn hst hJ
    cases nd with
    | fn srcs eff out =>
      rw [execNode_fn, substDefault_nil]; exact execFn_J hw hJ hs hn hst
    | sub inner fwd items cl outs => rw [execNode_sub_zero]; exact hJ
  | succ f ih =>
    intro nd path st s hn hst hJ
    cases nd with
    | fn srcs eff out =>
      rw [execNode_fn, substDefault_nil]; exact execFn_J hw hJ hs hn hst
    | sub inner fwd items cl outs =>
      have hsh : ∀ c, c ∈ fwd.filterMap fwdBound → IsShared specs m0 c := fun c hc =>
        isShared_of_nodeAt hs hn
          (by rw [shared_sub]; exact List.mem_append_left _ (List.mem_append_left _ hc))
      have hbc : ∀ k c, (k, c) ∈ resolveFwd (dict s.mem st) fwd → BcOk specs m0 fwd k c :=
        fun k c h => resolveFwd_ok hJ.mem hsh h
      cases items with
      | none =>
        rw [execNode_sub_none]
        obtain ⟨hJ1, hst1⟩ := startInner_J (items := .none) (cl0 := cl) hJ hs hn (it := 0)
          (by intro L h; cases h) hbc (item := []) (by intro k c h; cases h)
        apply copyOuts_J _ hst
        apply runNodes_inv (P := J specs m0) inner 0 _ _ hJ1
        intro j nd' s' hj hP
        rw [Nat.zero_add]
        exact ih nd' _ _ s' (by rw [nodeAt_snoc 0 j path _ sid hn]; exact hj) hst1 hP
      | some L =>
        rw [execNode_sub_some]
        apply collectOuts_J hst
        apply runItems_inv (P := J specs m0) (Q := fun st' => m0.dicts.length ≤ st') ?_ L 0 (s, []) ?_ hJ
        · intro it st' j nd' s' hQ hj hP
          exact ih nd' _ st' s' (by rw [nodeAt_snoc it j path _ sid hn]; exact hj) hQ hP
        · intro i item s' hi hP
          rw [Nat.zero_add]
          refine startInner_J (items := some L) (cl0 := cl) hP hs hn (it := i)
            (by intro L' h; cases h; exact (List.getElem?_eq_some_iff.mp hi).1) hbc (item := item) ?_
          intro k c hkc
          refine Or.inl (isShared_of_nodeAt hs hn ?_)
          rw [shared_sub]
          refine List.mem_append_left _ (List.mem_append_right _ ?_)
          simp only [itemRefs, List.mem_flatMap, List.mem_map]
          exact ⟨item, List.mem_of_getElem? hi, (k, c), hkc, rfl⟩

/-! ### top-level events -/
structure JW (specs : List RunSpec) (m0 : Mem) (w : World) : Prop where
  st : J specs m0 w.st
  states_fresh : ∀ (rid : Nat) (st : Ref), lookupState w.states rid = some st → m0.dicts.length ≤ st

theorem JW.init (specs : List RunSpec) (m0 : Mem) : JW specs m0 ⟨m0, [], [], []⟩ :=
  ⟨⟨JM.init specs m0, fun _ h => (by cases h), fun _ h => (by cases h),
      fun _ h => (by simp [World.st, cloneRefs] at h), by simp [World.st, cloneRefs]⟩,
    fun rid st h => by simp [lookupState] at h⟩

theorem JW.start {specs : List RunSpec} {m0 : Mem} {w : World} (hJ : JW specs m0 w) (rid : Nat) :
    JW specs m0 (execStart specs w rid) := by
  unfold execStart
  cases hs : specs[rid]? with
  | none => exact hJ
  | some spec =>
    simp only
    have hm : JM specs m0 w.mem := hJ.st.mem
    have hbase : ∀ (k : Name) (c : Ref),
        (k, c) ∈ (match spec.values with | .none => ([] : AL Ref) | some d => dict w.mem d) →
        RefOk specs m0 c := by
      intro k c hkc
      cases hv : spec.values with
      | none => simp [hv] at hkc
      | some d => simp only [hv] at hkc; exact hm.dict_ok hkc
    have hnorm : ∀ (k : Name) (c : Ref),
        (k, c) ∈ AL.merge (match spec.values with | .none => ([] : AL Ref) | some d => dict w.mem d)
          spec.kwargs → RefOk specs m0 c := by
      intro k c hkc
      rcases Iso.mem_merge hkc with h | h
      · exact hbase k c h
      · exact Or.inl (Or.inr (Or.inr ⟨rid, spec, k, hs, h⟩))
    refine ⟨?_, ?_⟩
    · have h2 := (hm.alloc_dict _ hnorm).alloc_dict (AL.merge [] _) (by
        intro k c hkc
        rcases Iso.mem_merge hkc with h | h
        · cases h
        · exact hnorm k c h)
      simp only [List.append_assoc, List.cons_append, List.nil_append] at h2
      exact hJ.st.of_mem h2 (Nat.le_refl _)
    · intro rid' st hst
      simp only [lookupState] at hst
      split at hst
      · simp only [Option.some.injEq] at hst
        have := hm.dicts_le; iomega
      · exact hJ.states_fresh rid' st hst

theorem JW.step {specs : List RunSpec} {m0 : Mem} {w : World} (hw : WF specs m0)
    (hJ : JW specs m0 w) (rid sid : Nat) : JW specs m0 (execStepCfg Cfg.real specs w rid sid) := by
  unfold execStepCfg
  cases hs : specs[rid]? with
  | none => exact hJ
  | some spec =>
    cases hst : lookupState w.states rid with
    | none => exact hJ
    | some st =>
      simp only
      cases hn : spec.nodes[sid]? with
      | none => exact hJ
      | some nd =>
        simp only
        exact ⟨execNode_J hw hs _ nd [] st w.st (by simpa [nodeAt] using hn)
          (hJ.states_fresh rid st hst) hJ.st, hJ.states_fresh⟩

theorem JW.runHist {specs : List RunSpec} {m0 : Mem} {w : World} (hw : WF specs m0)
    (hJ : JW specs m0 w) (evs : List Ev) : JW specs m0 (runHist true specs w evs) := by
  show JW specs m0 (runHistCfg Cfg.real specs w evs)
  induction evs generalizing w with
  | nil => exact hJ
  | cons ev evs ih =>
    show JW specs m0 (runHistCfg Cfg.real specs (execCfg Cfg.real specs w ev) evs)
    apply ih
    cases ev with
    | start rid => exact hJ.start rid
    | step rid sid => exact hJ.step hw rid sid

/-! ### a decidable check of `WF` -/
theorem mem_allDefaults {specs : List RunSpec} {c : Ref} (h : IsDefault specs c) :
    c ∈ allDefaults specs := by
  obtain ⟨rid, spec, h1, h2⟩ := h
  simp only [allDefaults, List.mem_flatMap]
  exact ⟨spec, List.mem_of_getElem? h1, h2⟩

theorem mem_allShared {specs : List RunSpec} {m0 : Mem} {c : Ref} (h : IsShared specs m0 c) :
    c ∈ allShared specs m0 := by
  simp only [allShared, List.mem_append, List.mem_flatMap, List.mem_map]
  rcases h with ⟨rid, spec, h1, h2⟩ | ⟨d, dc, k, h1, h2⟩ | ⟨rid, spec, k, h1, h2⟩
  · exact Or.inl (Or.inl ⟨spec, List.mem_of_getElem? h1, h2⟩)
  · exact Or.inl (Or.inr ⟨dc, List.mem_of_getElem? h1, (k, c), h2, rfl⟩)
  · exact Or.inr ⟨spec, List.mem_of_getElem? h1, (k, c), h2, rfl⟩

theorem wfCheck_sound {specs : List RunSpec} {m0 : Mem} (h : wfCheck specs m0 = true) :
    WF specs m0 := by
  simp only [wfCheck, List.all_eq_true, Bool.and_eq_true, decide_eq_true_eq, Bool.not_eq_true',
    List.contains_eq_mem, decide_eq_false_iff_not] at h
  exact ⟨fun c hc => (h c (mem_allDefaults hc)).1,
    fun c hc hs => (h c (mem_allDefaults hc)).2 (mem_allShared hs)⟩

/-! ### the caller's mappings are never mutated (any configuration; no `WF` needed) -/
/-- the dicts `ds0` are an untouched prefix of `ds` -/
def KD (ds0 ds : List (AL Ref)) : Prop :=
  ds0.length ≤ ds.length ∧ ∀ d : Nat, d < ds0.length → ds[d]? = ds0[d]?

theorem KD.append {ds0 ds : List (AL Ref)} (h : KD ds0 ds) (xs : List (AL Ref)) : KD ds0 (ds ++ xs) :=
  ⟨by simp only [List.length_append]; have := h.1; omega, fun d hd => by
    rw [List.getElem?_append_left (by have := h.1; omega)]; exact h.2 d hd⟩

theorem KD.set {ds0 ds : List (AL Ref)} (h : KD ds0 ds) {st : Ref} (hst : ds0.length ≤ st)
    (x : AL Ref) : KD ds0 (ds.set st x) :=
  ⟨by simp only [List.length_set]; exact h.1, fun d hd => by
    rw [List.getElem?_set_ne (by iomega)]; exact h.2 d hd⟩

theorem execFn_K {ds0 : List (AL Ref)} {s : St} (h : KD ds0 s.mem.dicts) (deep : Bool)
    (rid sid : Nat) (path : Path) {st : Ref} (hst : ds0.length ≤ st) (srcs : List Src) (eff : Eff)
    (out : Name) : KD ds0 (execFn deep rid sid path st srcs eff out s).mem.dicts := by
  unfold execFn
  cases hr : resolveArgs deep (dict s.mem st) s.mem srcs with
  | none => exact h
  | some r =>
    obtain ⟨m1, args⟩ := r
    simp only [Iso.applyEff_dicts, Iso.resolveArgs_dicts deep _ srcs s.mem m1 args hr]
    exact h.set hst _

theorem preResolve_dicts : ∀ (cs : List Ref) (m : Mem) (env : List (Ref × Ref)),
    (preResolve m env cs).1.dicts = m.dicts := by
  intro cs
  induction cs with
  | nil => intro m env; rfl
  | cons c cs ih =>
    intro m env
    simp only [preResolve]
    split
    · exact ih m env
    · rw [ih]

theorem startInner_dicts (rid sid : Nat) (path : Path) (it : Nat) (cl : CloneCfg) (bc item : AL Ref)
    (s : St) : ∃ d, (startInner rid sid path it cl bc item s).1.mem.dicts = s.mem.dicts ++ [d] ∧
      (startInner rid sid path it cl bc item s).2 = s.mem.dicts.length := by
  simp only [startInner, (cloneFwd_spec cl bc s.mem).1]
  exact ⟨_, rfl, trivial⟩

theorem collectOuts_K {ds0 : List (AL Ref)} {st : Ref} (hst : ds0.length ≤ st) (sts : List Ref) :
    ∀ (outs : List Name) (s : St), KD ds0 s.mem.dicts → KD ds0 (collectOuts st sts outs s).mem.dicts := by
  intro outs
  induction outs with
  | nil => intro s h; exact h
  | cons k ks ih =>
    intro s h
    simp only [collectOuts]
    exact ih _ (h.set hst _)

theorem execNode_K {ds0 : List (AL Ref)} (cfg : Cfg) (rid sid : Nat) :
    ∀ (f : Nat) (env : List (Ref × Ref)) (nd : Node) (path : Path) (st : Ref) (s : St),
      ds0.length ≤ st → KD ds0 s.mem.dicts →
      KD ds0 (execNode cfg rid sid f env path st nd s).mem.dicts := by
  intro f
  induction f with
  | zero =>
    intro env nd path st s hst h
    cases nd with
    | fn srcs eff out => rw [execNode_fn]; exact execFn_K h _ _ _ _ hst _ _ _
    | sub inner fwd items cl outs => rw [execNode_sub_zero]; exact h
  | succ f ih =>
    intro env nd path st s hst h
    cases nd with
    | fn srcs eff out => rw [execNode_fn]; exact execFn_K h _ _ _ _ hst _ _ _
    | sub inner fwd items cl outs =>
      simp only [execNode]
      generalize hpr : (if cfg.perItemDefaults = true then (s.mem, env)
        else preResolve s.mem env (defaultsL inner)) = pr
      have hprd : pr.1.dicts = s.mem.dicts := by
        rw [← hpr]; split
        · rfl
        · exact preResolve_dicts _ _ _
      have h0 : KD ds0 (({ s with mem := pr.1 } : St)).mem.dicts := by simp only [hprd]; exact h
      cases items with
      | none =>
        simp only
        obtain ⟨d, e1, e2⟩ := startInner_dicts rid sid path 0 .none
          (resolveFwd (dict pr.1 st) fwd) [] { s with mem := pr.1 }
        refine KD.set ?_ hst _
        apply runNodes_inv (P := fun x => KD ds0 x.mem.dicts) inner 0
        · intro j nd' s' _ hP
          exact ih _ nd' _ _ s' (by rw [e2]; exact h0.1) hP
        · rw [e1]; exact h0.append _
      | some L =>
        simp only
        apply collectOuts_K hst
        apply runItems_inv (P := fun x => KD ds0 x.mem.dicts) (Q := fun st' => ds0.length ≤ st')
          ?_ L 0 _ ?_ h0
        · intro it st' j nd' s' hQ _ hP
          exact ih _ nd' _ st' s' hQ hP
        · intro i item s' _ hP
          obtain ⟨d, e1, e2⟩ := startInner_dicts rid sid path (0 + i) cl
            (resolveFwd (dict pr.1 st) fwd) item s'
          exact ⟨by rw [e1]; exact hP.append _, by rw [e2]; exact hP.1⟩

structure KW (m0 : Mem) (w : World) : Prop where
  dicts : KD m0.dicts w.mem.dicts
  states_fresh : ∀ (rid : Nat) (st : Ref), lookupState w.states rid = some st → m0.dicts.length ≤ st

theorem KW.init (m0 : Mem) : KW m0 ⟨m0, [], [], []⟩ :=
  ⟨⟨Nat.le_refl _, fun _ _ => rfl⟩, fun rid st h => by simp [lookupState] at h⟩

theorem KW.exec {cfg : Cfg} {specs : List RunSpec} {m0 : Mem} {w : World} (hK : KW m0 w) (ev : Ev) :
    KW m0 (execCfg cfg specs w ev) := by
  cases ev with
  | start rid =>
    simp only [execCfg, execStart]
    cases hs : specs[rid]? with
    | none => exact hK
    | some spec =>
      simp only
      refine ⟨hK.dicts.append _, ?_⟩
      intro rid' st hst
      simp only [lookupState] at hst
      split at hst
      · simp only [Option.some.injEq] at hst
        have := hK.dicts.1; iomega
      · exact hK.states_fresh rid' st hst
  | step rid sid =>
    simp only [execCfg, execStepCfg]
    cases hs : specs[rid]? with
    | none => exact hK
    | some spec =>
      cases hst : lookupState w.states rid with
      | none => exact hK
      | some st =>
        simp only
        cases hn : spec.nodes[sid]? with
        | none => exact hK
        | some nd =>
          exact ⟨execNode_K cfg rid sid _ [] nd [] st w.st (hK.states_fresh rid st hst) hK.dicts,
            hK.states_fresh⟩

theorem KW.runHistCfg {cfg : Cfg} {specs : List RunSpec} {m0 : Mem} {w : World} (hK : KW m0 w)
    (evs : List Ev) : KW m0 (runHistCfg cfg specs w evs) := by
  induction evs generalizing w with
  | nil => exact hK
  | cons ev evs ih => exact ih (hK.exec ev)

/-! ### the flat model is the sub-node-free fragment -/
theorem exec_ofFlat (cfg : Cfg) (specs : List Iso.RunSpec) (w : Iso.World) (ev : Ev) :
    execCfg cfg (specs.map ofFlat) (ofFlatWorld w) ev = ofFlatWorld (Iso.exec cfg.deep specs w ev) := by
  cases ev with
  | start rid =>
    simp only [execCfg, execStart, Iso.exec, Iso.execStart, List.getElem?_map]
    cases hs : specs[rid]? with
    | none => rfl
    | some spec => rfl
  | step rid sid =>
    simp only [execCfg, execStepCfg, Iso.exec, Iso.execStep, List.getElem?_map]
    cases hs : specs[rid]? with
    | none => rfl
    | some spec =>
      have hst : lookupState (ofFlatWorld w).states rid = lookupState w.states rid := rfl
      simp only [Option.map_some, hst]
      cases hl : lookupState w.states rid with
      | none => rfl
      | some st =>
        simp only [ofFlat, List.getElem?_map]
        cases hn : spec.nodes[sid]? with
        | none => rfl
        | some nd =>
          simp only [Option.map_some, ofFlatNode, execNode_fn, substDefault_nil, execFn]
          have hm : (ofFlatWorld w).st.mem = w.mem := rfl
          rw [hm]
          cases hr : resolveArgs cfg.deep (dict w.mem st) w.mem nd.srcs with
          | none => rfl
          | some r =>
            simp only [World.withSt, World.st, ofFlatWorld, List.map_append, List.map_cons,
              List.map_nil, ofFlatCall]

theorem runHistCfg_ofFlat (cfg : Cfg) (specs : List Iso.RunSpec) (evs : List Ev) :
    ∀ (w : Iso.World), runHistCfg cfg (specs.map ofFlat) (ofFlatWorld w) evs =
      ofFlatWorld (Iso.runHist cfg.deep specs w evs) := by
  induction evs with
  | nil => intro w; rfl
  | cons ev evs ih =>
    intro w
    show runHistCfg cfg _ (execCfg cfg _ (ofFlatWorld w) ev) evs = _
    rw [exec_ofFlat, ih]
    rfl

/-! ### fuel `Node.depth` suffices -/
theorem runNodes_congr {step step' : Nat → Node → St → St} : ∀ (nds : List Node) (k : Nat) (s : St),
    (∀ j nd s, nd ∈ nds → step j nd s = step' j nd s) →
    runNodes step nds k s = runNodes step' nds k s
  | [], _, _, _ => rfl
  | nd :: nds, k, s, h => by
    simp only [runNodes]
    rw [h k nd s List.mem_cons_self]
    exact runNodes_congr nds (k + 1) _ (fun j nd' s' hm => h j nd' s' (List.mem_cons_of_mem _ hm))

theorem runItems_congr {step step' : Nat → Ref → Nat → Node → St → St} {rid sid : Nat} {path : Path}
    {cl : CloneCfg} {bc : AL Ref} {inner : List Node}
    (h : ∀ it st' j nd s, nd ∈ inner → step it st' j nd s = step' it st' j nd s) :
    ∀ (L : List (AL Ref)) (k : Nat) (x : St × List Ref),
      runItems step rid sid path cl bc inner L k x = runItems step' rid sid path cl bc inner L k x
  | [], _, _ => rfl
  | item :: rest, k, (s, sts) => by
    simp only [runItems]
    rw [runNodes_congr inner 0 _ (fun j nd s' hm => h _ _ j nd s' hm)]
    exact runItems_congr h rest (k + 1) _

/-- any two fuels `≥ depth` give the same execution -/
theorem execNode_fuel_eq (cfg : Cfg) (rid sid : Nat) :
    ∀ (f f' : Nat) (env : List (Ref × Ref)) (nd : Node) (path : Path) (st : Ref) (s : St),
      nd.depth ≤ f → nd.depth ≤ f' →
      execNode cfg rid sid f env path st nd s = execNode cfg rid sid f' env path st nd s := by
  intro f
  induction f with
  | zero =>
    intro f' env nd path st s h1 h2
    cases nd with
    | fn srcs eff out => rw [execNode_fn, execNode_fn]
    | sub inner fwd items cl outs => rw [depth_sub] at h1; omega
  | succ f ih =>
    intro f' env nd path st s h1 h2
    cases nd with
    | fn srcs eff out => rw [execNode_fn, execNode_fn]
    | sub inner fwd items cl outs =>
      rw [depth_sub] at h1 h2
      cases f' with
      | zero => omega
      | succ f' =>
        have key : ∀ (env' : List (Ref × Ref)) (p : Path) (st' : Ref) (nd' : Node) (x : St),
            nd' ∈ inner → execNode cfg rid sid f env' p st' nd' x =
              execNode cfg rid sid f' env' p st' nd' x := by
          intro env' p st' nd' x hm
          have := depth_le_depthL hm
          exact ih f' env' nd' p st' x (by omega) (by omega)
        simp only [execNode]
        cases items with
        | none =>
          simp only
          congr 1
          exact runNodes_congr inner 0 _ (fun j nd' s' hm => key _ _ _ nd' s' hm)
        | some L =>
          simp only
          rw [runItems_congr (fun it st' j nd' s' hm => key _ _ st' nd' s' hm)]

/-- the fuel used by the executable entry point (`execStepCfg`: `nd.depth`) is never exhausted:
more fuel changes nothing -/
theorem execNode_fuel (cfg : Cfg) (rid sid : Nat) {f : Nat} (env : List (Ref × Ref)) (nd : Node)
    (path : Path) (st : Ref) (s : St) (h : nd.depth ≤ f) :
    execNode cfg rid sid f env path st nd s = execNode cfg rid sid nd.depth env path st nd s :=
  execNode_fuel_eq cfg rid sid f nd.depth env nd path st s h (Nat.le_refl _)

/-! ### consequences used by the property theorems -/
theorem CallOk.arg_refOk {specs : List RunSpec} {m0 : Mem} {call : Call} (h : CallOk specs m0 call)
    {a : Arg} (ha : a ∈ call.args) : RefOk specs m0 a.ref := by
  obtain ⟨spec, srcs, out, hs, hn, hlen, _, hall⟩ := h
  obtain ⟨j, hj⟩ := List.getElem?_of_mem ha
  have hjlt : j < call.args.length := (List.getElem?_eq_some_iff.mp hj).1
  obtain ⟨src, hsrc⟩ : ∃ src, srcs[j]? = some src :=
    ⟨srcs[j]'(by omega), List.getElem?_eq_getElem (by omega)⟩
  have hok := (hall j src a hsrc hj).1
  cases src with
  | default c => exact Or.inr hok.2
  | bound c =>
    simp only [SrcArgOk] at hok; subst hok
    exact Or.inl (isShared_of_nodeAt hs hn
      (by rw [shared_fn]; exact List.mem_filterMap.mpr ⟨_, List.mem_of_getElem? hsrc, rfl⟩))
  | provided k => exact hok.2

theorem mem_clones {fa : List (Name × Arg)} {p : Name × Arg} (hp : p ∈ fa)
    (hc : p.2.copyOf ≠ .none) : p.2.ref ∈ clones fa := by
  refine List.mem_filterMap.mpr ⟨p, hp, ?_⟩
  unfold clonedRef
  cases h : p.2.copyOf with
  | none => exact absurd h hc
  | some c => rfl

theorem flatMap_nodup_disjoint {α β : Type} (f : α → List β) : ∀ (l : List α), (l.flatMap f).Nodup →
    ∀ (n₁ n₂ : Nat) (x y : α), n₁ < n₂ → l[n₁]? = some x → l[n₂]? = some y →
    ∀ r, r ∈ f x → r ∈ f y → False
  | [], _, n₁, _, x, _, _, h1, _, _, _, _ => by simp at h1
  | hd :: tl, hnd, n₁, n₂, x, y, hlt, h1, h2, r, rx, ry => by
    rw [List.flatMap_cons, List.nodup_append] at hnd
    obtain ⟨_, htl, hdis⟩ := hnd
    cases n₂ with
    | zero => omega
    | succ n₂ =>
      simp only [List.getElem?_cons_succ] at h2
      cases n₁ with
      | zero =>
        simp only [List.getElem?_cons_zero, Option.some.injEq] at h1
        subst h1
        exact hdis r rx r (List.mem_flatMap.mpr ⟨y, List.mem_of_getElem? h2, ry⟩) rfl
      | succ n₁ =>
        simp only [List.getElem?_cons_succ] at h1
        exact flatMap_nodup_disjoint f tl htl n₁ n₂ x y (by omega) h1 h2 r rx ry

end IsoN
end HG
