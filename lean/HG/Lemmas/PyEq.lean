import HG.Model.Sched
/-! # HG.Lemmas.PyEq — Python `==` on the value universe

`Val.pyEq` (defined in `HG.Model.Basic`) is the equality `update_value` observes
(`if old != new: bump`).  It is reflexive and symmetric, coarser than structural equality
(`True == 1`, `False == 0`, recursively through tuples and lists), and it never identifies a tuple
with a list, a number with a string, or anything with `None` / the emit sentinel.
Transitivity is not needed anywhere and is not proved. -/
namespace HG
namespace Val

/-! ## scalars -/

@[simp] theorem pyEq_none_none : pyEq .none .none = true := rfl
@[simp] theorem pyEq_nil_nil : pyEq .nil .nil = true := rfl
@[simp] theorem pyEq_sentinel_sentinel : pyEq .sentinel .sentinel = true := rfl
@[simp] theorem pyEq_bool_bool (a b : Bool) : pyEq (.bool a) (.bool b) = (a == b) := rfl
@[simp] theorem pyEq_int_int (i j : Int) : pyEq (.int i) (.int j) = (i == j) := rfl
@[simp] theorem pyEq_str_str (s t : String) : pyEq (.str s) (.str t) = (s == t) := rfl
/-- `1 == True`, `0 == False`, nothing else -/
@[simp] theorem pyEq_int_bool (i : Int) (b : Bool) :
    pyEq (.int i) (.bool b) = (i == (if b then 1 else 0)) := rfl
/-- `True == 1`, `False == 0`, nothing else -/
@[simp] theorem pyEq_bool_int (b : Bool) (i : Int) :
    pyEq (.bool b) (.int i) = ((if b then 1 else 0) == i) := rfl
@[simp] theorem pyEq_cons_cons (h t h' t' : Val) :
    pyEq (.cons h t) (.cons h' t') = (pyEq h h' && pyEq t t') := rfl
@[simp] theorem pyEq_tup_tup (a b : Val) : pyEq (.tup a) (.tup b) = pyEq a b := rfl
@[simp] theorem pyEq_lst_lst (a b : Val) : pyEq (.lst a) (.lst b) = pyEq a b := rfl
/-- a tuple never equals a list -/
@[simp] theorem pyEq_tup_lst (a b : Val) : pyEq (.tup a) (.lst b) = false := rfl
@[simp] theorem pyEq_lst_tup (a b : Val) : pyEq (.lst a) (.tup b) = false := rfl

theorem pyEq_true_one : pyEq (.bool true) (.int 1) = true := rfl
theorem pyEq_one_true : pyEq (.int 1) (.bool true) = true := rfl
theorem pyEq_false_zero : pyEq (.bool false) (.int 0) = true := rfl
theorem pyEq_zero_false : pyEq (.int 0) (.bool false) = true := rfl
theorem pyEq_true_two : pyEq (.bool true) (.int 2) = false := rfl

/-- `None` equals only `None` -/
theorem pyEq_none_left (v : Val) : pyEq .none v = decide (v = .none) := by cases v <;> rfl
/-- the emit sentinel equals only itself -/
theorem pyEq_sentinel_left (v : Val) : pyEq .sentinel v = decide (v = .sentinel) := by cases v <;> rfl
theorem pyEq_sentinel_right (v : Val) : pyEq v .sentinel = decide (v = .sentinel) := by cases v <;> rfl
/-- a `str` equals only an equal `str` -/
theorem pyEq_str_left (s : String) (v : Val) : pyEq (.str s) v = decide (v = .str s) := by
  cases v with
  | str t =>
    by_cases h : s = t
    · subst h; simp [pyEq]
    · have h' : ¬ t = s := fun e => h e.symm
      simp [pyEq, h, h']
  | _ => simp [pyEq]

/-! ## reflexive, symmetric, coarser than `=` -/

@[simp] theorem pyEq_refl (v : Val) : pyEq v v = true := by
  induction v with
  | cons h t ih1 ih2 => simp [pyEq, ih1, ih2]
  | tup a ih => simpa [pyEq] using ih
  | lst a ih => simpa [pyEq] using ih
  | _ => simp [pyEq]

theorem pyEq_symm (a b : Val) : pyEq a b = pyEq b a := by
  induction a generalizing b with
  | cons h t ih1 ih2 => cases b <;> simp [pyEq, ih1, ih2]
  | tup a ih => cases b <;> simp [pyEq, ih]
  | lst a ih => cases b <;> simp [pyEq, ih]
  | bool x => cases b <;> first | rfl | exact BEq.comm
  | int x => cases b <;> first | rfl | exact BEq.comm
  | str x => cases b <;> first | rfl | exact BEq.comm
  | _ => cases b <;> rfl

/-- structural equality implies Python equality (the converse fails: `pyEq_one_true`) -/
theorem pyEq_of_eq {a b : Val} (h : a = b) : pyEq a b = true := h ▸ pyEq_refl a

/-- values Python tells apart are structurally different -/
theorem ne_of_pyEq_false {a b : Val} (h : pyEq a b = false) : a ≠ b := by
  intro e; rw [pyEq_of_eq e] at h; cases h

/-- `pyEq` is strictly coarser than `=` -/
theorem pyEq_not_structural : pyEq (.int 1) (.bool true) = true ∧ Val.int 1 ≠ Val.bool true :=
  ⟨rfl, by decide⟩

/-! ## sequences -/

/-- cons chains compare element-wise and need equal length -/
theorem pyEq_ofList (xs ys : List Val) :
    pyEq (ofList xs) (ofList ys) =
      (xs.length == ys.length && (xs.zip ys).all fun p => pyEq p.1 p.2) := by
  induction xs generalizing ys with
  | nil => cases ys <;> simp [ofList, pyEq]
  | cons x xs ih =>
    cases ys with
    | nil => simp [ofList, pyEq]
    | cons y ys =>
      simp only [ofList, pyEq_cons_cons, ih, List.length_cons, List.zip_cons_cons, List.all_cons]
      cases pyEq x y <;> simp

theorem pyEq_mkTup (xs ys : List Val) :
    pyEq (mkTup xs) (mkTup ys) =
      (xs.length == ys.length && (xs.zip ys).all fun p => pyEq p.1 p.2) := pyEq_ofList xs ys
theorem pyEq_mkLst (xs ys : List Val) :
    pyEq (mkLst xs) (mkLst ys) =
      (xs.length == ys.length && (xs.zip ys).all fun p => pyEq p.1 p.2) := pyEq_ofList xs ys
theorem pyEq_mkTup_mkLst (xs ys : List Val) : pyEq (mkTup xs) (mkLst ys) = false := rfl

/-- `(1, [True]) == (True, [1])` -/
example : pyEq (mkTup [.int 1, mkLst [.bool true]]) (mkTup [.bool true, mkLst [.int 1]]) = true := by decide
/-- `(1, 2) != [1, 2]`, `(1,) != (1, 1)`, `1 != "1"`, `0 != None` -/
example : pyEq (mkTup [.int 1, .int 2]) (mkLst [.int 1, .int 2]) = false ∧
    pyEq (mkTup [.int 1]) (mkTup [.int 1, .int 1]) = false ∧
    pyEq (.int 1) (.str "1") = false ∧ pyEq (.int 0) .none = false := by decide

/-! ## `sameType`: the top-level Python type -/

@[simp] theorem sameType_refl (v : Val) : sameType v v = true := by cases v <;> rfl

theorem sameType_symm (a b : Val) : sameType a b = sameType b a := by cases a <;> cases b <;> rfl

/-- the relation is transitive (it is "equal type tag") -/
theorem sameType_trans {a b c : Val} (h1 : sameType a b = true) (h2 : sameType b c = true) :
    sameType a c = true := by
  cases a <;> cases b <;> cases c <;> simp_all [sameType]

@[simp] theorem sameType_int_int (i j : Int) : sameType (.int i) (.int j) = true := rfl
@[simp] theorem sameType_bool_bool (a b : Bool) : sameType (.bool a) (.bool b) = true := rfl
@[simp] theorem sameType_str_str (s t : String) : sameType (.str s) (.str t) = true := rfl
@[simp] theorem sameType_tup_tup (a b : Val) : sameType (.tup a) (.tup b) = true := rfl
@[simp] theorem sameType_lst_lst (a b : Val) : sameType (.lst a) (.lst b) = true := rfl
/-- `type(1) is not type(True)`: the one place where `sameType` separates what `pyEq` identifies -/
@[simp] theorem sameType_int_bool (i : Int) (b : Bool) : sameType (.int i) (.bool b) = false := rfl
@[simp] theorem sameType_bool_int (b : Bool) (i : Int) : sameType (.bool b) (.int i) = false := rfl
@[simp] theorem sameType_tup_lst (a b : Val) : sameType (.tup a) (.lst b) = false := rfl
@[simp] theorem sameType_lst_tup (a b : Val) : sameType (.lst a) (.tup b) = false := rfl
theorem sameType_mkTup (xs ys : List Val) : sameType (mkTup xs) (mkTup ys) = true := rfl
theorem sameType_mkLst (xs ys : List Val) : sameType (mkLst xs) (mkLst ys) = true := rfl

/-- the sentinel has its own type -/
theorem sameType_sentinel_left (v : Val) : sameType .sentinel v = decide (v = .sentinel) := by
  cases v <;> rfl
theorem sameType_sentinel_right (v : Val) : sameType v .sentinel = decide (v = .sentinel) := by
  cases v <;> rfl

/-- structurally equal values have the same type -/
theorem sameType_of_eq {a b : Val} (h : a = b) : sameType a b = true := h ▸ sameType_refl a

/-- values of different types are structurally different -/
theorem ne_of_sameType_false {a b : Val} (h : sameType a b = false) : a ≠ b := by
  intro e; rw [sameType_of_eq e] at h; cases h

/-- Python-equal values of different types are exactly `True`/`1` and `False`/`0` (either way
round): the only pairs on which the repaired `bumps` and the pre-repair `bumpsPyEq` disagree -/
theorem pyEq_of_other_type {a b : Val} (he : pyEq a b = true) (ht : sameType a b = false) :
    (∃ x : Bool, a = .bool x ∧ b = .int (if x then 1 else 0)) ∨
    (∃ x : Bool, a = .int (if x then 1 else 0) ∧ b = .bool x) := by
  cases a with
  | bool x =>
    cases b with
    | int j =>
      have h : (if x then (1 : Int) else 0) = j := by simpa using he
      exact .inl ⟨x, rfl, by rw [h]⟩
    | _ => simp_all [pyEq, sameType]
  | int i =>
    cases b with
    | bool x =>
      have h : i = (if x then (1 : Int) else 0) := by simpa using he
      exact .inr ⟨x, by rw [h], rfl⟩
    | _ => simp_all [pyEq, sameType]
  | _ => cases b <;> simp_all [pyEq, sameType]

/-- `[1]` and `[True]`: same type, Python-equal, structurally different -/
example : sameType (mkLst [.int 1]) (mkLst [.bool true]) = true ∧
    pyEq (mkLst [.int 1]) (mkLst [.bool true]) = true ∧ mkLst [.int 1] ≠ mkLst [.bool true] := by decide
/-- `(1,)` and `[1]`: different types (and already unequal) -/
example : sameType (mkTup [.int 1]) (mkLst [.int 1]) = false ∧
    pyEq (mkTup [.int 1]) (mkLst [.int 1]) = false := by decide

/-! ## `changed`: what `update_value` calls a change -/

theorem changed_eq (a b : Val) : changed a b = (!(sameType a b) || !(pyEq a b)) := rfl

/-- another type is a change, equal or not -/
theorem changed_of_other_type {a b : Val} (h : sameType a b = false) : changed a b = true := by
  simp [changed, h]
/-- a value Python tells apart is a change -/
theorem changed_of_pyEq_false {a b : Val} (h : pyEq a b = false) : changed a b = true := by
  simp [changed, h]
theorem changed_eq_false_iff {a b : Val} : changed a b = false ↔ sameType a b = true ∧ pyEq a b = true := by
  simp [changed]
@[simp] theorem changed_self (v : Val) : changed v v = false := by simp [changed]
/-- within one type, `changed` is Python's `!=` -/
theorem changed_of_sameType {a b : Val} (h : sameType a b = true) : changed a b = !(pyEq a b) := by
  simp [changed, h]
@[simp] theorem changed_int_int (i j : Int) : changed (.int i) (.int j) = (i != j) := by
  simp [changed, bne]
/-- a change is a structural change -/
theorem ne_of_changed {a b : Val} (h : changed a b = true) : a ≠ b := by
  intro e; subst e; simp at h
theorem changed_symm (a b : Val) : changed a b = changed b a := by
  simp [changed, sameType_symm a b, pyEq_symm a b]

end Val

/-! ## `bumps` -/
namespace GState

theorem bumps_of_new {s : GState} {n : Name} (v : Val) (h : AL.get? s.values n = .none) :
    s.bumps n v = true := by
  unfold bumps; rw [h]

theorem bumps_of_some {s : GState} {n : Name} {old : Val} (v : Val) (h : AL.get? s.values n = some old) :
    s.bumps n v = (v == .sentinel || !(Val.sameType old v) || !(Val.pyEq old v)) := by
  unfold bumps; rw [h]; simp only [Val.changed, Bool.or_assoc]

theorem bumps_of_some_changed {s : GState} {n : Name} {old : Val} (v : Val)
    (h : AL.get? s.values n = some old) : s.bumps n v = (v == .sentinel || Val.changed old v) := by
  unfold bumps; rw [h]

/-- a changed value advances the version -/
theorem bumps_of_changed {s : GState} {n : Name} {old v : Val} (h : AL.get? s.values n = some old)
    (hc : Val.changed old v = true) : s.bumps n v = true := by
  rw [bumps_of_some_changed v h, hc, Bool.or_true]

theorem bumpsPyEq_of_new {s : GState} {n : Name} (v : Val) (h : AL.get? s.values n = .none) :
    s.bumpsPyEq n v = true := by
  unfold bumpsPyEq; rw [h]

theorem bumpsPyEq_of_some {s : GState} {n : Name} {old : Val} (v : Val)
    (h : AL.get? s.values n = some old) :
    s.bumpsPyEq n v = (v == .sentinel || !(Val.pyEq old v)) := by
  unfold bumpsPyEq; rw [h]

/-- rewriting a Python-equal value OF THE SAME TYPE (not the sentinel) does not advance the version -/
theorem bumps_eq_false_of_pyEq {s : GState} {n : Name} {old v : Val} (h : AL.get? s.values n = some old)
    (hv : v ≠ .sentinel) (ht : Val.sameType old v = true) (he : Val.pyEq old v = true) :
    s.bumps n v = false := by
  rw [bumps_of_some v h, he, ht]
  cases hs : v == Val.sentinel with
  | true => exact absurd (by simpa using hs) hv
  | false => rfl

/-- in particular rewriting the very same value does not -/
theorem bumps_eq_false_of_same {s : GState} {n : Name} {v : Val} (h : AL.get? s.values n = some v)
    (hv : v ≠ .sentinel) : s.bumps n v = false :=
  bumps_eq_false_of_pyEq h hv (Val.sameType_refl v) (Val.pyEq_refl v)

/-- pre-repair: a Python-equal value of ANY type did not advance the version -/
theorem bumpsPyEq_eq_false_of_pyEq {s : GState} {n : Name} {old v : Val}
    (h : AL.get? s.values n = some old) (hv : v ≠ .sentinel) (he : Val.pyEq old v = true) :
    s.bumpsPyEq n v = false := by
  rw [bumpsPyEq_of_some v h, he]
  cases hs : v == Val.sentinel with
  | true => exact absurd (by simpa using hs) hv
  | false => rfl

/-- a value Python tells apart from the old one advances the version -/
theorem bumps_of_pyEq_false {s : GState} {n : Name} {old v : Val} (h : AL.get? s.values n = some old)
    (he : Val.pyEq old v = false) : s.bumps n v = true := by
  rw [bumps_of_some v h, he]; simp

/-- a value of another type advances the version, equal or not (the repair of C01-F2) -/
theorem bumps_of_other_type {s : GState} {n : Name} {old v : Val} (h : AL.get? s.values n = some old)
    (ht : Val.sameType old v = false) : s.bumps n v = true := by
  rw [bumps_of_some v h, ht]; simp

/-- exactly: no bump iff the name is there, the value is not the sentinel, has the old value's type
and is Python-equal to it -/
theorem bumps_eq_false_iff {s : GState} {n : Name} {v : Val} :
    s.bumps n v = false ↔
      ∃ old, AL.get? s.values n = some old ∧ v ≠ .sentinel ∧ Val.sameType old v = true ∧
        Val.pyEq old v = true := by
  cases hg : AL.get? s.values n with
  | none => simp [bumps_of_new v hg]
  | some old => simp [bumps_of_some v hg, Bool.or_eq_false_iff, and_assoc]

/-- the repair only ever bumps more: whatever advanced the version before still does -/
theorem bumps_of_bumpsPyEq {s : GState} {n : Name} {v : Val} (h : s.bumpsPyEq n v = true) :
    s.bumps n v = true := by
  cases hg : AL.get? s.values n with
  | none => exact bumps_of_new v hg
  | some old =>
    rw [bumpsPyEq_of_some v hg] at h
    rw [bumps_of_some v hg]
    simp only [Bool.or_eq_true, Bool.not_eq_true'] at h ⊢
    rcases h with h | h
    · exact .inl (.inl h)
    · exact .inr h

/-- …and the two differ only on a Python-equal value of another type -/
theorem bumps_eq_bumpsPyEq_of_sameType {s : GState} {n : Name} {old v : Val}
    (h : AL.get? s.values n = some old) (ht : Val.sameType old v = true) :
    s.bumps n v = s.bumpsPyEq n v := by
  rw [bumps_of_some v h, bumpsPyEq_of_some v h, ht]; simp

/-- the actual test is never stricter than the idealised structural one -/
theorem bumpsStructural_of_bumps {s : GState} {n : Name} {v : Val} (h : s.bumps n v = true) :
    s.bumpsStructural n v = true := by
  unfold bumpsStructural
  cases hg : AL.get? s.values n with
  | none => rfl
  | some old =>
    rw [bumps_of_some v hg] at h
    simp only [Bool.or_eq_true, Bool.not_eq_true', bne_iff_ne, ne_eq] at h ⊢
    rcases h with (h | h) | h
    · exact .inl h
    · exact .inr (Val.ne_of_sameType_false h)
    · exact .inr (Val.ne_of_pyEq_false h)

theorem bumpsStructural_of_bumpsPyEq {s : GState} {n : Name} {v : Val} (h : s.bumpsPyEq n v = true) :
    s.bumpsStructural n v = true := bumpsStructural_of_bumps (bumps_of_bumpsPyEq h)

/-- …and is still strictly weaker: replacing `[1]` by `[True]` (same type, Python-equal) is a
structural change but no bump -/
theorem bumps_ne_bumpsStructural :
    ({ values := [("a", Val.mkLst [.int 1])] } : GState).bumps "a" (Val.mkLst [.bool true]) = false ∧
    ({ values := [("a", Val.mkLst [.int 1])] } : GState).bumpsStructural "a" (Val.mkLst [.bool true]) = true := by
  decide

/-- the repair (C01-F2): replacing `1` by `True` advances the version; before, it did not -/
theorem bumps_int_bool :
    ({ values := [("a", .int 1)] } : GState).bumps "a" (.bool true) = true ∧
    ({ values := [("a", .int 1)] } : GState).bumpsPyEq "a" (.bool true) = false := by decide

/-- pre-repair negative witness: `bumpsPyEq` was strictly weaker than the structural test on `1` / `True` -/
theorem bumpsPyEq_ne_bumpsStructural :
    ({ values := [("a", .int 1)] } : GState).bumpsPyEq "a" (.bool true) = false ∧
    ({ values := [("a", .int 1)] } : GState).bumpsStructural "a" (.bool true) = true := by decide

/-- the type test looks at the top level only: `(1,)` → `[1]` bumps (and always did), `[1]` → `[True]`,
`(1, [True])` → `(True, [1])` do not; `True` → `1`, `0` → `False` do -/
theorem bumps_examples :
    ({ values := [("a", Val.mkTup [.int 1])] } : GState).bumps "a" (Val.mkLst [.int 1]) = true ∧
    ({ values := [("a", Val.mkTup [.int 1])] } : GState).bumpsPyEq "a" (Val.mkLst [.int 1]) = true ∧
    ({ values := [("a", Val.mkLst [.int 1])] } : GState).bumps "a" (Val.mkLst [.bool true]) = false ∧
    ({ values := [("a", Val.mkTup [.int 1, Val.mkLst [.bool true]])] } : GState).bumps "a"
      (Val.mkTup [.bool true, Val.mkLst [.int 1]]) = false ∧
    ({ values := [("a", .bool true)] } : GState).bumps "a" (.int 1) = true ∧
    ({ values := [("a", .int 0)] } : GState).bumps "a" (.bool false) = true ∧
    ({ values := [("a", .int 1)] } : GState).bumps "a" (.int 1) = false ∧
    ({ values := [("a", .str "a")] } : GState).bumps "a" (.str "a") = false ∧
    ({ values := [("a", .int 1)] } : GState).bumps "a" (.int 2) = true := by decide

/-- the pre-repair test on the hand cases checked against the real (pre-repair) `update_value`:
`1 → True`, `True → 1`, `0 → False`, `"a" → "a"`, `[1] → [True]`, `(1, [True]) → (True, [1])`, `None → None` no bump;
`1 → 2`, `(1,) → [1]`, `None → 0` bump -/
theorem bumpsPyEq_examples :
    ({ values := [("a", .int 1)] } : GState).bumpsPyEq "a" (.bool true) = false ∧
    ({ values := [("a", .bool true)] } : GState).bumpsPyEq "a" (.int 1) = false ∧
    ({ values := [("a", .int 0)] } : GState).bumpsPyEq "a" (.bool false) = false ∧
    ({ values := [("a", .str "a")] } : GState).bumpsPyEq "a" (.str "a") = false ∧
    ({ values := [("a", Val.mkLst [.int 1])] } : GState).bumpsPyEq "a" (Val.mkLst [.bool true]) = false ∧
    ({ values := [("a", Val.mkTup [.int 1, Val.mkLst [.bool true]])] } : GState).bumpsPyEq "a"
      (Val.mkTup [.bool true, Val.mkLst [.int 1]]) = false ∧
    ({ values := [("a", .none)] } : GState).bumpsPyEq "a" .none = false ∧
    ({ values := [("a", .int 1)] } : GState).bumpsPyEq "a" (.int 2) = true ∧
    ({ values := [("a", Val.mkTup [.int 1])] } : GState).bumpsPyEq "a" (Val.mkLst [.int 1]) = true ∧
    ({ values := [("a", .none)] } : GState).bumpsPyEq "a" (.int 0) = true ∧
    ({} : GState).bumpsPyEq "a" (.int 1) = true := by decide

end GState
end HG
