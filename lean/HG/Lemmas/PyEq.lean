import HG.Model.Sched
/-! # HG.Lemmas.PyEq — Python `==` on the value universe

`Val.pyEq` (defined in `HG.Model.Basic`) is the equality `update_value` observes
(`if old != new: bump`).  It is reflexive and symmetric, coarser than structural equality
(`True == 1`, `False == 0`, recursively through tuples and lists), and it never identifies a tuple
with a list, a number with a string, or anything with `None` / the emit sentinel.
Transitivity is not needed anywhere and is not proved. -/
namespace HG
namespace Val

/-! ## scalars -/

@[simp] theorem pyEq_none_none : pyEq .none .none = true := rfl
@[simp] theorem pyEq_nil_nil : pyEq .nil .nil = true := rfl
@[simp] theorem pyEq_sentinel_sentinel : pyEq .sentinel .sentinel = true := rfl
@[simp] theorem pyEq_bool_bool (a b : Bool) : pyEq (.bool a) (.bool b) = (a == b) := rfl
@[simp] theorem pyEq_int_int (i j : Int) : pyEq (.int i) (.int j) = (i == j) := rfl
@[simp] theorem pyEq_str_str (s t : String) : pyEq (.str s) (.str t) = (s == t) := rfl
/-- `1 == True`, `0 == False`, nothing else -/
@[simp] theorem pyEq_int_bool (i : Int) (b : Bool) :
    pyEq (.int i) (.bool b) = (i == (if b then 1 else 0)) := rfl
/-- `True == 1`, `False == 0`, nothing else -/
@[simp] theorem pyEq_bool_int (b : Bool) (i : Int) :
    pyEq (.bool b) (.int i) = ((if b then 1 else 0) == i) := rfl
@[simp] theorem pyEq_cons_cons (h t h' t' : Val) :
    pyEq (.cons h t) (.cons h' t') = (pyEq h h' && pyEq t t') := rfl
@[simp] theorem pyEq_tup_tup (a b : Val) : pyEq (.tup a) (.tup b) = pyEq a b := rfl
@[simp] theorem pyEq_lst_lst (a b : Val) : pyEq (.lst a) (.lst b) = pyEq a b := rfl
/-- a tuple never equals a list -/
@[simp] theorem pyEq_tup_lst (a b : Val) : pyEq (.tup a) (.lst b) = false := rfl
@[simp] theorem pyEq_lst_tup (a b : Val) : pyEq (.lst a) (.tup b) = false := rfl

theorem pyEq_true_one : pyEq (.bool true) (.int 1) = true := rfl
theorem pyEq_one_true : pyEq (.int 1) (.bool true) = true := rfl
theorem pyEq_false_zero : pyEq (.bool false) (.int 0) = true := rfl
theorem pyEq_zero_false : pyEq (.int 0) (.bool false) = true := rfl
theorem pyEq_true_two : pyEq (.bool true) (.int 2) = false := rfl

/-- `None` equals only `None` -/
theorem pyEq_none_left (v : Val) : pyEq .none v = decide (v = .none) := by cases v <;> rfl
/-- the emit sentinel equals only itself -/
theorem pyEq_sentinel_left (v : Val) : pyEq .sentinel v = decide (v = .sentinel) := by cases v <;> rfl
theorem pyEq_sentinel_right (v : Val) : pyEq v .sentinel = decide (v = .sentinel) := by cases v <;> rfl
/-- a `str` equals only an equal `str` -/
theorem pyEq_str_left (s : String) (v : Val) : pyEq (.str s) v = decide (v = .str s) := by
  cases v with
  | str t =>
    by_cases h : s = t
    · subst h; simp [pyEq]
    · have h' : ¬ t = s := fun e => h e.symm
      simp [pyEq, h, h']
  | _ => simp [pyEq]

/-! ## reflexive, symmetric, coarser than `=` -/

@[simp] theorem pyEq_refl (v : Val) : pyEq v v = true := by
  induction v with
  | cons h t ih1 ih2 => simp [pyEq, ih1, ih2]
  | tup a ih => simpa [pyEq] using ih
  | lst a ih => simpa [pyEq] using ih
  | _ => simp [pyEq]

theorem pyEq_symm (a b : Val) : pyEq a b = pyEq b a := by
  induction a generalizing b with
  | cons h t ih1 ih2 => cases b <;> simp [pyEq, ih1, ih2]
  | tup a ih => cases b <;> simp [pyEq, ih]
  | lst a ih => cases b <;> simp [pyEq, ih]
  | bool x => cases b <;> first | rfl | exact BEq.comm
  | int x => cases b <;> first | rfl | exact BEq.comm
  | str x => cases b <;> first | rfl | exact BEq.comm
  | _ => cases b <;> rfl

/-- structural equality implies Python equality (the converse fails: `pyEq_one_true`) -/
theorem pyEq_of_eq {a b : Val} (h : a = b) : pyEq a b = true := h ▸ pyEq_refl a

/-- values Python tells apart are structurally different -/
theorem ne_of_pyEq_false {a b : Val} (h : pyEq a b = false) : a ≠ b := by
  intro e; rw [pyEq_of_eq e] at h; cases h

/-- `pyEq` is strictly coarser than `=` -/
theorem pyEq_not_structural : pyEq (.int 1) (.bool true) = true ∧ Val.int 1 ≠ Val.bool true :=
  ⟨rfl, by decide⟩

/-! ## sequences -/

/-- cons chains compare element-wise and need equal length -/
theorem pyEq_ofList (xs ys : List Val) :
    pyEq (ofList xs) (ofList ys) =
      (xs.length == ys.length && (xs.zip ys).all fun p => pyEq p.1 p.2) := by
  induction xs generalizing ys with
  | nil => cases ys <;> simp [ofList, pyEq]
  | cons x xs ih =>
    cases ys with
    | nil => simp [ofList, pyEq]
    | cons y ys =>
      simp only [ofList, pyEq_cons_cons, ih, List.length_cons, List.zip_cons_cons, List.all_cons]
      cases pyEq x y <;> simp

theorem pyEq_mkTup (xs ys : List Val) :
    pyEq (mkTup xs) (mkTup ys) =
      (xs.length == ys.length && (xs.zip ys).all fun p => pyEq p.1 p.2) := pyEq_ofList xs ys
theorem pyEq_mkLst (xs ys : List Val) :
    pyEq (mkLst xs) (mkLst ys) =
      (xs.length == ys.length && (xs.zip ys).all fun p => pyEq p.1 p.2) := pyEq_ofList xs ys
theorem pyEq_mkTup_mkLst (xs ys : List Val) : pyEq (mkTup xs) (mkLst ys) = false := rfl

/-- `(1, [True]) == (True, [1])` -/
example : pyEq (mkTup [.int 1, mkLst [.bool true]]) (mkTup [.bool true, mkLst [.int 1]]) = true := by decide
/-- `(1, 2) != [1, 2]`, `(1,) != (1, 1)`, `1 != "1"`, `0 != None` -/
example : pyEq (mkTup [.int 1, .int 2]) (mkLst [.int 1, .int 2]) = false ∧
    pyEq (mkTup [.int 1]) (mkTup [.int 1, .int 1]) = false ∧
    pyEq (.int 1) (.str "1") = false ∧ pyEq (.int 0) .none = false := by decide

end Val

/-! ## `bumps` -/
namespace GState

theorem bumps_of_new {s : GState} {n : Name} (v : Val) (h : AL.get? s.values n = .none) :
    s.bumps n v = true := by
  unfold bumps; rw [h]

theorem bumps_of_some {s : GState} {n : Name} {old : Val} (v : Val) (h : AL.get? s.values n = some old) :
    s.bumps n v = (v == .sentinel || !(Val.pyEq old v)) := by
  unfold bumps; rw [h]

/-- rewriting a Python-equal value (not the sentinel) does not advance the version -/
theorem bumps_eq_false_of_pyEq {s : GState} {n : Name} {old v : Val} (h : AL.get? s.values n = some old)
    (hv : v ≠ .sentinel) (he : Val.pyEq old v = true) : s.bumps n v = false := by
  rw [bumps_of_some v h, he]
  cases hs : v == Val.sentinel with
  | true => exact absurd (by simpa using hs) hv
  | false => rfl

/-- a value Python tells apart from the old one advances the version -/
theorem bumps_of_pyEq_false {s : GState} {n : Name} {old v : Val} (h : AL.get? s.values n = some old)
    (he : Val.pyEq old v = false) : s.bumps n v = true := by
  rw [bumps_of_some v h, he]; simp

/-- the actual test is never stricter than the idealised structural one -/
theorem bumpsStructural_of_bumps {s : GState} {n : Name} {v : Val} (h : s.bumps n v = true) :
    s.bumpsStructural n v = true := by
  unfold bumps at h; unfold bumpsStructural
  cases hg : AL.get? s.values n with
  | none => rfl
  | some old =>
    rw [hg] at h
    simp only [Bool.or_eq_true, Bool.not_eq_true', bne_iff_ne, ne_eq] at h ⊢
    exact h.imp id Val.ne_of_pyEq_false

/-- …and is strictly weaker: replacing `1` by `True` is a structural change but no bump -/
theorem bumps_ne_bumpsStructural :
    ({ values := [("a", .int 1)] } : GState).bumps "a" (.bool true) = false ∧
    ({ values := [("a", .int 1)] } : GState).bumpsStructural "a" (.bool true) = true := by decide

end GState
end HG
