import HG.Model.Run
import HG.Lemmas.Common
/-! # HG.Lemmas.Step — helper lemmas about one superstep (`stepSync` / `stepAsync`)

Everything the C02 property theorems (`HG/Props/C02.lean`) need: permutation lemmas about
`permute`, `AL` lemmas, the state equivalence `GState.equiv`, a readable normal form of
`stepAsync` (`stepAsync_eq`) and the characterisation of `stepSync` in terms of the per-node
results the async step computes (`stepSync_char`). -/
namespace HG

/-! ## generic list lemmas -/

/-- pigeonhole: a duplicate-free list contained in a list that is not longer is a permutation of it -/
theorem perm_of_nodup_subset_length {α} [BEq α] [LawfulBEq α] :
    ∀ {l₁ l₂ : List α}, l₁.Nodup → l₁ ⊆ l₂ → l₂.length ≤ l₁.length → l₁.Perm l₂
  | [], l₂, _, _, hlen => by
    have : l₂ = [] := List.eq_nil_of_length_eq_zero (Nat.le_zero.mp hlen)
    subst this; exact .nil
  | a :: t, l₂, hnd, hsub, hlen => by
    rw [List.nodup_cons] at hnd
    have ha : a ∈ l₂ := hsub (List.mem_cons_self ..)
    have htsub : t ⊆ l₂.erase a := by
      intro x hx
      have hxa : x ≠ a := fun h => hnd.1 (h ▸ hx)
      exact (List.mem_erase_of_ne hxa).2 (hsub (List.mem_cons_of_mem _ hx))
    have hl : (l₂.erase a).length = l₂.length - 1 := by rw [List.length_erase]; simp [ha]
    have hlen' : (l₂.erase a).length ≤ t.length := by
      rw [hl]; simp only [List.length_cons] at hlen; omega
    have ih := perm_of_nodup_subset_length hnd.2 htsub hlen'
    exact ((List.perm_cons a).2 ih).trans (List.perm_cons_erase ha).symm

theorem map_getD_range {α} (l : List α) (d : α) :
    (List.range l.length).map (fun i => l.getD i d) = l := by
  apply List.ext_getElem
  · simp
  · intro i h₁ h₂
    simp [List.getD_eq_getElem?_getD, h₂]

/-- `permute` always returns a permutation of its argument (validity of `order` is checked inside) -/
theorem permute_perm {α} [Inhabited α] (l : List α) (order : List Nat) :
    (permute l order).Perm l := by
  unfold permute
  simp only
  split
  · rename_i hv
    simp only [Bool.and_eq_true, beq_iff_eq, List.all_eq_true, List.mem_range,
      List.contains_iff_mem] at hv
    obtain ⟨hlen, hall⟩ := hv
    have hp : (List.range l.length).Perm order := by
      apply perm_of_nodup_subset_length List.nodup_range
      · intro i hi; exact hall i (List.mem_range.mp hi)
      · simp [hlen]
    have := (hp.map (fun i => l.getD i default)).symm
    rw [map_getD_range] at this
    exact this
  · exact .refl _

/-- the identity order leaves the list unchanged -/
theorem permute_range {α} [Inhabited α] (l : List α) :
    permute l (List.range l.length) = l := by
  unfold permute
  simp only
  split
  · exact map_getD_range l default
  · rfl

/-! ## association lists -/

namespace AL
variable {α : Type}

/-- two dicts with the same content (insertion order may differ) -/
def Same (a b : AL α) : Prop := ∀ k, get? a k = get? b k

theorem Same.refl (a : AL α) : Same a a := fun _ => rfl
theorem Same.symm {a b : AL α} (h : Same a b) : Same b a := fun k => (h k).symm
theorem Same.trans {a b c : AL α} (h₁ : Same a b) (h₂ : Same b c) : Same a c :=
  fun k => (h₁ k).trans (h₂ k)

theorem Same.put {a b : AL α} (h : Same a b) (k : Name) (v : α) : Same (put a k v) (put b k v) := by
  intro k'; rw [get?_put, get?_put, h k']

theorem put_comm_same (m : AL α) {k₁ k₂ : Name} (v₁ v₂ : α) (h : k₁ ≠ k₂) :
    Same (put (put m k₁ v₁) k₂ v₂) (put (put m k₂ v₂) k₁ v₁) := by
  intro k
  simp only [get?_put]
  by_cases e1 : k = k₁ <;> by_cases e2 : k = k₂ <;> simp_all

theorem keys_put_perm (m : AL α) (k : Name) (v : α) :
    keys (put m k v) = if has m k then keys m else keys m ++ [k] := by
  induction m with
  | nil => simp [put, keys, has]
  | cons hd t ih =>
    obtain ⟨a, w⟩ := hd
    by_cases hk : k = a
    · simp [put, hk, keys, has, get?]
    · simp only [keys] at ih
      simp only [put, hk, if_false, keys, List.map_cons, ih, has, get?]
      split <;> simp_all

theorem nodup_keys_put₂ (m : AL α) (k : Name) (v : α) (h : (keys m).Nodup) :
    (keys (put m k v)).Nodup := by
  rw [keys_put_perm]
  split
  · exact h
  · rename_i hh
    have : k ∉ keys m := by rw [mem_keys_iff_has]; exact hh
    rw [List.nodup_append]
    refine ⟨h, by simp, ?_⟩
    intro a ha b hb
    simp only [List.mem_singleton] at hb
    subst hb
    intro e; subst e; exact this ha

theorem keys_del_sublist₂ (m : AL α) (k : Name) : (keys (del m k)).Sublist (keys m) := by
  induction m with
  | nil => simp [del, keys]
  | cons hd t ih =>
    obtain ⟨a, w⟩ := hd
    by_cases hk : k = a
    · simp [del, hk, keys]
    · simp only [keys] at ih
      simp [del, hk, keys, ih]

theorem nodup_keys_del₂ (m : AL α) (k : Name) (h : (keys m).Nodup) : (keys (del m k)).Nodup :=
  h.sublist (keys_del_sublist₂ m k)

theorem get?_eq_none_of_not_mem_keys (m : AL α) (k : Name) (h : k ∉ keys m) : get? m k = none := by
  rw [mem_keys_iff_has] at h
  simp only [has] at h
  cases hg : get? m k with
  | none => rfl
  | some v => simp [hg] at h

/-- on a well-formed dict (keys pairwise distinct) `del` really removes the key -/
theorem get?_del_same₂ (m : AL α) (k : Name) (h : (keys m).Nodup) : get? (del m k) k = none := by
  induction m with
  | nil => rfl
  | cons hd t ih =>
    obtain ⟨a, w⟩ := hd
    simp only [keys, List.map_cons, List.nodup_cons] at h
    by_cases hk : k = a
    · subst hk
      simp only [del, if_true]
      exact get?_eq_none_of_not_mem_keys _ _ h.1
    · simp only [del, hk, if_false, get?]
      exact ih h.2

theorem get?_del (m : AL α) (k k' : Name) (h : (keys m).Nodup) :
    get? (del m k) k' = if k' = k then none else get? m k' := by
  by_cases e : k' = k
  · subst e; simp [get?_del_same₂ _ _ h]
  · simp [e, get?_del_other _ _ _ e]

theorem Same.del {a b : AL α} (h : Same a b) (ha : (keys a).Nodup) (hb : (keys b).Nodup) (k : Name) :
    Same (del a k) (del b k) := by
  intro k'; rw [get?_del _ _ _ ha, get?_del _ _ _ hb, h k']

theorem Same.has {a b : AL α} (h : Same a b) (k : Name) : has a k = has b k := by
  simp [AL.has, h k]

/-- `merge` is a fold of `put` -/
theorem get?_merge_of_not_mem₂ (a b : AL α) (k : Name) (h : k ∉ keys b) :
    get? (merge a b) k = get? a k := by
  unfold merge
  induction b generalizing a with
  | nil => rfl
  | cons hd t ih =>
    simp only [keys, List.map_cons, List.mem_cons, not_or] at h
    simp only [List.foldl_cons]
    rw [ih _ (by simpa [keys] using h.2), get?_put_other _ _ _ _ h.1]

theorem merge_append (a b c : AL α) : merge a (b ++ c) = merge (merge a b) c := by
  simp [merge, List.foldl_append]

theorem has_merge_of_has (a b : AL α) (k : Name) (h : has a k = true) : has (merge a b) k = true := by
  unfold merge
  induction b generalizing a with
  | nil => exact h
  | cons hd t ih =>
    simp only [List.foldl_cons]
    apply ih
    rw [has_put]; simp [h]

end AL

/-! ## state equivalence -/

/-- same values, versions and execution records; decisions agree as dicts (insertion order of
the decisions dict may differ) -/
def GState.equiv (a b : GState) : Prop :=
  a.values = b.values ∧ a.versions = b.versions ∧ a.execs = b.execs ∧
    ∀ k, AL.get? a.decisions k = AL.get? b.decisions k

theorem GState.equiv.refl (a : GState) : GState.equiv a a := ⟨rfl, rfl, rfl, fun _ => rfl⟩
theorem GState.equiv.symm {a b : GState} (h : GState.equiv a b) : GState.equiv b a :=
  ⟨h.1.symm, h.2.1.symm, h.2.2.1.symm, fun k => (h.2.2.2 k).symm⟩
theorem GState.equiv.trans {a b c : GState} (h₁ : GState.equiv a b) (h₂ : GState.equiv b c) :
    GState.equiv a c :=
  ⟨h₁.1.trans h₂.1, h₁.2.1.trans h₂.2.1, h₁.2.2.1.trans h₂.2.2.1,
    fun k => (h₁.2.2.2 k).trans (h₂.2.2.2 k)⟩

/-- replace the decisions dict -/
def GState.withDec (st : GState) (D : AL Dec) : GState := { st with decisions := D }

@[simp] theorem GState.withDec_values (st : GState) (D) : (st.withDec D).values = st.values := rfl
@[simp] theorem GState.withDec_versions (st : GState) (D) : (st.withDec D).versions = st.versions := rfl
@[simp] theorem GState.withDec_execs (st : GState) (D) : (st.withDec D).execs = st.execs := rfl
@[simp] theorem GState.withDec_decisions (st : GState) (D) : (st.withDec D).decisions = D := rfl
@[simp] theorem GState.withDec_withDec (st : GState) (D D') : (st.withDec D).withDec D' = st.withDec D' := rfl
@[simp] theorem GState.withDec_self (st : GState) : st.withDec st.decisions = st := rfl

theorem GState.equiv_iff_withDec {a b : GState} :
    GState.equiv a b ↔ b = a.withDec b.decisions ∧ AL.Same a.decisions b.decisions := by
  constructor
  · rintro ⟨h1, h2, h3, h4⟩
    refine ⟨?_, h4⟩
    cases a; cases b; simp_all [GState.withDec]
  · rintro ⟨h1, h2⟩
    rw [h1]
    exact ⟨rfl, rfl, rfl, h2⟩

theorem GState.equiv_withDec (a : GState) {D D' : AL Dec} (h : AL.Same D D') :
    GState.equiv (a.withDec D) (a.withDec D') := ⟨rfl, rfl, rfl, h⟩

theorem GState.updateValue_withDec (st : GState) (D : AL Dec) (n : Name) (v : Val) :
    (st.withDec D).updateValue n v = (st.updateValue n v).withDec D := rfl

theorem GState.applyOutputs_withDec (st : GState) (D : AL Dec) (outs : AL Val) :
    (st.withDec D).applyOutputs outs = (st.applyOutputs outs).withDec D := by
  unfold GState.applyOutputs
  induction outs generalizing st with
  | nil => rfl
  | cons hd t ih => simp only [List.foldl_cons, GState.updateValue_withDec, ih]

@[simp] theorem GState.updateValue_decisions (st : GState) (n : Name) (v : Val) :
    (st.updateValue n v).decisions = st.decisions := rfl
@[simp] theorem GState.updateValue_execs (st : GState) (n : Name) (v : Val) :
    (st.updateValue n v).execs = st.execs := rfl
@[simp] theorem GState.updateValue_values (st : GState) (n : Name) (v : Val) :
    (st.updateValue n v).values = AL.put st.values n v := rfl

@[simp] theorem GState.applyOutputs_decisions (st : GState) (outs : AL Val) :
    (st.applyOutputs outs).decisions = st.decisions := by
  unfold GState.applyOutputs
  induction outs generalizing st with
  | nil => rfl
  | cons hd t ih => simp only [List.foldl_cons, ih, GState.updateValue_decisions]

@[simp] theorem GState.applyOutputs_execs (st : GState) (outs : AL Val) :
    (st.applyOutputs outs).execs = st.execs := by
  unfold GState.applyOutputs
  induction outs generalizing st with
  | nil => rfl
  | cons hd t ih => simp only [List.foldl_cons, ih, GState.updateValue_execs]

/-- the values after applying an outputs dict are a dict merge -/
theorem GState.applyOutputs_values (st : GState) (outs : AL Val) :
    (st.applyOutputs outs).values = AL.merge st.values outs := by
  unfold GState.applyOutputs AL.merge
  induction outs generalizing st with
  | nil => rfl
  | cons hd t ih => simp only [List.foldl_cons, ih, GState.updateValue_values]

theorem recordExec_withDec (s st : GState) (D : AL Dec) (nd : NodeD) :
    recordExec s (st.withDec D) nd = (recordExec s st nd).withDec D := rfl
@[simp] theorem recordExec_decisions (s st : GState) (nd : NodeD) :
    (recordExec s st nd).decisions = st.decisions := rfl
@[simp] theorem recordExec_values (s st : GState) (nd : NodeD) :
    (recordExec s st nd).values = st.values := rfl

theorem recordExec_congr {s s' : GState} (h : s.versions = s'.versions) (st : GState) (nd : NodeD) :
    recordExec s st nd = recordExec s' st nd := by
  simp [recordExec, GState.ver, h]

/-! ## normal form of `stepAsync` -/

/-- the nodes an async step actually runs: an interrupt node runs alone -/
def asyncRs₂ (rs : List NodeD) : List NodeD :=
  match rs.find? (·.isInterrupt) with
  | some i => [i]
  | .none => rs

/-- what the async step computes for one node — from the SNAPSHOT `s` only -/
def asyncOne₂ (nested : Nested) (sem : Sem) (gi : Nat) (g : GraphD) (runSpan : Span) (k : Nat)
    (s : GState) (nd : NodeD) : AsyncOne :=
  match collectInputs g s nd nd.inputs with
  | .none => { nd := nd, out := { res := .error (.keyError nd.name) } }
  | some inputs =>
    let sp := nodeSpanOf runSpan k nd
    let out := execNode nested sem gi nd inputs s sp
    let startEv := Log.ev { kind := "NodeStart", span := sp, parent := some runSpan, name := nd.name }
    let decState := match out.dec with
      | some d => { s with decisions := AL.put s.decisions nd.name d }
      | .none => s
    let endEv : List Log := match out.pause, out.res with
      | some _, _ => []
      | .none, .ok _ => routeEvent runSpan k nd decState ++
          [.ev { kind := "NodeEnd", span := sp, parent := some runSpan, name := nd.name }]
      | .none, .error _ => [.ev { kind := "NodeError", span := sp, parent := some runSpan, name := nd.name }]
    { nd := nd, out := { out with log := [startEv] ++ out.log ++ endEv } }

/-- a gate stores its decision -/
def decStep (st : GState) (r : AsyncOne) : GState :=
  match r.out.dec with
  | some d => { st with decisions := AL.put st.decisions r.nd.name d }
  | .none => st

/-- a successful node's outputs are applied and its execution recorded -/
def valStep (s st : GState) (r : AsyncOne) : GState :=
  match r.out.pause, r.out.res with
  | .none, .ok outs => recordExec s (st.applyOutputs outs) r.nd
  | _, _ => st

/-- paused or failed -/
def isBad (r : AsyncOne) : Bool :=
  r.out.pause.isSome || (match r.out.res with | .error _ => true | .ok _ => false)

theorem stepAsync_eq (nested : Nested) (sem : Sem) (gi : Nat) (g : GraphD) (runSpan : Span) (k : Nat)
    (order : List Nat) (s : GState) (rs : List NodeD) :
    stepAsync nested sem gi g runSpan k order s rs =
      (let results := (asyncRs₂ rs).map (asyncOne₂ nested sem gi g runSpan k s)
       let ns2 := results.foldl (valStep s) ((permute results order).foldl decStep s)
       let log := (permute results order).flatMap (·.out.log)
       match results.find? isBad with
       | .none => .ok ns2 log
       | some r =>
         match r.out.pause, r.out.res with
         | some p, _ => .pause p ns2 log
         | .none, .error e => .fail e ns2 log
         | .none, .ok _ => .ok ns2 log) := rfl

/-! ## the two folds of the async step -/

/-- `decStep` on the decisions dict alone -/
def decPut (D : AL Dec) (r : AsyncOne) : AL Dec :=
  match r.out.dec with
  | some d => AL.put D r.nd.name d
  | .none => D

theorem decStep_eq (st : GState) (r : AsyncOne) : decStep st r = st.withDec (decPut st.decisions r) := by
  unfold decStep decPut; split <;> rfl

theorem foldl_decStep (st : GState) (l : List AsyncOne) :
    l.foldl decStep st = st.withDec (l.foldl decPut st.decisions) := by
  induction l generalizing st with
  | nil => rfl
  | cons r t ih => simp only [List.foldl_cons, ih, decStep_eq, GState.withDec_decisions, GState.withDec_withDec]

theorem decPut_same {D D' : AL Dec} (h : AL.Same D D') (r : AsyncOne) : AL.Same (decPut D r) (decPut D' r) := by
  unfold decPut; split
  · exact h.put _ _
  · exact h

theorem decPut_comm (D : AL Dec) (r₁ r₂ : AsyncOne) (h : r₁.nd.name ≠ r₂.nd.name) :
    AL.Same (decPut (decPut D r₁) r₂) (decPut (decPut D r₂) r₁) := by
  unfold decPut
  cases r₁.out.dec <;> cases r₂.out.dec <;> simp only
  · exact AL.Same.refl _
  · exact AL.Same.refl _
  · exact AL.Same.refl _
  · exact AL.put_comm_same _ _ _ h

theorem foldl_decPut_same {D D' : AL Dec} (h : AL.Same D D') (l : List AsyncOne) :
    AL.Same (l.foldl decPut D) (l.foldl decPut D') := by
  induction l generalizing D D' with
  | nil => exact h
  | cons r t ih => exact ih (decPut_same h r)

/-- decisions stored in two different completion orders agree as dicts when node names are distinct -/
theorem foldl_decPut_perm {l₁ l₂ : List AsyncOne} (hp : l₁.Perm l₂)
    (hnd : (l₁.map (·.nd.name)).Nodup) {D D' : AL Dec} (h : AL.Same D D') :
    AL.Same (l₁.foldl decPut D) (l₂.foldl decPut D') := by
  induction hp generalizing D D' with
  | nil => exact h
  | cons r _ ih =>
    simp only [List.map_cons, List.nodup_cons] at hnd
    exact ih hnd.2 (decPut_same h r)
  | swap a b l =>
    simp only [List.map_cons, List.nodup_cons, List.mem_cons, not_or] at hnd
    simp only [List.foldl_cons]
    apply foldl_decPut_same
    refine AL.Same.trans (decPut_comm D b a (fun e => hnd.1.1 e)) ?_
    exact decPut_same (decPut_same h a) b
  | trans p₁ _ ih₁ ih₂ =>
    have hnd₂ := (p₁.map (·.nd.name)).nodup_iff.mp hnd
    exact (ih₁ hnd h).trans (ih₂ hnd₂ (AL.Same.refl _))

theorem decPut_nodup (D : AL Dec) (r : AsyncOne) (h : (AL.keys D).Nodup) : (AL.keys (decPut D r)).Nodup := by
  unfold decPut; split
  · exact AL.nodup_keys_put₂ _ _ _ h
  · exact h

theorem foldl_decPut_nodup (D : AL Dec) (l : List AsyncOne) (h : (AL.keys D).Nodup) :
    (AL.keys (l.foldl decPut D)).Nodup := by
  induction l generalizing D with
  | nil => exact h
  | cons r t ih => exact ih _ (decPut_nodup D r h)

theorem valStep_withDec (s st : GState) (D : AL Dec) (r : AsyncOne) :
    valStep s (st.withDec D) r = (valStep s st r).withDec D := by
  unfold valStep
  split
  · rw [GState.applyOutputs_withDec, recordExec_withDec]
  · rfl

theorem foldl_valStep_withDec (s st : GState) (D : AL Dec) (l : List AsyncOne) :
    l.foldl (valStep s) (st.withDec D) = (l.foldl (valStep s) st).withDec D := by
  induction l generalizing st with
  | nil => rfl
  | cons r t ih => simp only [List.foldl_cons, valStep_withDec, ih]

@[simp] theorem valStep_decisions (s st : GState) (r : AsyncOne) : (valStep s st r).decisions = st.decisions := by
  unfold valStep; split <;> simp

@[simp] theorem foldl_valStep_decisions (s st : GState) (l : List AsyncOne) :
    (l.foldl (valStep s) st).decisions = st.decisions := by
  induction l generalizing st with
  | nil => rfl
  | cons r t ih => simp only [List.foldl_cons, ih, valStep_decisions]

theorem valStep_congr {s s' : GState} (h : s.versions = s'.versions) (st : GState) (r : AsyncOne) :
    valStep s st r = valStep s' st r := by
  unfold valStep; split
  · exact recordExec_congr h _ _
  · rfl

theorem foldl_valStep_congr {s s' : GState} (h : s.versions = s'.versions) (st : GState) (l : List AsyncOne) :
    l.foldl (valStep s) st = l.foldl (valStep s') st := by
  have : valStep s = valStep s' := by funext st r; exact valStep_congr h st r
  rw [this]

/-- sync interleaves "store decision" and "apply outputs" per node; the two commute -/
theorem valStep_decStep_comm (s st : GState) (r r' : AsyncOne) :
    valStep s (decStep st r) r' = decStep (valStep s st r') r := by
  rw [decStep_eq, decStep_eq, valStep_withDec, valStep_decisions]

theorem foldl_valStep_decStep (s st : GState) (r : AsyncOne) (l : List AsyncOne) :
    l.foldl (valStep s) (decStep st r) = decStep (l.foldl (valStep s) st) r := by
  induction l generalizing st with
  | nil => rfl
  | cons r' t ih => simp only [List.foldl_cons, valStep_decStep_comm, ih]

theorem foldl_decStep_valStep (s st : GState) (r' : AsyncOne) (l : List AsyncOne) :
    l.foldl decStep (valStep s st r') = valStep s (l.foldl decStep st) r' := by
  induction l generalizing st with
  | nil => rfl
  | cons r t ih => simp only [List.foldl_cons, ← valStep_decStep_comm, ih]

/-- what the sync step does to the accumulated state for one successful node -/
def bothStep (s st : GState) (r : AsyncOne) : GState := valStep s (decStep st r) r

/-- interleaved (sync) = decisions first, then outputs (async with the identity order) -/
theorem foldl_bothStep (s st : GState) (l : List AsyncOne) :
    l.foldl (bothStep s) st = l.foldl (valStep s) (l.foldl decStep st) := by
  induction l generalizing st with
  | nil => rfl
  | cons r t ih =>
    simp only [List.foldl_cons, ih, bothStep]
    rw [foldl_decStep_valStep]

/-- final state of the async step, decisions separated from the rest -/
theorem async_state_eq (s : GState) (results perm : List AsyncOne) :
    results.foldl (valStep s) (perm.foldl decStep s) =
      (results.foldl (valStep s) s).withDec (perm.foldl decPut s.decisions) := by
  rw [foldl_decStep, foldl_valStep_withDec]

/-! ## what a node computes depends on the snapshot only -/

theorem execNode_indep (nested : Nested) (sem : Sem) (gi : Nat) (nd : NodeD) (inputs : AL Val)
    (ns ns' : GState) (sp : Span) (h : nd.kind ≠ .interrupt) :
    execNode nested sem gi nd inputs ns sp = execNode nested sem gi nd inputs ns' sp := by
  unfold execNode
  cases hk : nd.kind <;> simp_all

theorem execNode_congr (nested : Nested) (sem : Sem) (gi : Nat) (nd : NodeD) (inputs : AL Val)
    {ns ns' : GState} (sp : Span) (h : GState.equiv ns ns') :
    execNode nested sem gi nd inputs ns sp = execNode nested sem gi nd inputs ns' sp := by
  unfold execNode
  cases hk : nd.kind <;> simp only
  unfold execInterrupt
  rw [h.1, h.2.2.1]

theorem valueSource_congr (g : GraphD) {s s' : GState} (h : s.values = s'.values) (nd : NodeD) (p : Name) :
    valueSource g s nd p = valueSource g s' nd p := by
  unfold valueSource; rw [h]

theorem collectInputs_congr (g : GraphD) {s s' : GState} (h : s.values = s'.values) (nd : NodeD) :
    ∀ ps, collectInputs g s nd ps = collectInputs g s' nd ps
  | [] => rfl
  | p :: ps => by
    simp only [collectInputs, resolveInput, valueSource_congr g h, collectInputs_congr g h nd ps]

theorem routeEvent_congr (runSpan : Span) (k : Nat) (nd : NodeD) {a b : GState}
    (h : AL.get? a.decisions nd.name = AL.get? b.decisions nd.name) :
    routeEvent runSpan k nd a = routeEvent runSpan k nd b := by
  unfold routeEvent; rw [h]

theorem asyncOne_congr (nested : Nested) (sem : Sem) (gi : Nat) (g : GraphD) (runSpan : Span) (k : Nat)
    {s s' : GState} (h : GState.equiv s s') (nd : NodeD) :
    asyncOne₂ nested sem gi g runSpan k s nd = asyncOne₂ nested sem gi g runSpan k s' nd := by
  unfold asyncOne₂
  rw [collectInputs_congr g h.1]
  cases collectInputs g s' nd nd.inputs with
  | none => rfl
  | some inputs =>
    simp only
    rw [execNode_congr nested sem gi nd inputs _ h]
    generalize execNode nested sem gi nd inputs s' _ = out
    have hr : routeEvent runSpan k nd (match out.dec with
          | some d => { s with decisions := AL.put s.decisions nd.name d }
          | .none => s) =
        routeEvent runSpan k nd (match out.dec with
          | some d => { s' with decisions := AL.put s'.decisions nd.name d }
          | .none => s') := by
      apply routeEvent_congr
      cases out.dec with
      | none => exact h.2.2.2 _
      | some d => simp only [AL.get?_put_same]
    rw [hr]

/-- the fields of `asyncOne₂` when the inputs resolve -/
theorem asyncOne_some (nested : Nested) (sem : Sem) (gi : Nat) (g : GraphD) (runSpan : Span) (k : Nat)
    (s : GState) (nd : NodeD) (inputs : AL Val) (hc : collectInputs g s nd nd.inputs = some inputs) :
    let r := asyncOne₂ nested sem gi g runSpan k s nd
    let out := execNode nested sem gi nd inputs s (nodeSpanOf runSpan k nd)
    r.nd = nd ∧ r.out.res = out.res ∧ r.out.dec = out.dec ∧ r.out.pause = out.pause := by
  simp only [asyncOne₂, hc, and_self]

theorem asyncOne_none (nested : Nested) (sem : Sem) (gi : Nat) (g : GraphD) (runSpan : Span) (k : Nat)
    (s : GState) (nd : NodeD) (hc : collectInputs g s nd nd.inputs = none) :
    asyncOne₂ nested sem gi g runSpan k s nd = { nd := nd, out := { res := .error (.keyError nd.name) } } := by
  simp only [asyncOne₂, hc]

@[simp] theorem asyncOne_nd (nested : Nested) (sem : Sem) (gi : Nat) (g : GraphD) (runSpan : Span) (k : Nat)
    (s : GState) (nd : NodeD) : (asyncOne₂ nested sem gi g runSpan k s nd).nd = nd := by
  unfold asyncOne₂; split <;> rfl

/-! ## `stepSync`, one node at a time -/

/-- `stepSync` unfolded for the head node: the arguments are resolved against the snapshot `s` -/
theorem stepSync_cons (nested : Nested) (sem : Sem) (gi : Nat) (g : GraphD) (runSpan : Span) (k : Nat)
    (s : GState) (nd : NodeD) (rest : List NodeD) (ns : GState) (log : List Log) :
    stepSync nested sem gi g runSpan k s (nd :: rest) ns log =
      (match collectInputs g s nd nd.inputs with
       | .none => .fail (.keyError nd.name) s log
       | some inputs =>
         let sp := nodeSpanOf runSpan k nd
         let startEv := Log.ev { kind := "NodeStart", span := sp, parent := some runSpan, name := nd.name }
         let out := execNode nested sem gi nd inputs ns sp
         let ns1 := match out.dec with
           | some d => { ns with decisions := AL.put ns.decisions nd.name d }
           | .none => ns
         match out.pause with
         | some p =>
           .pause p s (log ++ [startEv] ++ out.log ++
             [.ev { kind := "NodeError", span := sp, parent := some runSpan, name := nd.name }])
         | .none =>
           match out.res with
           | .error e =>
             .fail e ns1 (log ++ [startEv] ++ out.log ++
               [.ev { kind := "NodeError", span := sp, parent := some runSpan, name := nd.name }])
           | .ok outs =>
             stepSync nested sem gi g runSpan k s rest (recordExec s (ns1.applyOutputs outs) nd)
               (log ++ [startEv] ++ out.log ++ routeEvent runSpan k nd ns1 ++
                 [.ev { kind := "NodeEnd", span := sp, parent := some runSpan, name := nd.name }])) := rfl

/-- a step result without its log -/
inductive StepAbs
  | ok (ns : GState)
  | fail (e : ErrId) (partialState : GState)
  | pause (p : PauseInfo)

def StepOut.abs : StepOut → StepAbs
  | .ok ns _ => .ok ns
  | .fail e ps _ => .fail e ps
  | .pause p _ _ => .pause p

/-- the sync step on interrupt-free ready lists, expressed with the per-node results of the
async step (which depend on the snapshot only) -/
def syncAbs (nested : Nested) (sem : Sem) (gi : Nat) (g : GraphD) (runSpan : Span) (k : Nat)
    (s : GState) : List NodeD → GState → StepAbs
  | [], ns => .ok ns
  | nd :: rest, ns =>
    let r := asyncOne₂ nested sem gi g runSpan k s nd
    match collectInputs g s nd nd.inputs with
    | .none => .fail (.keyError nd.name) s
    | some _ =>
      match r.out.pause, r.out.res with
      | some p, _ => .pause p
      | .none, .error e => .fail e (decStep ns r)
      | .none, .ok _ => syncAbs nested sem gi g runSpan k s rest (bothStep s ns r)

theorem stepSync_abs (nested : Nested) (sem : Sem) (gi : Nat) (g : GraphD) (runSpan : Span) (k : Nat)
    (s : GState) (rs : List NodeD) (hni : ∀ nd ∈ rs, nd.kind ≠ .interrupt) :
    ∀ ns log, (stepSync nested sem gi g runSpan k s rs ns log).abs =
      syncAbs nested sem gi g runSpan k s rs ns := by
  induction rs with
  | nil => intro ns log; rfl
  | cons nd rest ih =>
    intro ns log
    have hk : nd.kind ≠ .interrupt := hni nd (List.mem_cons_self ..)
    have ih' := ih (fun x hx => hni x (List.mem_cons_of_mem _ hx))
    rw [stepSync_cons]
    unfold syncAbs
    cases hc : collectInputs g s nd nd.inputs with
    | none => rfl
    | some inputs =>
      obtain ⟨h1, h2, h3, h4⟩ := asyncOne_some nested sem gi g runSpan k s nd inputs hc
      simp only
      rw [execNode_indep nested sem gi nd inputs ns s _ hk]
      rw [h4, h2]
      generalize hout : execNode nested sem gi nd inputs s (nodeSpanOf runSpan k nd) = out at *
      cases hp : out.pause with
      | some p => rfl
      | none =>
        cases hr : out.res with
        | error e =>
          simp only [StepOut.abs, decStep, h3, h1]
        | ok outs =>
          simp only
          rw [ih']
          congr 1
          simp only [bothStep, valStep, decStep, h4, h2, h3, h1, hp, hr]

/-! ## characterisation of the sync step through the async per-node results -/

theorem isBad_false_iff (r : AsyncOne) : isBad r = false ↔ r.out.pause = none ∧ ∃ outs, r.out.res = .ok outs := by
  unfold isBad
  cases r.out.pause <;> cases r.out.res <;> simp

theorem isBad_of_pause {r : AsyncOne} {p : PauseInfo} (h : r.out.pause = some p) : isBad r = true := by
  simp [isBad, h]

theorem isBad_of_error {r : AsyncOne} {e : ErrId} (h : r.out.res = .error e) : isBad r = true := by
  simp [isBad, h]

section
variable (nested : Nested) (sem : Sem) (gi : Nat) (g : GraphD) (runSpan : Span) (k : Nat) (s : GState)

/-- outcome of the sync step = position of the first bad node in ready order.
`ok`: every node succeeded, the state is the interleaved fold.  `fail`: everything before the
first failing node succeeded; the partial state is the snapshot (inputs unresolvable: the
`KeyError` raised outside the node's try-block) or the accumulated state.  `pause`: likewise. -/
theorem syncAbs_char (rs : List NodeD) : ∀ ns : GState,
    (∀ ns', syncAbs nested sem gi g runSpan k s rs ns = .ok ns' →
      (∀ r ∈ rs.map (asyncOne₂ nested sem gi g runSpan k s), isBad r = false) ∧
      ns' = (rs.map (asyncOne₂ nested sem gi g runSpan k s)).foldl (bothStep s) ns) ∧
    (∀ e ps, syncAbs nested sem gi g runSpan k s rs ns = .fail e ps →
      ∃ pre bad post, rs = pre ++ bad :: post ∧
        (∀ r ∈ pre.map (asyncOne₂ nested sem gi g runSpan k s), isBad r = false) ∧
        (asyncOne₂ nested sem gi g runSpan k s bad).out.pause = none ∧
        (asyncOne₂ nested sem gi g runSpan k s bad).out.res = .error e ∧
        (ps = s ∨ ps = decStep ((pre.map (asyncOne₂ nested sem gi g runSpan k s)).foldl (bothStep s) ns)
                        (asyncOne₂ nested sem gi g runSpan k s bad))) ∧
    (∀ p, syncAbs nested sem gi g runSpan k s rs ns = .pause p →
      ∃ pre bad post, rs = pre ++ bad :: post ∧
        (∀ r ∈ pre.map (asyncOne₂ nested sem gi g runSpan k s), isBad r = false) ∧
        (asyncOne₂ nested sem gi g runSpan k s bad).out.pause = some p) := by
  induction rs with
  | nil =>
    intro ns
    refine ⟨?_, ?_, ?_⟩
    · intro ns' h
      simp only [syncAbs, StepAbs.ok.injEq] at h
      subst h
      simp
    · intro e ps h; simp [syncAbs] at h
    · intro p h; simp [syncAbs] at h
  | cons nd rest ih =>
    intro ns
    cases hc : collectInputs g s nd nd.inputs with
    | none =>
      have hr := asyncOne_none nested sem gi g runSpan k s nd hc
      refine ⟨?_, ?_, ?_⟩
      · intro ns' h; simp [syncAbs, hc] at h
      · intro e ps h
        simp only [syncAbs, hc, StepAbs.fail.injEq] at h
        obtain ⟨he, hps⟩ := h
        subst he; subst hps
        refine ⟨[], nd, rest, rfl, by simp, ?_, ?_, Or.inl rfl⟩
        · rw [hr]
        · rw [hr]
      · intro p h; simp [syncAbs, hc] at h
    | some inputs =>
      cases hp : (asyncOne₂ nested sem gi g runSpan k s nd).out.pause with
      | some p0 =>
        refine ⟨?_, ?_, ?_⟩
        · intro ns' h; simp [syncAbs, hc, hp] at h
        · intro e ps h; simp [syncAbs, hc, hp] at h
        · intro p h
          simp only [syncAbs, hc, hp, StepAbs.pause.injEq] at h
          subst h
          exact ⟨[], nd, rest, rfl, by simp, hp⟩
      | none =>
        cases hr : (asyncOne₂ nested sem gi g runSpan k s nd).out.res with
        | error e0 =>
          refine ⟨?_, ?_, ?_⟩
          · intro ns' h; simp [syncAbs, hc, hp, hr] at h
          · intro e ps h
            simp only [syncAbs, hc, hp, hr, StepAbs.fail.injEq] at h
            obtain ⟨he, hps⟩ := h
            subst he; subst hps
            exact ⟨[], nd, rest, rfl, by simp, hp, hr, Or.inr rfl⟩
          · intro p h; simp [syncAbs, hc, hp, hr] at h
        | ok outs =>
          have hgood : isBad (asyncOne₂ nested sem gi g runSpan k s nd) = false :=
            (isBad_false_iff _).2 ⟨hp, outs, hr⟩
          obtain ⟨ih1, ih2, ih3⟩ := ih (bothStep s ns (asyncOne₂ nested sem gi g runSpan k s nd))
          have hstep : syncAbs nested sem gi g runSpan k s (nd :: rest) ns =
              syncAbs nested sem gi g runSpan k s rest
                (bothStep s ns (asyncOne₂ nested sem gi g runSpan k s nd)) := by
            simp only [syncAbs, hc, hp, hr]
          rw [hstep]
          refine ⟨?_, ?_, ?_⟩
          · intro ns' h
            obtain ⟨ha, hb⟩ := ih1 ns' h
            refine ⟨?_, ?_⟩
            · intro r hrm
              simp only [List.map_cons, List.mem_cons] at hrm
              rcases hrm with rfl | hrm
              · exact hgood
              · exact ha r hrm
            · simpa using hb
          · intro e ps h
            obtain ⟨pre, bad, post, hrs, hpre, hbp, hbr, hps⟩ := ih2 e ps h
            refine ⟨nd :: pre, bad, post, by simp [hrs], ?_, hbp, hbr, ?_⟩
            · intro r hrm
              simp only [List.map_cons, List.mem_cons] at hrm
              rcases hrm with rfl | hrm
              · exact hgood
              · exact hpre r hrm
            · simpa using hps
          · intro p h
            obtain ⟨pre, bad, post, hrs, hpre, hbp⟩ := ih3 p h
            refine ⟨nd :: pre, bad, post, by simp [hrs], ?_, hbp⟩
            intro r hrm
            simp only [List.map_cons, List.mem_cons] at hrm
            rcases hrm with rfl | hrm
            · exact hgood
            · exact hpre r hrm

end

/-! ## the async step: schedule independence -/

/-- two step results that differ only by the completion order of the async tasks -/
def StepOut.SchedEquiv : StepOut → StepOut → Prop
  | .ok a la, .ok b lb => GState.equiv a b ∧ la.Perm lb
  | .fail e a la, .fail e' b lb => e = e' ∧ GState.equiv a b ∧ la.Perm lb
  | .pause p a la, .pause p' b lb => p = p' ∧ GState.equiv a b ∧ la.Perm lb
  | _, _ => False

theorem asyncRs_of_no_interrupt {rs : List NodeD} (h : ∀ nd ∈ rs, nd.kind ≠ .interrupt) : asyncRs₂ rs = rs := by
  unfold asyncRs₂
  have : rs.find? (·.isInterrupt) = none := by
    rw [List.find?_eq_none]
    intro x hx
    simp [NodeD.isInterrupt, h x hx]
  rw [this]

theorem asyncRs_nodup {rs : List NodeD} (h : (rs.map (·.name)).Nodup) : ((asyncRs₂ rs).map (·.name)).Nodup := by
  unfold asyncRs₂
  split
  · simp
  · exact h

section
variable (nested : Nested) (sem : Sem) (gi : Nat) (g : GraphD) (runSpan : Span) (k : Nat)

theorem map_asyncOne_names (s : GState) (l : List NodeD) :
    (l.map (asyncOne₂ nested sem gi g runSpan k s)).map (·.nd.name) = l.map (·.name) := by
  simp [List.map_map, Function.comp_def]

/-- the async step on equivalent snapshots and with any two completion orders -/
theorem stepAsync_congr (o₁ o₂ : List Nat) {s s' : GState} (h : GState.equiv s s') (rs : List NodeD)
    (hnd : (rs.map (·.name)).Nodup) :
    StepOut.SchedEquiv (stepAsync nested sem gi g runSpan k o₁ s rs)
      (stepAsync nested sem gi g runSpan k o₂ s' rs) := by
  rw [stepAsync_eq, stepAsync_eq]
  have hres : (asyncRs₂ rs).map (asyncOne₂ nested sem gi g runSpan k s') =
      (asyncRs₂ rs).map (asyncOne₂ nested sem gi g runSpan k s) := by
    apply List.map_congr_left
    intro nd _
    exact (asyncOne_congr nested sem gi g runSpan k h nd).symm
  simp only [hres]
  have hRn : (((asyncRs₂ rs).map (asyncOne₂ nested sem gi g runSpan k s)).map (·.nd.name)).Nodup := by
    rw [map_asyncOne_names]; exact asyncRs_nodup hnd
  generalize (asyncRs₂ rs).map (asyncOne₂ nested sem gi g runSpan k s) = R at hRn
  have hperm : (permute R o₁).Perm (permute R o₂) := (permute_perm R o₁).trans (permute_perm R o₂).symm
  have hst : GState.equiv (R.foldl (valStep s) ((permute R o₁).foldl decStep s))
      (R.foldl (valStep s') ((permute R o₂).foldl decStep s')) := by
    rw [async_state_eq, async_state_eq, ← foldl_valStep_congr h.2.1]
    obtain ⟨hs', hD⟩ := GState.equiv_iff_withDec.mp h
    have : R.foldl (valStep s) s' = (R.foldl (valStep s) s).withDec s'.decisions := by
      conv => lhs; rw [hs']
      rw [foldl_valStep_withDec]
    rw [this, GState.withDec_withDec]
    apply GState.equiv_withDec
    apply foldl_decPut_perm hperm _ hD
    exact ((permute_perm R o₁).map (·.nd.name)).nodup_iff.mpr hRn
  have hlog : ((permute R o₁).flatMap (·.out.log)).Perm ((permute R o₂).flatMap (·.out.log)) :=
    hperm.flatMap_right _
  cases R.find? isBad with
  | none => exact ⟨hst, hlog⟩
  | some r =>
    cases hp : r.out.pause with
    | some p => simp only [hp, StepOut.SchedEquiv]; exact ⟨trivial, hst, hlog⟩
    | none =>
      cases hr : r.out.res with
      | error e => simp only [hp, hr, StepOut.SchedEquiv]; exact ⟨trivial, hst, hlog⟩
      | ok outs => simp only [hp, hr, StepOut.SchedEquiv]; exact ⟨hst, hlog⟩

/-- all nodes good: the async step succeeds -/
theorem stepAsync_of_all_good (order : List Nat) (s : GState) (rs : List NodeD)
    (hni : ∀ nd ∈ rs, nd.kind ≠ .interrupt)
    (hgood : ∀ r ∈ rs.map (asyncOne₂ nested sem gi g runSpan k s), isBad r = false) :
    stepAsync nested sem gi g runSpan k order s rs =
      .ok ((rs.map (asyncOne₂ nested sem gi g runSpan k s)).foldl (valStep s)
            ((permute (rs.map (asyncOne₂ nested sem gi g runSpan k s)) order).foldl decStep s))
          ((permute (rs.map (asyncOne₂ nested sem gi g runSpan k s)) order).flatMap (·.out.log)) := by
  rw [stepAsync_eq, asyncRs_of_no_interrupt hni]
  have : (rs.map (asyncOne₂ nested sem gi g runSpan k s)).find? isBad = none := by
    rw [List.find?_eq_none]
    intro r hr; simp [hgood r hr]
  simp only [this]

/-- first bad node found: the async step fails / pauses there -/
theorem find?_isBad_decomp (R₁ : List AsyncOne) (r : AsyncOne) (R₂ : List AsyncOne)
    (hpre : ∀ x ∈ R₁, isBad x = false) (hbad : isBad r = true) :
    (R₁ ++ r :: R₂).find? isBad = some r := by
  rw [List.find?_append]
  have : R₁.find? isBad = none := by
    rw [List.find?_eq_none]; intro x hx; simp [hpre x hx]
  rw [this]
  simp [hbad]

end

/-! ## values written by a step -/

/-- the outputs a result contributes to the new state -/
def okOuts (r : AsyncOne) : AL Val :=
  match r.out.pause, r.out.res with
  | .none, .ok outs => outs
  | _, _ => []

def writes (l : List AsyncOne) : AL Val := l.flatMap okOuts

theorem okOuts_of_bad {r : AsyncOne} (h : isBad r = true) : okOuts r = [] := by
  unfold okOuts
  split
  · rename_i hp hr; simp [isBad, hp, hr] at h
  · rfl

theorem valStep_values (s st : GState) (r : AsyncOne) :
    (valStep s st r).values = AL.merge st.values (okOuts r) := by
  unfold valStep okOuts
  split
  · simp [GState.applyOutputs_values]
  · rfl

theorem foldl_valStep_values (s st : GState) (l : List AsyncOne) :
    (l.foldl (valStep s) st).values = AL.merge st.values (writes l) := by
  induction l generalizing st with
  | nil => rfl
  | cons r t ih =>
    simp only [List.foldl_cons, ih, valStep_values, writes, List.flatMap_cons, AL.merge_append]

theorem decStep_values (st : GState) (r : AsyncOne) : (decStep st r).values = st.values := by
  rw [decStep_eq]; rfl

theorem foldl_bothStep_values (s st : GState) (l : List AsyncOne) :
    (l.foldl (bothStep s) st).values = AL.merge st.values (writes l) := by
  rw [foldl_bothStep, foldl_valStep_values, foldl_decStep]; rfl

theorem writes_append (a b : List AsyncOne) : writes (a ++ b) = writes a ++ writes b := by
  simp [writes]

theorem writes_cons_bad {r : AsyncOne} (h : isBad r = true) (l : List AsyncOne) : writes (r :: l) = writes l := by
  simp [writes, okOuts_of_bad h]

/-! ## which names a node writes -/

namespace AL
variable {α : Type}
theorem mem_keys_put₂ (m : AL α) (k k' : Name) (v : α) (h : k' ∈ keys (put m k v)) : k' ∈ keys m ∨ k' = k := by
  rw [keys_put_perm] at h
  split at h
  · exact Or.inl h
  · simpa using h

theorem mem_keys_merge₂ (a b : AL α) (k : Name) (h : k ∈ keys (merge a b)) : k ∈ keys a ∨ k ∈ keys b := by
  unfold merge at h
  induction b generalizing a with
  | nil => exact Or.inl h
  | cons hd t ih =>
    simp only [List.foldl_cons] at h
    rcases ih _ h with h' | h'
    · rcases mem_keys_put₂ _ _ _ _ h' with h'' | h''
      · exact Or.inl h''
      · subst h''; exact Or.inr (by simp [keys])
    · exact Or.inr (by simp only [keys, List.map_cons, List.mem_cons]; exact Or.inr h')

theorem mem_keys_of_mem {m : AL α} {kv : Name × α} (h : kv ∈ m) : kv.1 ∈ keys m :=
  List.mem_map_of_mem (f := (·.1)) h
end AL

theorem wrapOutputs_keys (nd : NodeD) (v : Val) (o : AL Val) (h : wrapOutputs nd v = some o) :
    ∀ k ∈ AL.keys o, k ∈ nd.outputs := by
  have hemit : ∀ k, k ∈ AL.keys (nd.emits.map fun e => (e, Val.sentinel)) → k ∈ nd.emits := by
    intro k hk; simpa [AL.keys, List.map_map, Function.comp_def] using hk
  unfold wrapOutputs at h
  simp only at h
  intro k hk
  simp only [NodeD.outputs, List.mem_append]
  split at h
  · rename_i hd
    simp only [Option.some.injEq] at h; subst h
    exact Or.inr (hemit k hk)
  · rename_i o1 hd
    simp only [Option.some.injEq] at h; subst h
    rcases AL.mem_keys_merge₂ _ _ _ hk with h' | h'
    · left; rw [hd]; simpa [AL.keys] using h'
    · exact Or.inr (hemit k h')
  · split at h
    · simp at h
    · rename_i items hitems
      split at h
      · simp at h
      · simp only [Option.some.injEq] at h; subst h
        rcases AL.mem_keys_merge₂ _ _ _ hk with h' | h'
        · left
          have h'' := AL.mem_keys_merge₂ ([] : AL Val) (nd.dataOuts.zip items) k h'
          rcases h'' with h'' | h''
          · simp [AL.keys] at h''
          · simp only [AL.keys, List.mem_map] at h''
            obtain ⟨kv, hkv, rfl⟩ := h''
            exact (List.of_mem_zip hkv).1
        · exact Or.inr (hemit k h')

theorem emitPart_keys (nd : NodeD) : ∀ k ∈ AL.keys (nd.emits.map fun e => (e, Val.sentinel)), k ∈ nd.outputs := by
  intro k hk
  have : k ∈ nd.emits := by simpa [AL.keys, List.map_map, Function.comp_def] using hk
  simp [NodeD.outputs, this]

theorem execFn_keys (sem : Sem) (gi : Nat) (nd : NodeD) (inputs : AL Val) (outs : AL Val)
    (h : (execFn sem gi nd inputs).res = .ok outs) : ∀ k ∈ AL.keys outs, k ∈ nd.outputs := by
  unfold execFn at h
  simp only at h
  split at h
  · simp at h
  · split at h
    · rename_i o ho
      simp only [Except.ok.injEq] at h; subst h
      exact wrapOutputs_keys nd _ _ ho
    · simp at h
  · split at h
    · rename_i o ho
      simp only [Except.ok.injEq] at h; subst h
      exact wrapOutputs_keys nd _ _ ho
    · simp at h

theorem execIfElse_keys (sem : Sem) (gi : Nat) (nd : NodeD) (inputs : AL Val) (outs : AL Val)
    (h : (execIfElse sem gi nd inputs).res = .ok outs) : ∀ k ∈ AL.keys outs, k ∈ nd.outputs := by
  unfold execIfElse at h
  simp only at h
  split at h
  · simp at h
  · simp only [Except.ok.injEq] at h; subst h
    exact emitPart_keys nd
  · simp at h

theorem execRoute_keys (sem : Sem) (gi : Nat) (nd : NodeD) (inputs : AL Val) (outs : AL Val)
    (h : (execRoute sem gi nd inputs).res = .ok outs) : ∀ k ∈ AL.keys outs, k ∈ nd.outputs := by
  unfold execRoute at h
  simp only at h
  split at h
  · simp at h
  · split at h
    · simp at h
    · simp only [Except.ok.injEq] at h; subst h
      exact emitPart_keys nd
  · split at h
    · simp at h
    · simp only [Except.ok.injEq] at h; subst h
      exact emitPart_keys nd
  · simp at h

theorem execNode_keys (nested : Nested) (sem : Sem) (gi : Nat) (nd : NodeD) (inputs : AL Val) (ns : GState)
    (sp : Span) (outs : AL Val) (hg : nd.kind ≠ .graph) (hi : nd.kind ≠ .interrupt)
    (h : (execNode nested sem gi nd inputs ns sp).res = .ok outs) : ∀ k ∈ AL.keys outs, k ∈ nd.outputs := by
  unfold execNode at h
  cases hk : nd.kind <;> simp only [hk] at h hg hi
  · exact execFn_keys sem gi nd inputs outs h
  · exact execRoute_keys sem gi nd inputs outs h
  · exact execIfElse_keys sem gi nd inputs outs h
  · exact absurd rfl hg
  · exact absurd rfl hi

/-- a function or gate node writes only names it declares as outputs -/
theorem okOuts_declared (nested : Nested) (sem : Sem) (gi : Nat) (g : GraphD) (runSpan : Span) (k : Nat)
    (s : GState) (nd : NodeD) (hg : nd.kind ≠ .graph) (hi : nd.kind ≠ .interrupt) :
    ∀ n ∈ AL.keys (okOuts (asyncOne₂ nested sem gi g runSpan k s nd)), n ∈ nd.outputs := by
  cases hc : collectInputs g s nd nd.inputs with
  | none => rw [asyncOne_none nested sem gi g runSpan k s nd hc]; simp [okOuts, AL.keys]
  | some inputs =>
    obtain ⟨_, h2, _, _⟩ := asyncOne_some nested sem gi g runSpan k s nd inputs hc
    intro n hn
    unfold okOuts at hn
    split at hn
    · rename_i outs hp hr
      rw [h2] at hr
      exact execNode_keys nested sem gi nd inputs s _ outs hg hi hr n hn
    · simp [AL.keys] at hn

theorem mem_keys_writes {l : List AsyncOne} {n : Name} (h : n ∈ AL.keys (writes l)) :
    ∃ r ∈ l, n ∈ AL.keys (okOuts r) := by
  simp only [writes, AL.keys, List.map_flatMap, List.mem_flatMap] at h
  obtain ⟨r, hr, hn⟩ := h
  exact ⟨r, hr, hn⟩

/-! ## logs -/

def isCall : Log → Bool
  | .call _ _ => true
  | _ => false

theorem routeEvent_calls (runSpan : Span) (k : Nat) (nd : NodeD) (ns : GState) :
    (routeEvent runSpan k nd ns).filter isCall = [] := by
  unfold routeEvent
  split
  · split <;> simp [isCall]
  · rfl

/-- with the accumulated state replaced, the step performs the same node-function calls -/
theorem stepSync_calls (nested : Nested) (sem : Sem) (gi : Nat) (g : GraphD) (runSpan : Span) (k : Nat)
    (s : GState) (rs : List NodeD) (hni : ∀ nd ∈ rs, nd.kind ≠ .interrupt) :
    ∀ (ns ns' : GState) (log log' : List Log), log.filter isCall = log'.filter isCall →
      (stepSync nested sem gi g runSpan k s rs ns log).log.filter isCall =
        (stepSync nested sem gi g runSpan k s rs ns' log').log.filter isCall := by
  induction rs with
  | nil => intro ns ns' log log' h; exact h
  | cons nd rest ih =>
    intro ns ns' log log' h
    have hk : nd.kind ≠ .interrupt := hni nd (List.mem_cons_self ..)
    have ih' := ih (fun x hx => hni x (List.mem_cons_of_mem _ hx))
    rw [stepSync_cons, stepSync_cons]
    cases hc : collectInputs g s nd nd.inputs with
    | none => exact h
    | some inputs =>
      simp only
      rw [execNode_indep nested sem gi nd inputs ns' ns _ hk]
      generalize execNode nested sem gi nd inputs ns (nodeSpanOf runSpan k nd) = out
      cases out.pause with
      | some p => simp [StepOut.log, List.filter_append, h]
      | none =>
        cases out.res with
        | error e => simp [StepOut.log, List.filter_append, h]
        | ok outs =>
          simp only
          apply ih'
          simp only [List.filter_append, h, routeEvent_calls]

/-! ## sync vs async on one step -/

theorem StepOut.SchedEquiv.cases {X Y : StepOut} (h : StepOut.SchedEquiv X Y) :
    (∃ a la b lb, X = .ok a la ∧ Y = .ok b lb ∧ GState.equiv a b ∧ la.Perm lb) ∨
    (∃ e a la b lb, X = .fail e a la ∧ Y = .fail e b lb ∧ GState.equiv a b ∧ la.Perm lb) ∨
    (∃ p a la b lb, X = .pause p a la ∧ Y = .pause p b lb ∧ GState.equiv a b ∧ la.Perm lb) := by
  cases X with
  | ok a la =>
    cases Y with
    | ok b lb => exact Or.inl ⟨a, la, b, lb, rfl, rfl, h.1, h.2⟩
    | fail _ _ _ => exact h.elim
    | pause _ _ _ => exact h.elim
  | fail e a la =>
    cases Y with
    | ok _ _ => exact h.elim
    | fail e' b lb =>
      obtain ⟨h1, h2, h3⟩ := h
      subst h1
      exact Or.inr (Or.inl ⟨e, a, la, b, lb, rfl, rfl, h2, h3⟩)
    | pause _ _ _ => exact h.elim
  | pause p a la =>
    cases Y with
    | ok _ _ => exact h.elim
    | fail _ _ _ => exact h.elim
    | pause p' b lb =>
      obtain ⟨h1, h2, h3⟩ := h
      subst h1
      exact Or.inr (Or.inr ⟨p, a, la, b, lb, rfl, rfl, h2, h3⟩)

theorem execNode_gate_dec (nested : Nested) (sem : Sem) (gi : Nat) (nd : NodeD) (inputs : AL Val) (ns : GState)
    (sp : Span) (outs : AL Val) (hg : nd.isGate = true)
    (h : (execNode nested sem gi nd inputs ns sp).res = .ok outs) :
    ∃ d, (execNode nested sem gi nd inputs ns sp).dec = some d := by
  unfold execNode at h ⊢
  cases hk : nd.kind <;> simp only [hk] at h ⊢ <;> simp [NodeD.isGate, hk] at hg
  · unfold execRoute at h ⊢
    simp only at h ⊢
    cases hs : sem nd (toParams nd inputs) with
    | raise e => simp [hs] at h
    | dec d =>
      simp only [hs] at h ⊢
      split at h
      · simp at h
      · exact ⟨_, rfl⟩
    | val v =>
      cases v <;> simp only [hs] at h ⊢ <;> first | (simp at h; done) | skip
      split at h
      · simp at h
      · exact ⟨_, rfl⟩
  · unfold execIfElse at h ⊢
    simp only at h ⊢
    split at h
    · simp at h
    · exact ⟨_, rfl⟩
    · simp at h

theorem routeEvent_eq_of_gate_dec (runSpan : Span) (k : Nat) (nd : NodeD) (a b : GState) (dec : Option Dec) :
    (nd.isGate = true → ∃ d, dec = some d) →
    routeEvent runSpan k nd (match dec with
        | some d => { a with decisions := AL.put a.decisions nd.name d }
        | .none => a) =
      routeEvent runSpan k nd (match dec with
        | some d => { b with decisions := AL.put b.decisions nd.name d }
        | .none => b) := by
  intro h
  unfold routeEvent
  by_cases hg : nd.isGate = true
  · obtain ⟨d, rfl⟩ := h hg
    simp [AL.get?_put_same]
  · simp [hg]

section
variable (nested : Nested) (sem : Sem) (gi : Nat) (g : GraphD) (runSpan : Span) (k : Nat) (s : GState)

/-- a successful sync step logs exactly the per-node logs of the async results, in ready order -/
theorem stepSync_log_of_ok (rs : List NodeD) (hni : ∀ nd ∈ rs, nd.kind ≠ .interrupt) :
    ∀ (ns : GState) (log : List Log) (ns' : GState) (log' : List Log),
      stepSync nested sem gi g runSpan k s rs ns log = .ok ns' log' →
      log' = log ++ (rs.map (asyncOne₂ nested sem gi g runSpan k s)).flatMap (·.out.log) := by
  induction rs with
  | nil =>
    intro ns log ns' log' h
    simp only [stepSync, StepOut.ok.injEq] at h
    simp [h.2]
  | cons nd rest ih =>
    intro ns log ns' log' h
    have hk : nd.kind ≠ .interrupt := hni nd (List.mem_cons_self ..)
    have ih' := ih (fun x hx => hni x (List.mem_cons_of_mem _ hx))
    rw [stepSync_cons] at h
    cases hc : collectInputs g s nd nd.inputs with
    | none => simp [hc] at h
    | some inputs =>
      have hlog : (asyncOne₂ nested sem gi g runSpan k s nd).out.log =
          (let sp := nodeSpanOf runSpan k nd
           let out := execNode nested sem gi nd inputs s sp
           [Log.ev { kind := "NodeStart", span := sp, parent := some runSpan, name := nd.name }] ++ out.log ++
            (match out.pause, out.res with
              | some _, _ => []
              | .none, .ok _ => routeEvent runSpan k nd (match out.dec with
                    | some d => { s with decisions := AL.put s.decisions nd.name d }
                    | .none => s) ++
                  [.ev { kind := "NodeEnd", span := sp, parent := some runSpan, name := nd.name }]
              | .none, .error _ => [.ev { kind := "NodeError", span := sp, parent := some runSpan, name := nd.name }])) := by
        simp only [asyncOne₂, hc]
      simp only [hc] at h
      rw [execNode_indep nested sem gi nd inputs ns s _ hk] at h
      have hgate := execNode_gate_dec nested sem gi nd inputs s (nodeSpanOf runSpan k nd)
      simp only [List.map_cons, List.flatMap_cons, hlog]
      generalize execNode nested sem gi nd inputs s (nodeSpanOf runSpan k nd) = out at h hgate ⊢
      cases hp : out.pause with
      | some p => simp [hp] at h
      | none =>
        cases hr : out.res with
        | error e => simp [hp, hr] at h
        | ok outs =>
          simp only [hp, hr] at h
          have := ih' _ _ _ _ h
          rw [this]
          rw [routeEvent_eq_of_gate_dec runSpan k nd ns s out.dec (fun hg => hgate outs hg hr)]
          simp only [List.append_assoc]

/-- sync succeeded ⇒ async with the identity order returns the very same state and log -/
theorem stepSync_ok_async_id (rs : List NodeD) (hni : ∀ nd ∈ rs, nd.kind ≠ .interrupt)
    (ns : GState) (log : List Log)
    (hsync : stepSync nested sem gi g runSpan k s rs s [] = .ok ns log) :
    stepAsync nested sem gi g runSpan k (List.range rs.length) s rs = .ok ns log := by
  have habs := stepSync_abs nested sem gi g runSpan k s rs hni s []
  rw [hsync] at habs
  obtain ⟨hgood, hns⟩ := (syncAbs_char nested sem gi g runSpan k s rs s).1 ns habs.symm
  have hlog := stepSync_log_of_ok nested sem gi g runSpan k s rs hni _ _ _ _ hsync
  rw [stepAsync_of_all_good nested sem gi g runSpan k _ s rs hni hgood]
  have hperm : permute (rs.map (asyncOne₂ nested sem gi g runSpan k s)) (List.range rs.length) =
      rs.map (asyncOne₂ nested sem gi g runSpan k s) := by
    have := permute_range (rs.map (asyncOne₂ nested sem gi g runSpan k s))
    rwa [List.length_map] at this
  rw [hperm, hns, hlog, foldl_bothStep]
  simp

/-- sync failed ⇒ async fails with the same error; the values of both partial states as dict merges -/
theorem first_error_core (rs : List NodeD) (hni : ∀ nd ∈ rs, nd.kind ≠ .interrupt)
    (e : ErrId) (ps : GState) (log : List Log) (order : List Nat)
    (hsync : stepSync nested sem gi g runSpan k s rs s [] = .fail e ps log) :
    ∃ pre bad post ps' log', rs = pre ++ bad :: post ∧
      stepAsync nested sem gi g runSpan k order s rs = .fail e ps' log' ∧
      ps'.values = AL.merge s.values (writes (pre.map (asyncOne₂ nested sem gi g runSpan k s)) ++
                                     writes (post.map (asyncOne₂ nested sem gi g runSpan k s))) ∧
      (ps.values = s.values ∨
        ps.values = AL.merge s.values (writes (pre.map (asyncOne₂ nested sem gi g runSpan k s)))) := by
  have habs := stepSync_abs nested sem gi g runSpan k s rs hni s []
  rw [hsync] at habs
  obtain ⟨pre, bad, post, hrs, hpre, hbp, hbr, hps⟩ :=
    (syncAbs_char nested sem gi g runSpan k s rs s).2.1 e ps habs.symm
  have hbad : isBad (asyncOne₂ nested sem gi g runSpan k s bad) = true := isBad_of_error hbr
  refine ⟨pre, bad, post,
    (rs.map (asyncOne₂ nested sem gi g runSpan k s)).foldl (valStep s)
      ((permute (rs.map (asyncOne₂ nested sem gi g runSpan k s)) order).foldl decStep s),
    (permute (rs.map (asyncOne₂ nested sem gi g runSpan k s)) order).flatMap (·.out.log), hrs, ?_, ?_, ?_⟩
  · rw [stepAsync_eq, asyncRs_of_no_interrupt hni]
    simp only
    have hf : (rs.map (asyncOne₂ nested sem gi g runSpan k s)).find? isBad =
        some (asyncOne₂ nested sem gi g runSpan k s bad) := by
      rw [hrs, List.map_append, List.map_cons]
      exact find?_isBad_decomp _ _ _ hpre hbad
    rw [hf]
    simp only [hbp, hbr]
  · rw [async_state_eq, GState.withDec_values, foldl_valStep_values, hrs, List.map_append, List.map_cons,
      writes_append, writes_cons_bad hbad]
  · rcases hps with rfl | rfl
    · exact Or.inl rfl
    · right
      rw [decStep_values, foldl_bothStep_values]

end

/-- no two nodes of the ready list share an output name -/
def DisjointOutputs (rs : List NodeD) : Prop :=
  rs.Pairwise fun a b => ∀ o ∈ a.outputs, o ∉ b.outputs

/-- no output of a ready node is already present in the snapshot (every node of a DAG run) -/
def FreshOutputs (s : GState) (rs : List NodeD) : Prop :=
  ∀ nd ∈ rs, ∀ o ∈ nd.outputs, AL.get? s.values o = none

/-- executable check of `DisjointOutputs` (for concrete examples) -/
def disjointOutputsB : List NodeD → Bool
  | [] => true
  | a :: t => (t.all fun b => a.outputs.all fun o => !b.outputs.contains o) && disjointOutputsB t

theorem disjointOutputs_of_check : ∀ rs : List NodeD, disjointOutputsB rs = true → DisjointOutputs rs
  | [], _ => List.Pairwise.nil
  | a :: t, h => by
    simp only [disjointOutputsB, Bool.and_eq_true, List.all_eq_true] at h
    apply List.Pairwise.cons
    · intro b hb o ho
      have := h.1 b hb o ho
      simpa using this
    · exact disjointOutputs_of_check t h.2

/-! ## the ready set: congruence under `GState.equiv` -/

/-- the decisions dict is a well-formed dict: keys pairwise distinct -/
def GState.WF (s : GState) : Prop := (AL.keys s.decisions).Nodup

theorem initState_wf (values : AL Val) : (initState values).WF := by
  unfold GState.WF initState
  rw [GState.applyOutputs_decisions]
  exact List.nodup_nil

/-- one gate of `clearStale`, on the decisions dict alone (`a` supplies versions and execs) -/
def csD (g : GraphD) (a : GState) (D : AL Dec) (nd : NodeD) : AL Dec :=
  if nd.isGate then
    match AL.get? D nd.name with
    | .none => D
    | some .end_ => D
    | some _ => if needsExec g a nd then AL.del D nd.name else D
  else D

theorem clearStale_foldl_withDec (g : GraphD) (a : GState) (l : List NodeD) (D : AL Dec) :
    l.foldl (fun st nd =>
      if nd.isGate then
        match AL.get? st.decisions nd.name with
        | .none => st
        | some .end_ => st
        | some _ => if needsExec g st nd then { st with decisions := AL.del st.decisions nd.name } else st
      else st) (a.withDec D) = a.withDec (l.foldl (csD g a) D) := by
  induction l generalizing D with
  | nil => rfl
  | cons nd t ih =>
    simp only [List.foldl_cons]
    have : (if nd.isGate then
        match AL.get? (a.withDec D).decisions nd.name with
        | .none => a.withDec D
        | some .end_ => a.withDec D
        | some _ => if needsExec g (a.withDec D) nd then
            { (a.withDec D) with decisions := AL.del (a.withDec D).decisions nd.name } else a.withDec D
      else a.withDec D) = a.withDec (csD g a D nd) := by
      unfold csD
      simp only [GState.withDec_decisions]
      have hne : needsExec g (a.withDec D) nd = needsExec g a nd := rfl
      rw [hne]
      split
      · split
        · rfl
        · rfl
        · split <;> rfl
      · rfl
    rw [this, ih]

theorem clearStale_withDec (g : GraphD) (a : GState) (D : AL Dec) :
    clearStale g (a.withDec D) = a.withDec (g.nodes.foldl (csD g a) D) :=
  clearStale_foldl_withDec g a g.nodes D

theorem clearStale_eq₂ (g : GraphD) (a : GState) :
    clearStale g a = a.withDec (g.nodes.foldl (csD g a) a.decisions) := by
  have := clearStale_withDec g a a.decisions
  rwa [GState.withDec_self] at this

theorem csD_same (g : GraphD) (a : GState) {D D' : AL Dec} (h : AL.Same D D')
    (hD : (AL.keys D).Nodup) (hD' : (AL.keys D').Nodup) (nd : NodeD) :
    AL.Same (csD g a D nd) (csD g a D' nd) := by
  unfold csD
  rw [h nd.name]
  split
  · split
    · exact h
    · exact h
    · split
      · exact h.del hD hD' _
      · exact h
  · exact h

theorem csD_nodup (g : GraphD) (a : GState) {D : AL Dec} (hD : (AL.keys D).Nodup) (nd : NodeD) :
    (AL.keys (csD g a D nd)).Nodup := by
  unfold csD
  split
  · split
    · exact hD
    · exact hD
    · split
      · exact AL.nodup_keys_del₂ _ _ hD
      · exact hD
  · exact hD

theorem foldl_csD_nodup (g : GraphD) (a : GState) (l : List NodeD) {D : AL Dec} (hD : (AL.keys D).Nodup) :
    (AL.keys (l.foldl (csD g a) D)).Nodup := by
  induction l generalizing D with
  | nil => exact hD
  | cons nd t ih => exact ih (csD_nodup g a hD nd)

theorem foldl_csD_same (g : GraphD) (a : GState) (l : List NodeD) {D D' : AL Dec} (h : AL.Same D D')
    (hD : (AL.keys D).Nodup) (hD' : (AL.keys D').Nodup) :
    AL.Same (l.foldl (csD g a) D) (l.foldl (csD g a) D') := by
  induction l generalizing D D' with
  | nil => exact h
  | cons nd t ih => exact ih (csD_same g a h hD hD' nd) (csD_nodup g a hD nd) (csD_nodup g a hD' nd)

theorem clearStale_wf (g : GraphD) {a : GState} (ha : a.WF) : (clearStale g a).WF := by
  rw [clearStale_eq₂]
  exact foldl_csD_nodup g a g.nodes ha

theorem clearStale_congr (g : GraphD) {a b : GState} (h : GState.equiv a b) (ha : a.WF) (hb : b.WF) :
    GState.equiv (clearStale g a) (clearStale g b) := by
  obtain ⟨hb', hD⟩ := GState.equiv_iff_withDec.mp h
  rw [hb', clearStale_withDec, clearStale_eq₂]
  exact GState.equiv_withDec a (foldl_csD_same g a g.nodes hD ha hb)

theorem isReady_withDec (g : GraphD) (a : GState) (D : AL Dec) (nd : NodeD) :
    isReady g (a.withDec D) nd =
      (activated g (a.withDec D) nd.name && nd.inputs.all (hasInput g a nd) && waitForSatisfied a nd &&
        needsExec g a nd) := rfl

theorem activated_congr (g : GraphD) {a b : GState} (h : GState.equiv a b) (n : Name) :
    activated g a n = activated g b n := by
  unfold activated
  simp only [h.2.2.1, h.2.2.2]

theorem isReady_congr (g : GraphD) {a b : GState} (h : GState.equiv a b) (nd : NodeD) :
    isReady g a nd = isReady g b nd := by
  obtain ⟨hb', _⟩ := GState.equiv_iff_withDec.mp h
  have h1 := isReady_withDec g a a.decisions nd
  rw [GState.withDec_self] at h1
  rw [h1, hb', isReady_withDec, ← hb', activated_congr g h]

/-- the part of `ready` after `clearStale` -/
def readyFrom (g : GraphD) (active : Option (List Name)) (s1 : GState) : List NodeD :=
  let cand := match active with
    | .none => g.nodes
    | some a => g.nodes.filter fun nd => a.contains nd.name
  let r0 := cand.filter (isReady g s1)
  let blocked := blockedTargets r0
  let r1 := r0.filter fun nd => !blocked.contains nd.name
  deferWaitFor r1

theorem ready_eq (g : GraphD) (active : Option (List Name)) (s : GState) :
    ready g active s = (readyFrom g active (clearStale g s), clearStale g s) := rfl

theorem readyFrom_congr (g : GraphD) (active : Option (List Name)) {a b : GState} (h : GState.equiv a b) :
    readyFrom g active a = readyFrom g active b := by
  have : isReady g a = isReady g b := funext (isReady_congr g h)
  unfold readyFrom
  rw [this]

theorem readyFrom_sublist (g : GraphD) (active : Option (List Name)) (s1 : GState) :
    (readyFrom g active s1).Sublist g.nodes := by
  unfold readyFrom deferWaitFor
  simp only
  refine List.filter_sublist.trans (List.filter_sublist.trans (List.filter_sublist.trans ?_))
  cases active with
  | none => exact List.Sublist.refl _
  | some a => exact List.filter_sublist

theorem ready_sublist (g : GraphD) (active : Option (List Name)) (s : GState) :
    (ready g active s).1.Sublist g.nodes := readyFrom_sublist g active _

/-- scheduler congruence on well-formed states -/
theorem ready_congr_wf (g : GraphD) (active : Option (List Name)) {a b : GState}
    (h : GState.equiv a b) (ha : a.WF) (hb : b.WF) :
    (ready g active a).1 = (ready g active b).1 ∧
      GState.equiv (ready g active a).2 (ready g active b).2 ∧
      (ready g active a).2.WF ∧ (ready g active b).2.WF := by
  have hcs := clearStale_congr g h ha hb
  rw [ready_eq, ready_eq]
  exact ⟨readyFrom_congr g active hcs, hcs, clearStale_wf g ha, clearStale_wf g hb⟩

/-! ## the ready set under a permutation of the node list -/

theorem find?_isSome_eq_any {α} (p : α → Bool) (l : List α) : (l.find? p).isSome = l.any p := by
  induction l with
  | nil => rfl
  | cons a t ih =>
    simp only [List.find?_cons, List.any_cons]
    cases p a <;> simp [ih]

theorem nodup_map_inj {α β} (f : α → β) : ∀ {l : List α}, (l.map f).Nodup →
    ∀ x ∈ l, ∀ y ∈ l, f x = f y → x = y
  | [], _, x, hx, _, _, _ => by cases hx
  | a :: t, h, x, hx, y, hy, hxy => by
    simp only [List.map_cons, List.nodup_cons, List.mem_map, not_exists, not_and] at h
    simp only [List.mem_cons] at hx hy
    rcases hx with rfl | hx <;> rcases hy with rfl | hy
    · rfl
    · exact absurd hxy.symm (h.1 y hy)
    · exact absurd hxy (h.1 x hx)
    · exact nodup_map_inj f h.2 x hx y hy hxy

namespace AL
variable {α : Type}
theorem del_comm (m : AL α) {a b : Name} (h : a ≠ b) : del (del m a) b = del (del m b) a := by
  induction m with
  | nil => rfl
  | cons hd t ih =>
    obtain ⟨k, w⟩ := hd
    by_cases ha : a = k
    · subst ha
      have hb : ¬ b = a := fun e => h e.symm
      simp [del, hb]
    · by_cases hb : b = k
      · subst hb
        simp [del, ha]
      · simp [del, ha, hb, ih]
end AL

section
variable {g g' : GraphD} (hp : g.nodes.Perm g'.nodes) (hspec : g'.spec.bound = g.spec.bound)
include hp

theorem findNode_isSome_perm (n : Name) : (findNode g.nodes n).isSome = (findNode g'.nodes n).isSome := by
  unfold findNode
  rw [find?_isSome_eq_any, find?_isSome_eq_any]
  exact hp.any_eq

theorem controlledBy_perm (n : Name) : (controlledBy g.nodes n).Perm (controlledBy g'.nodes n) := by
  unfold controlledBy
  rw [findNode_isSome_perm hp n]
  exact hp.filter _

theorem isGated_perm (nd : NodeD) : isGated g nd = isGated g' nd := by
  unfold isGated
  rw [(controlledBy_perm hp nd.name).isEmpty_eq]

theorem needsExec_perm (s : GState) (nd : NodeD) : needsExec g s nd = needsExec g' s nd := by
  unfold needsExec isStale
  rw [isGated_perm hp nd]

theorem csD_perm (a : GState) : csD g a = csD g' a := by
  funext D nd
  unfold csD
  rw [needsExec_perm hp a nd]

theorem activated_perm (s : GState) (n : Name) : activated g s n = activated g' s n := by
  unfold activated
  simp only
  rw [(controlledBy_perm hp n).isEmpty_eq, (controlledBy_perm hp n).any_eq]

end

/-- does `clearStale` drop the decision of gate `nd`? reads the dict at `nd.name` only -/
def csCond (g : GraphD) (a : GState) (D : AL Dec) (nd : NodeD) : Bool :=
  nd.isGate && (match AL.get? D nd.name with
    | .none => false
    | some .end_ => false
    | some _ => needsExec g a nd)

theorem csD_eq_ite (g : GraphD) (a : GState) (D : AL Dec) (nd : NodeD) :
    csD g a D nd = if csCond g a D nd then AL.del D nd.name else D := by
  unfold csD csCond
  cases nd.isGate
  · simp
  · simp only [if_true, Bool.true_and]
    split
    · simp
    · simp
    · rfl

theorem csCond_del_other (g : GraphD) (a : GState) (D : AL Dec) (u v : NodeD) (h : u.name ≠ v.name) :
    csCond g a (AL.del D u.name) v = csCond g a D v := by
  unfold csCond
  rw [AL.get?_del_other _ _ _ (fun e => h e.symm)]

/-- clearing two gates with different names commutes (exactly) -/
theorem csD_comm (g : GraphD) (a : GState) (D : AL Dec) (x y : NodeD) (h : x.name ≠ y.name) :
    csD g a (csD g a D x) y = csD g a (csD g a D y) x := by
  rw [csD_eq_ite g a D x, csD_eq_ite g a D y]
  cases hx : csCond g a D x <;> cases hy : csCond g a D y <;>
    simp only [if_true, if_false, Bool.false_eq_true]
  · rw [csD_eq_ite, csD_eq_ite, hx, hy]
    simp
  · rw [csD_eq_ite, hy, csD_eq_ite, csCond_del_other g a D y x (fun e => h e.symm), hx]
    simp
  · rw [csD_eq_ite, csCond_del_other g a D x y h, hy, csD_eq_ite, hx]
    simp
  · rw [csD_eq_ite, csCond_del_other g a D x y h, hy, csD_eq_ite,
      csCond_del_other g a D y x (fun e => h e.symm), hx]
    simp only [if_true]
    exact AL.del_comm D h

section
variable {g g' : GraphD} (hp : g.nodes.Perm g'.nodes) (hspec : g'.spec.bound = g.spec.bound)
  (hnd : (g.nodes.map (·.name)).Nodup)
include hp hnd

/-- with unique node names `clearStale` does not depend on the order of the node list -/
theorem clearStale_perm (s : GState) : clearStale g s = clearStale g' s := by
  rw [clearStale_eq₂, clearStale_eq₂, ← csD_perm hp s]
  congr 1
  apply hp.foldl_eq'
  intro x hx y hy D
  by_cases hxy : x.name = y.name
  · have := nodup_map_inj (·.name) hnd x hx y hy hxy
    subst this; rfl
  · exact csD_comm g s D x y hxy

include hspec

omit hnd in
theorem isReady_perm (s : GState) (nd : NodeD) : isReady g s nd = isReady g' s nd := by
  unfold isReady
  rw [activated_perm hp s nd.name, needsExec_perm hp s nd]
  have : hasInput g s nd = hasInput g' s nd := by
    funext q; unfold hasInput; rw [hspec]
  rw [this]

end

theorem blockedTargets_perm {l l' : List NodeD} (h : l.Perm l') : (blockedTargets l).Perm (blockedTargets l') := by
  unfold blockedTargets
  exact (h.filter _).flatMap_right _

theorem deferWaitFor_perm {l l' : List NodeD} (h : l.Perm l') : (deferWaitFor l).Perm (deferWaitFor l') := by
  unfold deferWaitFor
  have : (fun nd : NodeD => !(nd.waitFor.any fun w => l.any fun other => other.name != nd.name && other.outputs.contains w)) =
      (fun nd : NodeD => !(nd.waitFor.any fun w => l'.any fun other => other.name != nd.name && other.outputs.contains w)) := by
    funext nd
    congr 2
    funext w
    exact h.any_eq
  rw [this]
  exact h.filter _

/-- the ready list of a graph with permuted node list is a permutation of the original one -/
theorem ready_perm_core {g g' : GraphD} (hp : g.nodes.Perm g'.nodes) (hspec : g'.spec.bound = g.spec.bound)
    (hnd : (g.nodes.map (·.name)).Nodup) (active : Option (List Name)) (s : GState) :
    (ready g active s).1.Perm (ready g' active s).1 ∧ (ready g active s).2 = (ready g' active s).2 := by
  rw [ready_eq, ready_eq, ← clearStale_perm hp hnd s]
  refine ⟨?_, rfl⟩
  simp only
  unfold readyFrom
  simp only
  have hready : isReady g (clearStale g s) = isReady g' (clearStale g s) :=
    funext (isReady_perm hp hspec (clearStale g s))
  rw [← hready]
  have hcand : (match active with
      | .none => g.nodes
      | some a => g.nodes.filter fun nd => a.contains nd.name).Perm
      (match active with
      | .none => g'.nodes
      | some a => g'.nodes.filter fun nd => a.contains nd.name) := by
    cases active with
    | none => exact hp
    | some a => exact hp.filter _
  have hr0 := hcand.filter (isReady g (clearStale g s))
  apply deferWaitFor_perm
  have hb := (blockedTargets_perm hr0)
  have : (fun nd : NodeD => !(blockedTargets ((match active with
      | .none => g.nodes
      | some a => g.nodes.filter fun nd => a.contains nd.name).filter (isReady g (clearStale g s)))).contains nd.name) =
      (fun nd : NodeD => !(blockedTargets ((match active with
      | .none => g'.nodes
      | some a => g'.nodes.filter fun nd => a.contains nd.name).filter (isReady g (clearStale g s)))).contains nd.name) := by
    funext nd
    rw [hb.contains_eq]
  rw [this]
  exact hr0.filter _

/-! ## whole runs (flat programs) -/

theorem execNode_nested_indep (nested nested' : Nested) (sem : Sem) (gi : Nat) (nd : NodeD) (inputs : AL Val)
    (ns : GState) (sp : Span) (h : nd.kind ≠ .graph) :
    execNode nested sem gi nd inputs ns sp = execNode nested' sem gi nd inputs ns sp := by
  unfold execNode
  cases hk : nd.kind <;> simp_all

theorem asyncOne_nested_indep (nested nested' : Nested) (sem : Sem) (gi : Nat) (g : GraphD) (runSpan : Span)
    (k : Nat) (s : GState) (nd : NodeD) (h : nd.kind ≠ .graph) :
    asyncOne₂ nested sem gi g runSpan k s nd = asyncOne₂ nested' sem gi g runSpan k s nd := by
  unfold asyncOne₂
  cases collectInputs g s nd nd.inputs with
  | none => rfl
  | some inputs =>
    simp only
    rw [execNode_nested_indep nested nested' sem gi nd inputs s _ h]

theorem stepAsync_nested_flat (nested nested' : Nested) (sem : Sem) (gi : Nat) (g : GraphD) (runSpan : Span)
    (k : Nat) (order : List Nat) (s : GState) (rs : List NodeD)
    (hni : ∀ nd ∈ rs, nd.kind ≠ .interrupt) (hflat : ∀ nd ∈ rs, nd.kind ≠ .graph) :
    stepAsync nested sem gi g runSpan k order s rs = stepAsync nested' sem gi g runSpan k order s rs := by
  rw [stepAsync_eq, stepAsync_eq, asyncRs_of_no_interrupt hni]
  have : rs.map (asyncOne₂ nested sem gi g runSpan k s) = rs.map (asyncOne₂ nested' sem gi g runSpan k s) := by
    apply List.map_congr_left
    intro nd hnd
    exact asyncOne_nested_indep nested nested' sem gi g runSpan k s nd (hflat nd hnd)
  rw [this]

theorem async_ns2_wf (s : GState) (R P : List AsyncOne) (hs : s.WF) :
    (R.foldl (valStep s) (P.foldl decStep s)).WF := by
  rw [async_state_eq]
  exact foldl_decPut_nodup _ _ hs

theorem stepAsync_ok_wf (nested : Nested) (sem : Sem) (gi : Nat) (g : GraphD) (runSpan : Span)
    (k : Nat) (order : List Nat) (s : GState) (rs : List NodeD) (ns : GState) (l : List Log)
    (h : stepAsync nested sem gi g runSpan k order s rs = .ok ns l) (hs : s.WF) : ns.WF := by
  rw [stepAsync_eq] at h
  simp only at h
  generalize (asyncRs₂ rs).map (asyncOne₂ nested sem gi g runSpan k s) = R at h
  have hw := async_ns2_wf s R (permute R order) hs
  cases hf : R.find? isBad with
  | none => simp only [hf] at h; cases h; exact hw
  | some r =>
    simp only [hf] at h
    split at h
    · cases h
    · cases h
    · cases h; exact hw

theorem filterOutputs_congr₂ (g : GraphD) {a b : GState} (h : a.values = b.values) (sel : Select) (om : OnMissing) :
    filterOutputs g a sel om = filterOutputs g b sel om := by
  unfold filterOutputs
  rw [h]

/-- two loop results that agree up to logs, decision order and (on failure / pause) the partial state -/
def LoopOut.Rel : LoopOut → LoopOut → Prop
  | .done a _ _, .done b _ _ => GState.equiv a b
  | .fail e _ _ _, .fail e' _ _ _ => e = e'
  | .pause p _ _ _, .pause p' _ _ _ => p = p'
  | _, _ => False

theorem StepOut.eq_of_abs_ok {Y : StepOut} {ns : GState} (h : Y.abs = .ok ns) : ∃ l, Y = .ok ns l := by
  cases Y with
  | ok a l => simp only [StepOut.abs, StepAbs.ok.injEq] at h; subst h; exact ⟨l, rfl⟩
  | fail _ _ _ => simp [StepOut.abs] at h
  | pause _ _ _ => simp [StepOut.abs] at h

theorem StepOut.eq_of_abs_fail {Y : StepOut} {e : ErrId} {ps : GState} (h : Y.abs = .fail e ps) :
    ∃ l, Y = .fail e ps l := by
  cases Y with
  | ok _ _ => simp [StepOut.abs] at h
  | fail e' a l =>
    simp only [StepOut.abs, StepAbs.fail.injEq] at h
    obtain ⟨h1, h2⟩ := h; subst h1; subst h2; exact ⟨l, rfl⟩
  | pause _ _ _ => simp [StepOut.abs] at h

theorem StepOut.eq_of_abs_pause {Y : StepOut} {p : PauseInfo} (h : Y.abs = .pause p) : ∃ ps l, Y = .pause p ps l := by
  cases Y with
  | ok _ _ => simp [StepOut.abs] at h
  | fail _ _ _ => simp [StepOut.abs] at h
  | pause p' ps l => simp only [StepOut.abs, StepAbs.pause.injEq] at h; subst h; exact ⟨ps, l, rfl⟩

/-- sync paused ⇒ async pauses with the same `PauseInfo` (the first bad node in ready order) -/
theorem pause_core (nested : Nested) (sem : Sem) (gi : Nat) (g : GraphD) (runSpan : Span) (k : Nat) (s : GState)
    (rs : List NodeD) (hni : ∀ nd ∈ rs, nd.kind ≠ .interrupt)
    (p : PauseInfo) (ps : GState) (log : List Log) (order : List Nat)
    (hsync : stepSync nested sem gi g runSpan k s rs s [] = .pause p ps log) :
    ∃ ps' log', stepAsync nested sem gi g runSpan k order s rs = .pause p ps' log' := by
  have habs := stepSync_abs nested sem gi g runSpan k s rs hni s []
  rw [hsync] at habs
  obtain ⟨pre, bad, post, hrs, hpre, hbp⟩ :=
    (syncAbs_char nested sem gi g runSpan k s rs s).2.2 p habs.symm
  have hbad : isBad (asyncOne₂ nested sem gi g runSpan k s bad) = true := isBad_of_pause hbp
  refine ⟨(rs.map (asyncOne₂ nested sem gi g runSpan k s)).foldl (valStep s)
      ((permute (rs.map (asyncOne₂ nested sem gi g runSpan k s)) order).foldl decStep s),
    (permute (rs.map (asyncOne₂ nested sem gi g runSpan k s)) order).flatMap (·.out.log), ?_⟩
  rw [stepAsync_eq, asyncRs_of_no_interrupt hni]
  simp only
  have hf : (rs.map (asyncOne₂ nested sem gi g runSpan k s)).find? isBad =
      some (asyncOne₂ nested sem gi g runSpan k s bad) := by
    rw [hrs, List.map_append, List.map_cons]
    exact find?_isBad_decomp _ _ _ hpre hbad
  rw [hf]
  simp only [hbp]

section
variable (nested nested' : Nested) (sem : Sem) (order : Nat → List Nat) (gi : Nat) (g : GraphD) (span : Span)
  (active : Option (List Name)) (maxIter : Nat)
  (hni : ∀ nd ∈ g.nodes, nd.kind ≠ .interrupt)
  (hnd : (g.nodes.map (·.name)).Nodup)
  (H : ∀ (k : Nat) (s : GState) (rs : List NodeD), rs.Sublist g.nodes →
    (stepAsync nested sem gi g span k (order k) s rs).abs =
      (stepAsync nested' sem gi g span k (order k) s rs).abs)
include hni hnd H

/-- the runner loops, sync with `nested` vs async with `nested'`, when the async step does not
distinguish `nested` from `nested'` (up to logs) -/
theorem runLoop_sync_async (fuel : Nat) : ∀ (k : Nat) (a b : GState) (la lb : List Log),
    GState.equiv a b → a.WF → b.WF →
    LoopOut.Rel
      (runLoop (fun k s rs => stepSync nested sem gi g span k s rs s []) g active maxIter fuel k a la)
      (runLoop (fun k s rs => stepAsync nested' sem gi g span k (order k) s rs) g active maxIter fuel k b lb) := by
  induction fuel with
  | zero =>
    intro k a b la lb h ha hb
    obtain ⟨hrs, heq, _, _⟩ := ready_congr_wf g active h ha hb
    simp only [runLoop]
    rw [← hrs]
    split
    · exact heq
    · trivial
  | succ fuel ih =>
    intro k a b la lb h ha hb
    obtain ⟨hrs, heq, hwa, hwb⟩ := ready_congr_wf g active h ha hb
    have hsub := ready_sublist g active a
    simp only [runLoop]
    generalize hra : ready g active a = ra at hrs heq hwa hsub
    generalize hrb : ready g active b = rb at hrs heq hwb
    obtain ⟨rs, s1a⟩ := ra
    obtain ⟨rs', s1b⟩ := rb
    simp only at hrs heq hwa hwb hsub
    subst hrs
    cases rs with
    | nil => exact heq
    | cons nd rest =>
      simp only
      generalize nd :: rest = rs at hra hrb hsub ⊢
      have hni' : ∀ x ∈ rs, x.kind ≠ .interrupt := fun x hx => hni x (hsub.subset hx)
      have hnd' : (rs.map (·.name)).Nodup := List.Nodup.sublist (hsub.map _) hnd
      have habs := H k s1b rs hsub
      cases hS : stepSync nested sem gi g span k s1a rs s1a [] with
      | ok ns l =>
        have hid := stepSync_ok_async_id nested sem gi g span k s1a rs hni' ns l hS
        have hc := (stepAsync_congr nested sem gi g span k (List.range rs.length) (order k) heq rs hnd').cases
        rw [hid] at hc
        rcases hc with ⟨a', la', b', lb', h1, h2, h3, h4⟩ | ⟨e, a', la', b', lb', h1, _⟩ | ⟨p, a', la', b', lb', h1, _⟩
        · cases h1
          rw [h2] at habs
          obtain ⟨l'', hY⟩ := StepOut.eq_of_abs_ok habs.symm
          rw [hY]
          simp only
          exact ih (k + 1) ns b' _ _ h3
            (stepAsync_ok_wf nested sem gi g span k _ s1a rs ns l hid hwa)
            (stepAsync_ok_wf nested' sem gi g span k _ s1b rs b' l'' hY hwb)
        · cases h1
        · cases h1
      | fail e ps l =>
        obtain ⟨_, _, _, ps', log', _, hasync, _, _⟩ :=
          first_error_core nested sem gi g span k s1a rs hni' e ps l (order k) hS
        have hc := (stepAsync_congr nested sem gi g span k (order k) (order k) heq rs hnd').cases
        rw [hasync] at hc
        rcases hc with ⟨a', la', b', lb', h1, _⟩ | ⟨e', a', la', b', lb', h1, h2, _⟩ | ⟨p, a', la', b', lb', h1, _⟩
        · cases h1
        · cases h1
          rw [h2] at habs
          obtain ⟨l'', hY⟩ := StepOut.eq_of_abs_fail habs.symm
          rw [hY]
          simp only [LoopOut.Rel]
        · cases h1
      | pause p ps l =>
        obtain ⟨ps', log', hasync⟩ := pause_core nested sem gi g span k s1a rs hni' p ps l (order k) hS
        have hc := (stepAsync_congr nested sem gi g span k (order k) (order k) heq rs hnd').cases
        rw [hasync] at hc
        rcases hc with ⟨a', la', b', lb', h1, _⟩ | ⟨e', a', la', b', lb', h1, _⟩ | ⟨p', a', la', b', lb', h1, h2, _⟩
        · cases h1
        · cases h1
        · cases h1
          rw [h2] at habs
          obtain ⟨ps'', l'', hY⟩ := StepOut.eq_of_abs_pause habs.symm
          rw [hY]
          simp only [LoopOut.Rel]
end

/-- `runGraph` after the loop: output filtering, run-end event, error handling mode -/
def finishRun₂ (g : GraphD) (cfg : RunCfg) (span : Span) (parent : Option Span) (lo : LoopOut) : RunOut :=
  let shut : List Log := if parent.isNone then [.shutdown] else []
  let failWith (e : ErrId) (partialState : Option GState) (log : List Log) : RunOut :=
    let log := log ++ [runEndEv span parent g "failed"] ++ shut
    match cfg.errMode with
    | .raise => { status := .failed, error := some e, raised := true, log := log }
    | .cont =>
      let vals := match partialState with
        | .none => []
        | some ps => match filterOutputs g ps cfg.select .ignore with
          | .ok (v, _) => v
          | .error _ => []
      { status := .failed, values := vals, error := some e, log := log }
  match lo with
  | .done s log _ =>
    match filterOutputs g s cfg.select cfg.onMissing with
    | .ok (vals, w) =>
      { status := .completed, values := vals, warnings := w
        log := log ++ [runEndEv span parent g "completed"] ++ shut }
    | .error e => failWith e .none log
  | .fail e ps log _ => failWith e (some ps) log
  | .pause p ps log _ =>
    let vals := match filterOutputs g ps cfg.select .ignore with
      | .ok (v, _) => v
      | .error _ => []
    { status := .paused, values := vals, pause := some p, log := log ++ shut }

theorem runGraph_sync_eq (nested : Nested) (sem : Sem) (gi : Nat) (g : GraphD)
    (values : AL Val) (cfg : RunCfg) (span : Span) (parent : Option Span) :
    runGraph nested sem .sync gi g values cfg span parent =
      finishRun₂ g cfg span parent
        (runLoop (fun k s rs => stepSync nested sem gi g span k s rs s []) g (activeNodeSet g)
          cfg.maxIter cfg.maxIter 0 (initState values) [runStartEv span parent g ""]) := rfl

theorem runGraph_async_eq (nested : Nested) (sem : Sem) (order : Nat → List Nat) (gi : Nat) (g : GraphD)
    (values : AL Val) (cfg : RunCfg) (span : Span) (parent : Option Span) :
    runGraph nested sem (.async order) gi g values cfg span parent =
      finishRun₂ g cfg span parent
        (runLoop (fun k s rs => stepAsync nested sem gi g span k (order k) s rs) g (activeNodeSet g)
          cfg.maxIter cfg.maxIter 0 (initState values) [runStartEv span parent g ""]) := rfl

/-- the observable agreement of two runs: status, error, raised, pause; values unless the run failed
in `continue` mode or paused (then the partial states differ: async lets the siblings of the failing /
pausing node finish and reports their outputs, the sync step reports its snapshot) -/
def RunOut.Agree (errMode : ErrMode) (a b : RunOut) : Prop :=
  a.status = b.status ∧ a.error = b.error ∧ a.raised = b.raised ∧ a.pause = b.pause ∧
    ((a.status ≠ .failed ∨ errMode = .raise) → a.status ≠ .paused → a.values = b.values)

theorem finishRun_rel (g : GraphD) (cfg : RunCfg) (span : Span) (parent : Option Span) {x y : LoopOut}
    (h : LoopOut.Rel x y) :
    RunOut.Agree cfg.errMode (finishRun₂ g cfg span parent x) (finishRun₂ g cfg span parent y) := by
  cases x with
  | done a la ka =>
    cases y with
    | done b lb kb =>
      have hv : filterOutputs g a cfg.select cfg.onMissing = filterOutputs g b cfg.select cfg.onMissing :=
        filterOutputs_congr₂ g h.1 _ _
      simp only [finishRun₂, hv]
      cases filterOutputs g b cfg.select cfg.onMissing with
      | ok vw => exact ⟨rfl, rfl, rfl, rfl, fun _ _ => rfl⟩
      | error e =>
        simp only
        cases cfg.errMode <;> exact ⟨rfl, rfl, rfl, rfl, fun _ _ => rfl⟩
    | fail _ _ _ _ => exact h.elim
    | pause _ _ _ _ => exact h.elim
  | fail e pa la ka =>
    cases y with
    | done _ _ _ => exact h.elim
    | fail e' pb lb kb =>
      have he : e = e' := h
      subst he
      simp only [finishRun₂]
      cases hm : cfg.errMode with
      | raise => exact ⟨rfl, rfl, rfl, rfl, fun _ _ => rfl⟩
      | cont =>
        refine ⟨rfl, rfl, rfl, rfl, ?_⟩
        intro hc _
        rcases hc with hc | hc
        · exact absurd rfl hc
        · cases hc
    | pause _ _ _ _ => exact h.elim
  | pause p pa la ka =>
    cases y with
    | done _ _ _ => exact h.elim
    | fail _ _ _ _ => exact h.elim
    | pause p' pb lb kb =>
      have hp : p = p' := h
      subst hp
      simp only [finishRun₂]
      exact ⟨rfl, rfl, rfl, rfl, fun _ hnp => absurd rfl hnp⟩

/-- whole runs, given that the async step does not distinguish `nested` from `nested'` -/
theorem runGraph_sync_async (nested nested' : Nested) (sem : Sem) (order : Nat → List Nat) (gi : Nat) (g : GraphD)
    (values : AL Val) (cfg : RunCfg) (span : Span) (parent : Option Span)
    (hni : ∀ nd ∈ g.nodes, nd.kind ≠ .interrupt) (hnd : (g.nodes.map (·.name)).Nodup)
    (H : ∀ (k : Nat) (s : GState) (rs : List NodeD), rs.Sublist g.nodes →
      (stepAsync nested sem gi g span k (order k) s rs).abs =
        (stepAsync nested' sem gi g span k (order k) s rs).abs) :
    RunOut.Agree cfg.errMode (runGraph nested sem .sync gi g values cfg span parent)
      (runGraph nested' sem (.async order) gi g values cfg span parent) := by
  rw [runGraph_sync_eq, runGraph_async_eq]
  apply finishRun_rel
  exact runLoop_sync_async nested nested' sem order gi g span (activeNodeSet g) cfg.maxIter hni hnd H
    cfg.maxIter 0 _ _ _ _ (GState.equiv.refl _) (initState_wf values) (initState_wf values)

/-- whole runs of a flat (no nested-graph node), interrupt-free graph with unique node names -/
theorem runGraph_flat (nested nested' : Nested) (sem : Sem) (order : Nat → List Nat) (gi : Nat) (g : GraphD)
    (values : AL Val) (cfg : RunCfg) (span : Span) (parent : Option Span)
    (hflat : ∀ nd ∈ g.nodes, nd.kind ≠ .graph) (hni : ∀ nd ∈ g.nodes, nd.kind ≠ .interrupt)
    (hnd : (g.nodes.map (·.name)).Nodup) :
    RunOut.Agree cfg.errMode (runGraph nested sem .sync gi g values cfg span parent)
      (runGraph nested' sem (.async order) gi g values cfg span parent) := by
  apply runGraph_sync_async nested nested' sem order gi g values cfg span parent hni hnd
  intro k s rs hsub
  rw [stepAsync_nested_flat nested nested' sem gi g span k (order k) s rs
    (fun x hx => hni x (hsub.subset hx)) (fun x hx => hflat x (hsub.subset hx))]

/-! ## whole runs with nested-graph nodes: nested callbacks that agree up to logs -/

/-- two results of the same nested `run` call that agree on everything but the log / warnings -/
def RunOut.Same (a b : RunOut) : Prop :=
  a.status = b.status ∧ a.values = b.values ∧ a.error = b.error ∧ a.raised = b.raised ∧ a.pause = b.pause

/-- two results for one `map` item: the values of a failed item are not compared -/
def ItemSame (a b : RunOut) : Prop :=
  a.status = b.status ∧ a.error = b.error ∧ (a.status ≠ .failed → a.values = b.values)

inductive ItemsSame : List RunOut → List RunOut → Prop
  | nil : ItemsSame [] []
  | cons {a b : RunOut} {as bs : List RunOut} : ItemSame a b → ItemsSame as bs → ItemsSame (a :: as) (b :: bs)

def MapOut.Same (a b : MapOut) : Prop :=
  a.raised = b.raised ∧ (a.raised = none → ItemsSame a.results b.results)

structure Nested.Agree (n n' : Nested) : Prop where
  run : ∀ gi v sp, RunOut.Same (n.run gi v sp) (n'.run gi v sp)
  map : ∀ gi v mo mode em sp, MapOut.Same (n.map gi v mo mode em sp) (n'.map gi v mo mode em sp)

theorem ItemsSame.refl : ∀ l : List RunOut, ItemsSame l l
  | [] => .nil
  | _ :: t => .cons ⟨rfl, rfl, fun _ => rfl⟩ (ItemsSame.refl t)

theorem Nested.Agree.refl (n : Nested) : Nested.Agree n n :=
  ⟨fun _ _ _ => ⟨rfl, rfl, rfl, rfl, rfl⟩, fun _ _ _ _ _ _ => ⟨rfl, fun _ => ItemsSame.refl _⟩⟩

theorem collectAsLists_go_congr (nd : NodeD) {rs rs' : List RunOut} (h : ItemsSame rs rs') :
    ∀ acc, collectAsLists.go nd rs acc = collectAsLists.go nd rs' acc := by
  induction h with
  | nil => intro acc; rfl
  | @cons a _ _ _ hab _ ih =>
    intro acc
    obtain ⟨h1, h2, h3⟩ := hab
    simp only [collectAsLists.go]
    rw [← h1, ← h2]
    cases hb : (a.status == Status.failed) with
    | true =>
      simp only [if_true]
      cases nd.errMode with
      | raise => rfl
      | cont => exact ih _
    | false =>
      simp only [Bool.false_eq_true, if_false]
      have hf : a.status ≠ .failed := by
        intro e; rw [e] at hb; simp at hb
      rw [← h3 hf]
      exact ih _

theorem collectAsLists_congr (nd : NodeD) {rs rs' : List RunOut} (h : ItemsSame rs rs') :
    collectAsLists nd rs = collectAsLists nd rs' := by
  unfold collectAsLists
  rw [collectAsLists_go_congr nd h]

theorem execGraphNode_agree {n n' : Nested} (h : Nested.Agree n n') (nd : NodeD) (inputs : AL Val) (sp : Span) :
    (execGraphNode n nd inputs sp).res = (execGraphNode n' nd inputs sp).res ∧
    (execGraphNode n nd inputs sp).dec = (execGraphNode n' nd inputs sp).dec ∧
    (execGraphNode n nd inputs sp).pause = (execGraphNode n' nd inputs sp).pause := by
  unfold execGraphNode
  simp only
  split
  · obtain ⟨hr, hres⟩ := h.map nd.inner (toParams nd inputs)
      (nd.mapOver.map fun p => (AL.get? nd.origIn p).getD p) nd.mapMode nd.errMode sp
    generalize n.map nd.inner (toParams nd inputs) (nd.mapOver.map fun p => (AL.get? nd.origIn p).getD p)
      nd.mapMode nd.errMode sp = m at hr hres
    generalize n'.map nd.inner (toParams nd inputs) (nd.mapOver.map fun p => (AL.get? nd.origIn p).getD p)
      nd.mapMode nd.errMode sp = m' at hr hres
    rw [← hr]
    cases hm : m.raised with
    | some e => exact ⟨rfl, rfl, rfl⟩
    | none =>
      simp only
      rw [← collectAsLists_congr nd (hres hm)]
      cases collectAsLists nd m.results <;> exact ⟨rfl, rfl, rfl⟩
  · obtain ⟨h1, h2, h3, h4, h5⟩ := h.run nd.inner (toParams nd inputs) sp
    generalize n.run nd.inner (toParams nd inputs) sp = r at h1 h2 h3 h4 h5
    generalize n'.run nd.inner (toParams nd inputs) sp = r' at h1 h2 h3 h4 h5
    rw [← h1, ← h2, ← h3, ← h4, ← h5]
    cases r.raised with
    | true => exact ⟨rfl, rfl, rfl⟩
    | false =>
      simp only [Bool.false_eq_true, if_false]
      split <;> exact ⟨rfl, rfl, rfl⟩

theorem execNode_agree {n n' : Nested} (h : Nested.Agree n n') (sem : Sem) (gi : Nat) (nd : NodeD)
    (inputs : AL Val) (ns : GState) (sp : Span) :
    (execNode n sem gi nd inputs ns sp).res = (execNode n' sem gi nd inputs ns sp).res ∧
    (execNode n sem gi nd inputs ns sp).dec = (execNode n' sem gi nd inputs ns sp).dec ∧
    (execNode n sem gi nd inputs ns sp).pause = (execNode n' sem gi nd inputs ns sp).pause := by
  unfold execNode
  cases nd.kind
  all_goals first | exact ⟨rfl, rfl, rfl⟩ | exact execGraphNode_agree h nd inputs sp

/-- a per-node result without its log -/
def AsyncOne.strip (r : AsyncOne) : AsyncOne :=
  { nd := r.nd, out := { res := r.out.res, dec := r.out.dec, pause := r.out.pause, log := [] } }

theorem asyncOne_strip_agree {n n' : Nested} (h : Nested.Agree n n') (sem : Sem) (gi : Nat) (g : GraphD)
    (runSpan : Span) (k : Nat) (s : GState) (nd : NodeD) :
    (asyncOne₂ n sem gi g runSpan k s nd).strip = (asyncOne₂ n' sem gi g runSpan k s nd).strip := by
  unfold asyncOne₂
  cases collectInputs g s nd nd.inputs with
  | none => rfl
  | some inputs =>
    obtain ⟨h1, h2, h3⟩ := execNode_agree h sem gi nd inputs s (nodeSpanOf runSpan k nd)
    simp only [AsyncOne.strip, h1, h2, h3]

/-- a step result of the async step, log-free, as a function of the per-node results -/
def asyncAbs (s : GState) (order : List Nat) (R : List AsyncOne) : StepAbs :=
  let ns2 := R.foldl (valStep s) ((permute R order).foldl decStep s)
  match R.find? isBad with
  | .none => .ok ns2
  | some r =>
    match r.out.pause, r.out.res with
    | some p, _ => .pause p
    | .none, .error e => .fail e ns2
    | .none, .ok _ => .ok ns2

theorem stepAsync_abs (nested : Nested) (sem : Sem) (gi : Nat) (g : GraphD) (runSpan : Span) (k : Nat)
    (order : List Nat) (s : GState) (rs : List NodeD) :
    (stepAsync nested sem gi g runSpan k order s rs).abs =
      asyncAbs s order ((asyncRs₂ rs).map (asyncOne₂ nested sem gi g runSpan k s)) := by
  rw [stepAsync_eq]
  unfold asyncAbs
  simp only
  cases ((asyncRs₂ rs).map (asyncOne₂ nested sem gi g runSpan k s)).find? isBad with
  | none => rfl
  | some r =>
    simp only
    cases r.out.pause with
    | some p => rfl
    | none => cases r.out.res <;> rfl

theorem getD_map_default {α β} [Inhabited α] [Inhabited β] (f : α → β) (hf : f default = default)
    (l : List α) (i : Nat) : (l.map f).getD i default = f (l.getD i default) := by
  simp only [List.getD_eq_getElem?_getD, List.getElem?_map]
  cases l[i]? <;> simp [hf]

theorem permute_map {α β} [Inhabited α] [Inhabited β] (f : α → β) (hf : f default = default)
    (l : List α) (order : List Nat) : (permute l order).map f = permute (l.map f) order := by
  unfold permute
  simp only [List.length_map]
  split
  · rw [List.map_map]
    apply List.map_congr_left
    intro i _
    simp only [Function.comp]
    exact (getD_map_default f hf l i).symm
  · rfl

theorem strip_default : AsyncOne.strip default = default := rfl

theorem foldl_decStep_strip (st : GState) (l : List AsyncOne) :
    (l.map AsyncOne.strip).foldl decStep st = l.foldl decStep st := by
  rw [List.foldl_map]; rfl

theorem foldl_valStep_strip (s st : GState) (l : List AsyncOne) :
    (l.map AsyncOne.strip).foldl (valStep s) st = l.foldl (valStep s) st := by
  rw [List.foldl_map]; rfl

theorem asyncAbs_strip (s : GState) (order : List Nat) (R : List AsyncOne) :
    asyncAbs s order (R.map AsyncOne.strip) = asyncAbs s order R := by
  unfold asyncAbs
  simp only
  rw [← permute_map AsyncOne.strip strip_default, foldl_decStep_strip, foldl_valStep_strip, List.find?_map]
  have : (isBad ∘ AsyncOne.strip) = isBad := rfl
  rw [this]
  cases R.find? isBad with
  | none => rfl
  | some r => rfl

/-- the async step with two nested callbacks that agree up to logs: same result up to the log -/
theorem stepAsync_abs_agree {n n' : Nested} (h : Nested.Agree n n') (sem : Sem) (gi : Nat) (g : GraphD)
    (runSpan : Span) (k : Nat) (order : List Nat) (s : GState) (rs : List NodeD) :
    (stepAsync n sem gi g runSpan k order s rs).abs = (stepAsync n' sem gi g runSpan k order s rs).abs := by
  rw [stepAsync_abs, stepAsync_abs, ← asyncAbs_strip, ← asyncAbs_strip s order (List.map (asyncOne₂ n' _ _ _ _ _ _) _)]
  congr 1
  rw [List.map_map, List.map_map]
  apply List.map_congr_left
  intro nd _
  exact asyncOne_strip_agree h sem gi g runSpan k s nd


/-- whole runs of an interrupt-free graph with unique node names, nested-graph nodes allowed, for
nested callbacks that agree up to logs -/
theorem runGraph_agree (nested nested' : Nested) (hag : Nested.Agree nested nested') (sem : Sem)
    (order : Nat → List Nat) (gi : Nat) (g : GraphD)
    (values : AL Val) (cfg : RunCfg) (span : Span) (parent : Option Span)
    (hni : ∀ nd ∈ g.nodes, nd.kind ≠ .interrupt) (hnd : (g.nodes.map (·.name)).Nodup) :
    RunOut.Agree cfg.errMode (runGraph nested sem .sync gi g values cfg span parent)
      (runGraph nested' sem (.async order) gi g values cfg span parent) := by
  apply runGraph_sync_async nested nested' sem order gi g values cfg span parent hni hnd
  intro k s rs _
  exact stepAsync_abs_agree hag sem gi g span k (order k) s rs

/-! ## closing the loop: the nested callbacks of the two runners agree -/

theorem finishRun_failed_error (g : GraphD) (cfg : RunCfg) (span : Span) (parent : Option Span) (lo : LoopOut)
    (h : (finishRun₂ g cfg span parent lo).status = .failed) : (finishRun₂ g cfg span parent lo).error ≠ none := by
  cases lo with
  | done s log k =>
    simp only [finishRun₂] at h ⊢
    cases hf : filterOutputs g s cfg.select cfg.onMissing with
    | ok vw => simp [hf] at h
    | error e => simp only; cases cfg.errMode <;> simp
  | fail e ps log k =>
    simp only [finishRun₂]
    cases cfg.errMode <;> simp
  | pause p ps log k => simp [finishRun₂] at h

/-- the items of a map run, in input order -/
def itemsFrom (runItem : AL Val → Span → RunOut) (span : Span) : List (AL Val) → Nat → List RunOut
  | [], _ => []
  | v :: vs, i => runItem v (span ++ [toString i]) :: itemsFrom runItem span vs (i + 1)

/-- the item whose error a map in `raise` mode raises -/
def firstFailed (em : ErrMode) (l : List RunOut) : Option RunOut :=
  if em == .raise then l.find? (·.status == .failed) else none

theorem goSync_char (runItem : AL Val → Span → RunOut) (g : GraphD) (em : ErrMode) (span : Span)
    (parent : Option Span) (shut : List Log) : ∀ (vs : List (AL Val)) (i : Nat) (acc : List RunOut) (log : List Log),
    (mapGraph.goSync runItem g em span parent shut vs i acc log).raised =
      (firstFailed em (itemsFrom runItem span vs i)).bind (·.error) ∧
    (firstFailed em (itemsFrom runItem span vs i) = none →
      (mapGraph.goSync runItem g em span parent shut vs i acc log).results = acc ++ itemsFrom runItem span vs i) := by
  intro vs
  induction vs with
  | nil =>
    intro i acc log
    rw [mapGraph.goSync.eq_1]
    simp [firstFailed, itemsFrom]
  | cons v vs ih =>
    intro i acc log
    rw [mapGraph.goSync.eq_2]
    simp only [itemsFrom]
    cases hem : em with
    | cont =>
      have hc : (ErrMode.cont == ErrMode.raise) = false := rfl
      simp only [hc, Bool.false_and, Bool.false_eq_true, if_false]
      have := ih (i + 1) (acc ++ [runItem v (span ++ [toString i])]) (log ++ (runItem v (span ++ [toString i])).log)
      rw [hem] at this
      simp only [firstFailed, hc, Bool.false_eq_true, if_false] at this ⊢
      refine ⟨this.1, fun _ => ?_⟩
      rw [this.2 trivial]; simp
    | raise =>
      have hc : (ErrMode.raise == ErrMode.raise) = true := rfl
      simp only [hc, Bool.true_and]
      have := ih (i + 1) (acc ++ [runItem v (span ++ [toString i])]) (log ++ (runItem v (span ++ [toString i])).log)
      rw [hem] at this
      simp only [firstFailed, hc, if_true] at this ⊢
      cases hs : ((runItem v (span ++ [toString i])).status == Status.failed) with
      | true =>
        simp only [if_true, List.find?_cons, hs]
        exact ⟨rfl, fun h => by cases h⟩
      | false =>
        simp only [Bool.false_eq_true, if_false, List.find?_cons, hs]
        refine ⟨this.1, fun h => ?_⟩
        rw [this.2 h]; simp

theorem range_map_items (runItem : AL Val → Span → RunOut) (span : Span) : ∀ (vs : List (AL Val)) (i : Nat),
    (List.range vs.length).map (fun j => runItem (vs.getD j []) (span ++ [toString (i + j)])) =
      itemsFrom runItem span vs i := by
  intro vs
  induction vs with
  | nil => intro i; rfl
  | cons v vs ih =>
    intro i
    simp only [List.length_cons, List.range_succ_eq_map, List.map_cons, List.map_map, itemsFrom]
    congr 1
    rw [← ih (i + 1)]
    apply List.map_congr_left
    intro j _
    simp only [Function.comp, List.getD_cons_succ]
    have : i + (j + 1) = i + 1 + j := by omega
    rw [this]

theorem itemsFrom_same {itemS itemA : AL Val → Span → RunOut} (h : ∀ v sp, ItemSame (itemS v sp) (itemA v sp))
    (span : Span) : ∀ (vs : List (AL Val)) (i : Nat), ItemsSame (itemsFrom itemS span vs i) (itemsFrom itemA span vs i)
  | [], _ => .nil
  | v :: vs, i => .cons (h v _) (itemsFrom_same h span vs (i + 1))

theorem mem_itemsFrom {f : AL Val → Span → RunOut} {span : Span} {r : RunOut} :
    ∀ {vs : List (AL Val)} {i : Nat}, r ∈ itemsFrom f span vs i → ∃ v sp, r = f v sp
  | [], _, h => by cases h
  | v :: vs, i, h => by
    simp only [itemsFrom, List.mem_cons] at h
    rcases h with h | h
    · exact ⟨v, _, h⟩
    · exact mem_itemsFrom h

theorem firstFailed_same (em : ErrMode) {l l' : List RunOut} (h : ItemsSame l l') :
    (firstFailed em l).bind (·.error) = (firstFailed em l').bind (·.error) ∧
    (firstFailed em l = none → firstFailed em l' = none) := by
  unfold firstFailed
  cases em with
  | cont => exact ⟨rfl, fun _ => rfl⟩
  | raise =>
    have hc : (ErrMode.raise == ErrMode.raise) = true := rfl
    simp only [hc, if_true]
    induction h with
    | nil => exact ⟨rfl, fun _ => rfl⟩
    | @cons a b _ _ hab _ ih =>
      obtain ⟨h1, h2, _⟩ := hab
      simp only [List.find?_cons, ← h1]
      cases (a.status == Status.failed) with
      | true => simp [h2]
      | false => exact ih

/-- `map` under the sync runner (items in order, stop at the first failure in raise mode) and
under the async runner (all items, first failure in input order raised) -/
theorem mapGraph_same (itemS itemA : AL Val → Span → RunOut)
    (hitem : ∀ v sp, ItemSame (itemS v sp) (itemA v sp))
    (herr : ∀ v sp, (itemS v sp).status = .failed → (itemS v sp).error ≠ none)
    (g : GraphD) (values : AL Val) (mapOver : List Name) (mode : MapMode) (em : ErrMode) (span : Span)
    (parent : Option Span) :
    MapOut.Same (mapGraph itemS true g values mapOver mode em span parent)
      (mapGraph itemA false g values mapOver mode em span parent) := by
  unfold mapGraph
  cases generateMapInputs values mapOver mode with
  | error e => exact ⟨rfl, fun h => by cases h⟩
  | ok vars =>
    cases vars with
    | nil => exact ⟨rfl, fun _ => .nil⟩
    | cons v vs =>
      simp only [if_true, Bool.false_eq_true, if_false]
      generalize v :: vs = vars
      obtain ⟨hr, hres⟩ := goSync_char itemS g em span parent (if parent.isNone then [.shutdown] else []) vars 0 []
        [runStartEv span parent g ("map:" ++ toString vars.length)]
      have hrange := range_map_items itemA span vars 0
      simp only [Nat.zero_add] at hrange
      rw [hrange]
      have hsame := itemsFrom_same hitem span vars 0
      obtain ⟨hf1, hf2⟩ := firstFailed_same em hsame
      rw [show (if em == ErrMode.raise then
            List.find? (fun r : RunOut => r.status == Status.failed) (itemsFrom itemA span vars 0) else none) =
          firstFailed em (itemsFrom itemA span vars 0) from rfl]
      refine ⟨?_, ?_⟩
      · rw [hr, hf1]
        cases firstFailed em (itemsFrom itemA span vars 0) <;> rfl
      · intro hnone
        have hff : firstFailed em (itemsFrom itemS span vars 0) = none := by
          cases hfs : firstFailed em (itemsFrom itemS span vars 0) with
          | none => rfl
          | some r =>
            exfalso
            rw [hr, hfs] at hnone
            simp only [Option.bind_some] at hnone
            have hmem : r ∈ itemsFrom itemS span vars 0 := by
              unfold firstFailed at hfs
              split at hfs
              · exact List.mem_of_find?_eq_some hfs
              · cases hfs
            have hst : r.status = .failed := by
              unfold firstFailed at hfs
              split at hfs
              · simpa using List.find?_some hfs
              · cases hfs
            obtain ⟨v', sp', rfl⟩ := mem_itemsFrom hmem
            exact herr v' sp' hst hnone
        rw [hres hff, hf2 hff]
        simpa using hsame

/-! ## interrupt-free programs never pause

A pause starts at an interrupt node whose handler returned `None` and is re-raised by the nested-graph
nodes above it; a program without interrupt nodes never pauses, under either runner. (This is what
keeps the sync / async agreement below free of the pause case, where the two steps report different
partial states: `stepSync` its snapshot, `stepAsync` the snapshot plus the successful siblings.) -/

/-- the nested `run` callback never reports a pause -/
def Nested.NoPause (n : Nested) : Prop := ∀ gi v sp, (n.run gi v sp).status ≠ .paused

theorem execGraphNode_pause_none {n : Nested} (hn : n.NoPause) (nd : NodeD) (inputs : AL Val) (sp : Span) :
    (execGraphNode n nd inputs sp).pause = none := by
  unfold execGraphNode
  simp only []
  split
  · split
    · rfl
    · split <;> rfl
  · split
    · rfl
    · split
      · rename_i hs _; exact absurd hs (hn _ _ _)
      · rfl

/-- a node that is neither an interrupt nor a graph node with a pausing nested run does not pause -/
theorem execNode_pause_none {n : Nested} (sem : Sem) (gi : Nat) (nd : NodeD) (inputs : AL Val) (ns : GState)
    (sp : Span) (hk : nd.kind ≠ .interrupt) (hn : nd.kind = .graph → n.NoPause) :
    (execNode n sem gi nd inputs ns sp).pause = none := by
  unfold execNode
  cases hkk : nd.kind with
  | fn =>
    simp only [execFn]
    split
    · rfl
    · rfl
    · split <;> rfl
  | ifelse =>
    simp only [execIfElse]
    split <;> rfl
  | route =>
    simp only [execRoute]
    split
    · rfl
    · split <;> rfl
    · split <;> rfl
    · rfl
  | graph => exact execGraphNode_pause_none (hn hkk) nd inputs sp
  | interrupt => exact absurd hkk hk

theorem asyncOne_pause_none {n : Nested} (sem : Sem) (gi : Nat) (g : GraphD) (runSpan : Span) (k : Nat)
    (s : GState) (nd : NodeD) (hk : nd.kind ≠ .interrupt) (hn : nd.kind = .graph → n.NoPause) :
    (asyncOne₂ n sem gi g runSpan k s nd).out.pause = none := by
  cases hc : collectInputs g s nd nd.inputs with
  | none => rw [asyncOne_none n sem gi g runSpan k s nd hc]
  | some inputs =>
    rw [(asyncOne_some n sem gi g runSpan k s nd inputs hc).2.2.2]
    exact execNode_pause_none sem gi nd inputs s _ hk hn

theorem stepSync_no_pause {n : Nested} (sem : Sem) (gi : Nat) (g : GraphD) (runSpan : Span) (k : Nat)
    (s : GState) (rs : List NodeD) (hni : ∀ nd ∈ rs, nd.kind ≠ .interrupt)
    (hn : ∀ nd ∈ rs, nd.kind = .graph → n.NoPause) :
    ∀ (ns : GState) (log : List Log) (p : PauseInfo) (ps : GState) (l : List Log),
      stepSync n sem gi g runSpan k s rs ns log ≠ .pause p ps l := by
  induction rs with
  | nil => intro ns log p ps l h; simp [stepSync] at h
  | cons nd rest ih =>
    intro ns log p ps l h
    rw [stepSync_cons] at h
    cases hc : collectInputs g s nd nd.inputs with
    | none => simp [hc] at h
    | some inputs =>
      simp only [hc] at h
      have hp := execNode_pause_none (n := n) sem gi nd inputs ns (nodeSpanOf runSpan k nd)
        (hni nd (List.mem_cons_self ..)) (hn nd (List.mem_cons_self ..))
      simp only [hp] at h
      split at h
      · cases h
      · exact ih (fun x hx => hni x (List.mem_cons_of_mem _ hx)) (fun x hx => hn x (List.mem_cons_of_mem _ hx))
          _ _ _ _ _ h

theorem stepAsync_no_pause {n : Nested} (sem : Sem) (gi : Nat) (g : GraphD) (runSpan : Span) (k : Nat)
    (order : List Nat) (s : GState) (rs : List NodeD) (hni : ∀ nd ∈ rs, nd.kind ≠ .interrupt)
    (hn : ∀ nd ∈ rs, nd.kind = .graph → n.NoPause) (p : PauseInfo) (ps : GState) (l : List Log) :
    stepAsync n sem gi g runSpan k order s rs ≠ .pause p ps l := by
  intro h
  rw [stepAsync_eq, asyncRs_of_no_interrupt hni] at h
  simp only at h
  split at h
  · cases h
  · rename_i r hf
    have hmem := List.mem_of_find?_eq_some hf
    obtain ⟨nd, hnd, rfl⟩ := List.mem_map.1 hmem
    have hp := asyncOne_pause_none (n := n) sem gi g runSpan k s nd (hni nd hnd) (hn nd hnd)
    generalize asyncOne₂ n sem gi g runSpan k s nd = r at h hp
    cases hres : r.out.res <;> simp [hp, hres] at h

theorem runLoop_no_pause (step : Nat → GState → List NodeD → StepOut) (g : GraphD) (act : Option (List Name))
    (mi : Nat) (hstep : ∀ k s rs, rs.Sublist g.nodes → ∀ p ps l, step k s rs ≠ .pause p ps l) :
    ∀ (fuel k : Nat) (s : GState) (log : List Log) (p : PauseInfo) (ps : GState) (l : List Log) (m : Nat),
      runLoop step g act mi fuel k s log ≠ .pause p ps l m := by
  intro fuel
  induction fuel with
  | zero =>
    intro k s log p ps l m h
    simp only [runLoop] at h
    split at h <;> cases h
  | succ fuel ih =>
    intro k s log p ps l m h
    have hsub := ready_sublist g act s
    simp only [runLoop] at h
    generalize ready g act s = r at h hsub
    obtain ⟨rs, s1⟩ := r
    cases rs with
    | nil => cases h
    | cons nd rest =>
      simp only at h hsub
      cases hs : step k s1 (nd :: rest) with
      | ok ns l' => rw [hs] at h; exact ih _ _ _ _ _ _ _ h
      | fail e ps' l' => rw [hs] at h; cases h
      | pause p' ps' l' => exact hstep k s1 _ hsub _ _ _ hs

theorem finishRun₂_status_of_not_pause (g : GraphD) (cfg : RunCfg) (span : Span) (parent : Option Span)
    (lo : LoopOut) (h : ∀ p ps l m, lo ≠ .pause p ps l m) : (finishRun₂ g cfg span parent lo).status ≠ .paused := by
  cases lo with
  | done s log k =>
    simp only [finishRun₂]
    cases filterOutputs g s cfg.select cfg.onMissing with
    | ok vw => simp
    | error e => simp only; cases cfg.errMode <;> simp
  | fail e ps log k =>
    simp only [finishRun₂]
    cases cfg.errMode <;> simp
  | pause p ps log k => exact absurd rfl (h p ps log k)

/-- a run of an interrupt-free graph whose nested runs never pause does not pause -/
theorem runGraph_not_paused (nested : Nested) (sem : Sem) (runner : Runner) (gi : Nat) (g : GraphD)
    (values : AL Val) (cfg : RunCfg) (span : Span) (parent : Option Span)
    (hni : ∀ nd ∈ g.nodes, nd.kind ≠ .interrupt) (hn : ∀ nd ∈ g.nodes, nd.kind = .graph → nested.NoPause) :
    (runGraph nested sem runner gi g values cfg span parent).status ≠ .paused := by
  cases runner with
  | sync =>
    rw [runGraph_sync_eq]
    apply finishRun₂_status_of_not_pause
    apply runLoop_no_pause
    intro k s rs hsub p ps l
    exact stepSync_no_pause sem gi g span k s rs (fun x hx => hni x (hsub.subset hx))
      (fun x hx => hn x (hsub.subset hx)) _ _ _ _ _
  | async order =>
    rw [runGraph_async_eq]
    apply finishRun₂_status_of_not_pause
    apply runLoop_no_pause
    intro k s rs hsub p ps l
    exact stepAsync_no_pause sem gi g span k (order k) s rs (fun x hx => hni x (hsub.subset hx))
      (fun x hx => hn x (hsub.subset hx)) _ _ _

/-- every graph of the program is interrupt-free and has unique node names -/
def Program.Regular (prog : Program) : Prop :=
  ∀ g ∈ prog, (∀ nd ∈ g.nodes, nd.kind ≠ .interrupt) ∧ (g.nodes.map (·.name)).Nodup

theorem Program.Regular.getD {prog : Program} (h : prog.Regular) (gi : Nat) :
    (∀ nd ∈ (prog.getD gi default).nodes, nd.kind ≠ .interrupt) ∧
      ((prog.getD gi default).nodes.map (·.name)).Nodup := by
  rw [List.getD_eq_getElem?_getD]
  cases hg : prog[gi]? with
  | none =>
    simp only [Option.getD_none]
    exact ⟨fun nd hnd => (by cases hnd), List.nodup_nil⟩
  | some g =>
    simp only [Option.getD_some]
    exact h g (List.mem_of_getElem? hg)

/-- the nested callbacks of an interrupt-free program never report a pause -/
theorem nestedAt_noPause (sem : Sem) (runner : Runner) (prog : Program) (hprog : prog.Regular) :
    ∀ d, (nestedAt sem runner prog d).NoPause
  | 0 => fun _ _ _ => by simp [nestedAt]
  | d + 1 => fun gi v sp =>
    runGraph_not_paused _ sem runner gi (prog.getD gi default) v {} (sp ++ ["run"]) (some sp)
      (hprog.getD gi).1 (fun _ _ _ => nestedAt_noPause sem runner prog hprog d)

/-- `runner.run` on an interrupt-free program never pauses -/
theorem run_not_paused (sem : Sem) (runner : Runner) (prog : Program) (hprog : prog.Regular)
    (root : Nat) (values : AL Val) (cfg : RunCfg) : (run sem runner prog root values cfg).status ≠ .paused :=
  runGraph_not_paused _ sem runner root (prog.getD root default) values cfg ["r"] .none
    (hprog.getD root).1 (fun _ _ _ => nestedAt_noPause sem runner prog hprog prog.length)

theorem runGraph_failed_error_sync (nested : Nested) (sem : Sem) (gi : Nat) (g : GraphD)
    (values : AL Val) (cfg : RunCfg) (span : Span) (parent : Option Span)
    (h : (runGraph nested sem .sync gi g values cfg span parent).status = .failed) :
    (runGraph nested sem .sync gi g values cfg span parent).error ≠ none := by
  rw [runGraph_sync_eq] at h ⊢
  exact finishRun_failed_error g cfg span parent _ h

/-- the depth-indexed nested callbacks of the sync and of the async runner agree up to logs -/
theorem nestedAt_agree (sem : Sem) (order : Nat → List Nat) (prog : Program) (hprog : prog.Regular) :
    ∀ d, Nested.Agree (nestedAt sem .sync prog d) (nestedAt sem (.async order) prog d)
  | 0 => ⟨fun _ _ _ => ⟨rfl, rfl, rfl, rfl, rfl⟩, fun _ _ _ _ _ _ => ⟨rfl, fun h => by cases h⟩⟩
  | d + 1 => by
    have ih := nestedAt_agree sem order prog hprog d
    constructor
    · intro gi v sp
      obtain ⟨hni, hnd⟩ := hprog.getD gi
      obtain ⟨h1, h2, h3, h4, h5⟩ := runGraph_agree _ _ ih sem order gi (prog.getD gi default) v {}
        (sp ++ ["run"]) (some sp) hni hnd
      have hnp := runGraph_not_paused (nestedAt sem .sync prog d) sem .sync gi (prog.getD gi default) v {}
        (sp ++ ["run"]) (some sp) hni (fun _ _ _ => nestedAt_noPause sem .sync prog hprog d)
      exact ⟨h1, h5 (Or.inr rfl) hnp, h2, h3, h4⟩
    · intro gi v mo mode em sp
      obtain ⟨hni, hnd⟩ := hprog.getD gi
      apply mapGraph_same
      · intro v' sp'
        obtain ⟨h1, h2, _, _, h5⟩ := runGraph_agree _ _ ih sem order gi (prog.getD gi default) v'
          { errMode := .cont } sp' (some (sp ++ ["map"])) hni hnd
        have hnp := runGraph_not_paused (nestedAt sem .sync prog d) sem .sync gi (prog.getD gi default) v'
          { errMode := .cont } sp' (some (sp ++ ["map"])) hni (fun _ _ _ => nestedAt_noPause sem .sync prog hprog d)
        exact ⟨h1, h2, fun hs => h5 (Or.inl hs) hnp⟩
      · intro v' sp' hs
        exact runGraph_failed_error_sync _ sem gi _ v' _ sp' _ hs

/-- whole programs (nested graphs and maps included): `runner.run` of the sync runner and of the
async runner with arbitrary completion orders -/
theorem run_agree (sem : Sem) (order : Nat → List Nat) (prog : Program) (hprog : prog.Regular)
    (root : Nat) (values : AL Val) (cfg : RunCfg) :
    RunOut.Agree cfg.errMode (run sem .sync prog root values cfg) (run sem (.async order) prog root values cfg) := by
  obtain ⟨hni, hnd⟩ := hprog.getD root
  exact runGraph_agree _ _ (nestedAt_agree sem order prog hprog prog.length) sem order root
    (prog.getD root default) values cfg ["r"] .none hni hnd

/-- top-level `runner.map` of the two runners -/
theorem map_agree (sem : Sem) (order : Nat → List Nat) (prog : Program) (hprog : prog.Regular)
    (root : Nat) (values : AL Val) (mapOver : List Name) (mode : MapMode) (em : ErrMode) (cfg : RunCfg) :
    MapOut.Same (map sem .sync prog root values mapOver mode em cfg)
      (map sem (.async order) prog root values mapOver mode em cfg) := by
  obtain ⟨hni, hnd⟩ := hprog.getD root
  unfold map
  apply mapGraph_same
  · intro v' sp'
    obtain ⟨h1, h2, _, _, h5⟩ := runGraph_agree _ _ (nestedAt_agree sem order prog hprog prog.length) sem order
      root (prog.getD root default) v' { cfg with errMode := .cont } sp' (some ["m"]) hni hnd
    have hnp := runGraph_not_paused (nestedAt sem .sync prog prog.length) sem .sync root (prog.getD root default) v'
      { cfg with errMode := .cont } sp' (some ["m"]) hni
      (fun _ _ _ => nestedAt_noPause sem .sync prog hprog prog.length)
    exact ⟨h1, h2, fun hs => h5 (Or.inl hs) hnp⟩
  · intro v' sp' hs
    exact runGraph_failed_error_sync _ sem root _ v' _ sp' _ hs

/-! ## a small concrete program for the non-vacuity examples of `HG/Props/C02.lean` -/
namespace C02Ex

/-- two function nodes `a`, `b` (`b` raises when `x = 7`), an if/else gate and a route gate
(both targeting `c`), and the gated consumer `c` -/
def specs : List GraphSpec := [{ name := "g", nodes := [
   { name := "a", kind := .fn, params := [("x", .none)], dataOuts := ["y"], body := .tag "a" },
   { name := "b", kind := .fn, params := [("x", .none)], dataOuts := ["z"], body := .failIf 7 "b" },
   { name := "gt", kind := .ifelse, params := [("x", .none)], targets := [.node "c", .end_], body := .lt 5 },
   { name := "g2", kind := .route, params := [("x", .none)], targets := [.node "c", .end_],
     body := .table [(1, .one "c")] .end_ },
   { name := "c", kind := .fn, params := [("y", .none)], dataOuts := ["w"], body := .tag "c" }] }]
def prog : Program := elabProgram specs
def g : GraphD := prog.getD 0 default
def nested0 : Nested := nestedAt bodySem .sync prog 0
/-- `x = 1`: everything succeeds -/
def s1 : GState := initState [("x", .int 1)]
/-- `x = 7`: `b` raises -/
def s7 : GState := initState [("x", .int 7)]
/-- the ready list of the first superstep: `a, b, gt, g2` -/
def rs : List NodeD := (ready g (activeNodeSet g) s1).1
/-- `b` before `a`, and `y` already present in the snapshot -/
def rsBA : List NodeD := [g.nodes.getD 1 default, g.nodes.getD 0 default]
def s7y : GState := initState [("x", .int 7), ("y", .int 0)]

/-- the same nodes with the failing `b` listed before `a` -/
def specsBA : List GraphSpec := [{ name := "g", nodes := [
   { name := "b", kind := .fn, params := [("x", .none)], dataOuts := ["z"], body := .failIf 7 "b" },
   { name := "a", kind := .fn, params := [("x", .none)], dataOuts := ["y"], body := .tag "a" }] }]
def progBA : Program := elabProgram specsBA
/-- two equivalent states, the second with an ill-formed (duplicate key) decisions dict -/
def dupA : GState := { values := [("x", .int 1)], versions := [("x", 1)], decisions := [("gt", .one "c")] }
def dupB : GState := { values := [("x", .int 1)], versions := [("x", 1)],
                       decisions := [("gt", .one "c"), ("gt", .end_)] }

/-- a program with a nested-graph node `sub` and a mapped nested-graph node `m` -/
def specsN : List GraphSpec := [
  { name := "inner", nodes := [
     { name := "a", kind := .fn, params := [("x", .none)], dataOuts := ["y"], body := .tag "a" },
     { name := "b", kind := .fn, params := [("x", .none)], dataOuts := ["z"], body := .failIf 7 "b" }] },
  { name := "outer", nodes := [
     { name := "sub", kind := .graph, inner := 0 },
     { name := "m", kind := .graph, inner := 0, inRen := [("x", "xs")], outRen := [("y", "ys"), ("z", "zs")],
       mapOver := ["xs"] },
     { name := "d", kind := .fn, params := [("y", .none), ("ys", .none)], dataOuts := ["w"], body := .tag "d" }] }]
def progN : Program := elabProgram specsN

def stateOf : StepOut → GState
  | .ok ns _ => ns
  | .fail _ ps _ => ps
  | .pause _ ps _ => ps
def isOk : StepOut → Bool
  | .ok _ _ => true
  | _ => false
def errOf : StepOut → Option ErrId
  | .fail e _ _ => some e
  | _ => .none

end C02Ex

end HG
