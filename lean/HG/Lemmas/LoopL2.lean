import HG.Lemmas.LoopL1
/-! # HG.Lemmas.LoopL2 — signal-synchronised loop family L2, body length 1

`b1(x) -> x` additionally emits `turn_done`; the if/else `gate(x) -> b1 | END` has
`wait_for=["turn_done"]`. The gate cannot run before the first `turn_done`, so with
`default_open=True` the body runs FIRST (a do-while loop); with `default_open=False` nothing is ever
ready. Every later turn relies on `update_value` treating the re-emitted sentinel as fresh. -/
set_option linter.unusedSimpArgs false
namespace HG.L2
open HG.L1 (mkNode xs xs_eq_repeat Fi ci)

def b1 : NodeD := mkNode "b1" .fn ["x"] ["x"] [] true ["turn_done"] []
def gate (dopen : Bool) : NodeD := mkNode "gate" .ifelse ["x"] [] [.node "b1", .end_] dopen [] ["turn_done"]

def L2 (dopen : Bool) (es : List Edge) (sp : InputSpec) : GraphD :=
  { name := "L2", nodes := [b1, gate dopen], bound := [], selected := .none, entrypoints := .none
    edges := es, spec := { sp with bound := [] } }

variable (F : Val → Val) (c : Val → Bool) (x0 : Val)

def exb (v : Nat) : Exec := { inputVersions := [("x", v)], waitForVersions := [] }
def exg (v w : Nat) : Exec := { inputVersions := [("x", v)], waitForVersions := [("turn_done", w)] }

/-- the initial state -/
def S0 : GState := { values := [("x", x0)], versions := [("x", 1)], execs := [], decisions := [] }

/-- after `m+1` executions of `b1`, before the gate looks at `x_{m+1}` -/
def P (m : Nat) : GState :=
  match m with
  | 0 => { values := [("x", xs F x0 1), ("turn_done", .sentinel)], versions := [("x", 2), ("turn_done", 1)]
           execs := [("b1", exb 1)], decisions := [] }
  | j + 1 => { values := [("x", xs F x0 (j + 2)), ("turn_done", .sentinel)], versions := [("x", j + 3), ("turn_done", j + 2)]
               execs := [("b1", exb (j + 2)), ("gate", exg (j + 2) (j + 1))], decisions := [("gate", .one "b1")] }

def Pc (m : Nat) : GState := { P F x0 m with decisions := [] }

/-- after the gate chose `d` on `x_{m+1}` -/
def Q (d : Dec) (m : Nat) : GState :=
  { values := [("x", xs F x0 (m + 1)), ("turn_done", .sentinel)], versions := [("x", m + 2), ("turn_done", m + 1)]
    execs := [("b1", exb (m + 1)), ("gate", exg (m + 2) (m + 1))], decisions := [("gate", d)] }

theorem init_eq : initState [("x", x0)] = S0 x0 := by
  simp [initState, GState.applyOutputs, GState.updateValue, GState.bumps, GState.ver, AL.put, AL.get?, S0]

section ready
variable (dopen : Bool) (es : List Edge) (sp : InputSpec)

/-- `default_open=True`: the body goes first, the gate is still waiting for `turn_done` -/
theorem ready_S0_open : ready (L2 true es sp) .none (S0 x0) = ([b1], S0 x0) := by
  simp [ready, clearStale, L2, b1, gate, mkNode, S0, NodeD.isGate, NodeD.targetNames, NodeD.outputs,
    isReady, activated, controlledBy, findNode, needsExec, isStale, isGated, selfProduces, hasInput,
    waitForSatisfied, blockedTargets, deferWaitFor, AL.has, AL.get?, AL.del, GState.ver, decisionNames]

/-- `default_open=False`: nothing is ready — the run completes at once without executing anything -/
theorem ready_S0_closed : ready (L2 false es sp) .none (S0 x0) = ([], S0 x0) := by
  simp [ready, clearStale, L2, b1, gate, mkNode, S0, NodeD.isGate, NodeD.targetNames, NodeD.outputs,
    isReady, activated, controlledBy, findNode, needsExec, isStale, isGated, selfProduces, hasInput,
    waitForSatisfied, blockedTargets, deferWaitFor, AL.has, AL.get?, AL.del, GState.ver, decisionNames]

theorem ready_P (m : Nat) : ready (L2 true es sp) .none (P F x0 m) = ([gate true], Pc F x0 m) := by
  cases m <;>
  simp [ready, clearStale, L2, b1, gate, mkNode, P, Pc, exb, exg, NodeD.isGate, NodeD.targetNames, NodeD.outputs,
    isReady, activated, controlledBy, findNode, needsExec, isStale, isGated, selfProduces, hasInput,
    waitForSatisfied, blockedTargets, deferWaitFor, AL.has, AL.get?, AL.del, GState.ver, decisionNames]

theorem ready_QB (m : Nat) : ready (L2 true es sp) .none (Q F x0 (.one "b1") m) = ([b1], Q F x0 (.one "b1") m) := by
  simp [ready, clearStale, L2, b1, gate, mkNode, Q, exb, exg, NodeD.isGate, NodeD.targetNames, NodeD.outputs,
    isReady, activated, controlledBy, findNode, needsExec, isStale, isGated, selfProduces, hasInput,
    waitForSatisfied, blockedTargets, deferWaitFor, AL.has, AL.get?, AL.del, GState.ver, decisionNames]

theorem ready_QE (m : Nat) : ready (L2 true es sp) .none (Q F x0 .end_ m) = ([], Q F x0 .end_ m) := by
  simp [ready, clearStale, L2, b1, gate, mkNode, Q, exb, exg, NodeD.isGate, NodeD.targetNames, NodeD.outputs,
    isReady, activated, controlledBy, findNode, needsExec, isStale, isGated, selfProduces, hasInput,
    waitForSatisfied, blockedTargets, deferWaitFor, AL.has, AL.get?, AL.del, GState.ver, decisionNames]
end ready

structure SemL2 (sem : Sem) (dopen : Bool) : Prop where
  hb : ∀ v, sem b1 [("x", v)] = .val (F v)
  hg : ∀ v, sem (gate dopen) [("x", v)] = .val (.bool (c v))

def gLog (gi : Nat) (span : Span) (k : Nat) (dopen : Bool) (v : Val) (d : Dec) : List Log :=
  [.ev { kind := "NodeStart", span := nodeSpanOf span k (gate dopen), parent := some span, name := "gate" },
   .call (fnId gi (gate dopen)) [("x", v)],
   .ev { kind := "RouteDecision", span := span ++ ["gate" ++ "!route#" ++ toString k], parent := some span,
         name := "gate", info := decToString d },
   .ev { kind := "NodeEnd", span := nodeSpanOf span k (gate dopen), parent := some span, name := "gate" }]

def bLog (gi : Nat) (span : Span) (k : Nat) (v : Val) : List Log :=
  [.ev { kind := "NodeStart", span := nodeSpanOf span k b1, parent := some span, name := "b1" },
   .call (fnId gi b1) [("x", v)],
   .ev { kind := "NodeEnd", span := nodeSpanOf span k b1, parent := some span, name := "b1" }]

section step
variable (nested : Nested) (sem : Sem) (gi : Nat) (span : Span) (es : List Edge) (sp : InputSpec)
variable (hs : SemL2 F c sem true)
include hs

theorem step_S0 (k : Nat) (hprog : Val.changed (xs F x0 0) (xs F x0 1) = true) :
    stepSync nested sem gi (L2 true es sp) span k (S0 x0) [b1] (S0 x0) [] =
      .ok (P F x0 0) (bLog gi span k x0) := by
  have hb := hs.hb
  simp only [b1, mkNode] at hb
  have h' : Val.changed x0 (F x0) = true := by simpa [xs] using hprog
  simp_all [stepSync, collectInputs, resolveInput, valueSource, execNode, execFn, toParams, b1, mkNode,
      L2, S0, P, exb, recordExec, GState.applyOutputs, GState.updateValue, GState.bumps, routeEvent,
      NodeD.isGate, bLog, AL.get?, AL.put, AL.merge, wrapOutputs, GState.ver, xs, nodeSpanOf]

theorem step_P (k m : Nat) :
    stepSync nested sem gi (L2 true es sp) span k (Pc F x0 m) [gate true] (Pc F x0 m) [] =
      .ok (Q F x0 (if c (xs F x0 (m + 1)) then .one "b1" else .end_) m)
        (gLog gi span k true (xs F x0 (m + 1)) (if c (xs F x0 (m + 1)) then .one "b1" else .end_)) := by
  have hg := hs.hg
  simp only [gate, mkNode] at hg
  cases m with
  | zero =>
    cases h : c (xs F x0 1) <;> simp only [xs] at h <;>
    simp [stepSync, collectInputs, resolveInput, valueSource, execNode, execIfElse, toParams, gate, mkNode,
      L2, Pc, P, Q, exb, exg, recordExec, GState.applyOutputs, routeEvent, NodeD.isGate, gLog, AL.get?, AL.put,
      GState.ver, Target.toDec, hg, h, xs, nodeSpanOf]
  | succ j =>
    cases h : c (xs F x0 (j + 1 + 1)) <;> simp only [xs] at h <;>
    simp [stepSync, collectInputs, resolveInput, valueSource, execNode, execIfElse, toParams, gate, mkNode,
      L2, Pc, P, Q, exb, exg, recordExec, GState.applyOutputs, routeEvent, NodeD.isGate, gLog, AL.get?, AL.put,
      GState.ver, Target.toDec, hg, h, xs, nodeSpanOf]

theorem step_Q (k m : Nat) (hprog : Val.changed (xs F x0 (m + 1)) (xs F x0 (m + 2)) = true) :
    stepSync nested sem gi (L2 true es sp) span k (Q F x0 (.one "b1") m) [b1] (Q F x0 (.one "b1") m) [] =
      .ok (P F x0 (m + 1)) (bLog gi span k (xs F x0 (m + 1))) := by
  have hb := hs.hb
  simp only [b1, mkNode] at hb
  have h' : Val.changed (xs F x0 (m + 1)) (F (xs F x0 (m + 1))) = true := by
    simpa [show m + 2 = (m + 1) + 1 from rfl, xs] using hprog
  simp_all [stepSync, collectInputs, resolveInput, valueSource, execNode, execFn, toParams, b1, mkNode,
      L2, P, Q, exb, exg, recordExec, GState.applyOutputs, GState.updateValue, GState.bumps, routeEvent,
      NodeD.isGate, bLog, AL.get?, AL.put, AL.merge, wrapOutputs, GState.ver, xs, nodeSpanOf]

abbrev stepFn : Nat → GState → List NodeD → StepOut :=
  fun k s rs => stepSync nested sem gi (L2 true es sp) span k s rs s []

theorem loop_S0_succ (mi f k : Nat) (log : List Log) (hprog : Val.changed (xs F x0 0) (xs F x0 1) = true) :
    runLoop (stepFn nested sem gi span es sp) (L2 true es sp) .none mi (f + 1) k (S0 x0) log =
      runLoop (stepFn nested sem gi span es sp) (L2 true es sp) .none mi f (k + 1)
        (P F x0 0) (log ++ bLog gi span k x0) := by
  rw [runLoop_succ_cons _ _ _ _ _ _ _ _ (by rw [ready_S0_open]; simp)]
  simp only [ready_S0_open, stepFn, step_S0 F c x0 nested sem gi span es sp hs k hprog]

theorem loop_P_succ (mi f k m : Nat) (log : List Log) :
    runLoop (stepFn nested sem gi span es sp) (L2 true es sp) .none mi (f + 1) k (P F x0 m) log =
      runLoop (stepFn nested sem gi span es sp) (L2 true es sp) .none mi f (k + 1)
        (Q F x0 (if c (xs F x0 (m + 1)) then .one "b1" else .end_) m)
        (log ++ gLog gi span k true (xs F x0 (m + 1)) (if c (xs F x0 (m + 1)) then .one "b1" else .end_)) := by
  rw [runLoop_succ_cons _ _ _ _ _ _ _ _ (by rw [ready_P]; simp)]
  simp only [ready_P, stepFn, step_P F c x0 nested sem gi span es sp hs]

theorem loop_Q_succ (mi f k m : Nat) (log : List Log) (hprog : Val.changed (xs F x0 (m + 1)) (xs F x0 (m + 2)) = true) :
    runLoop (stepFn nested sem gi span es sp) (L2 true es sp) .none mi (f + 1) k (Q F x0 (.one "b1") m) log =
      runLoop (stepFn nested sem gi span es sp) (L2 true es sp) .none mi f (k + 1)
        (P F x0 (m + 1)) (log ++ bLog gi span k (xs F x0 (m + 1))) := by
  rw [runLoop_succ_cons _ _ _ _ _ _ _ _ (by rw [ready_QB]; simp)]
  simp only [ready_QB, stepFn, step_Q F c x0 nested sem gi span es sp hs k m hprog]

omit hs in
theorem loop_QE (mi f k m : Nat) (log : List Log) :
    runLoop (stepFn nested sem gi span es sp) (L2 true es sp) .none mi f k (Q F x0 .end_ m) log =
      .done (Q F x0 .end_ m) log k := by
  cases f with
  | zero => rw [runLoop_zero, ready_QE]; simp
  | succ f => rw [runLoop_succ_nil _ _ _ _ _ _ _ _ (by rw [ready_QE])]; rw [ready_QE]

omit hs in
theorem loop_S0_zero (mi k : Nat) (log : List Log) :
    runLoop (stepFn nested sem gi span es sp) (L2 true es sp) .none mi 0 k (S0 x0) log =
      .fail (.infiniteLoop mi) (S0 x0) log k := by
  rw [runLoop_zero, ready_S0_open]; simp

omit hs in
theorem loop_P_zero (mi k m : Nat) (log : List Log) :
    runLoop (stepFn nested sem gi span es sp) (L2 true es sp) .none mi 0 k (P F x0 m) log =
      .fail (.infiniteLoop mi) (Pc F x0 m) log k := by
  rw [runLoop_zero, ready_P]; simp

omit hs in
theorem loop_QB_zero (mi k m : Nat) (log : List Log) :
    runLoop (stepFn nested sem gi span es sp) (L2 true es sp) .none mi 0 k (Q F x0 (.one "b1") m) log =
      .fail (.infiniteLoop mi) (Q F x0 (.one "b1") m) log k := by
  rw [runLoop_zero, ready_QB]; simp
end step

theorem calls_gLog (gi : Nat) (span : Span) (k : Nat) (v : Val) (d : Dec) :
    callsOf (fnId gi b1) (gLog gi span k true v d) = 0 ∧
    callsOf (fnId gi (gate true)) (gLog gi span k true v d) = 1 := by
  simp [callsOf, gLog, Log.isCallOf, fnId, b1, gate, mkNode]

theorem calls_bLog (gi : Nat) (span : Span) (k : Nat) (v : Val) :
    callsOf (fnId gi b1) (bLog gi span k v) = 1 ∧
    callsOf (fnId gi (gate true)) (bLog gi span k v) = 0 := by
  simp [callsOf, bLog, Log.isCallOf, fnId, b1, gate, mkNode]

theorem values_Pc (m : Nat) : (Pc F x0 m).values = [("x", xs F x0 (m + 1)), ("turn_done", .sentinel)] := by
  cases m <;> simp [Pc, P]
theorem values_Q (d : Dec) (m : Nat) : (Q F x0 d m).values = [("x", xs F x0 (m + 1)), ("turn_done", .sentinel)] := rfl

section main
variable (nested : Nested) (sem : Sem) (gi : Nat) (span : Span) (es : List Edge) (sp : InputSpec)
variable (hs : SemL2 F c sem true)
include hs

/-- from `P m` (`m+1` body executions done) with `d = n' - m` to go: exactly `2*d+1` supersteps -/
theorem loop_from (mi n' : Nat)
    (hc : ∀ j, j < n' → c (xs F x0 (j + 1)) = true) (hn : c (xs F x0 (n' + 1)) = false)
    (hprog : ∀ j, j < n' → Val.changed (xs F x0 (j + 1)) (xs F x0 (j + 2)) = true) :
    ∀ (d m fuel k : Nat) (log : List Log), m + d = n' →
      (2 * d + 1 ≤ fuel → ∃ lg,
        runLoop (stepFn nested sem gi span es sp) (L2 true es sp) .none mi fuel k (P F x0 m) log =
          .done (Q F x0 .end_ n') (log ++ lg) (k + (2 * d + 1)) ∧
        callsOf (fnId gi b1) lg = d ∧ callsOf (fnId gi (gate true)) lg = d + 1) ∧
      (fuel < 2 * d + 1 → ∃ s' lg,
        runLoop (stepFn nested sem gi span es sp) (L2 true es sp) .none mi fuel k (P F x0 m) log =
          .fail (.infiniteLoop mi) s' (log ++ lg) (k + fuel) ∧
        AL.get? s'.values "x" = some (xs F x0 (m + 1 + fuel / 2))) := by
  intro d
  induction d with
  | zero =>
    intro m fuel k log hi
    have : m = n' := by omega
    subst this
    refine ⟨fun hf => ?_, fun hf => ?_⟩
    · obtain ⟨f, rfl⟩ : ∃ f, fuel = f + 1 := ⟨fuel - 1, by omega⟩
      rw [loop_P_succ F c x0 nested sem gi span es sp hs, hn]
      simp only [Bool.false_eq_true, if_false, loop_QE]
      exact ⟨_, rfl, (calls_gLog gi span k _ _).1, (calls_gLog gi span k _ _).2⟩
    · have : fuel = 0 := by omega
      subst this
      exact ⟨Pc F x0 m, [], by rw [loop_P_zero]; simp, by simp [values_Pc, AL.get?]⟩
  | succ d ih =>
    intro m fuel k log hi
    have hci := hc m (by omega)
    have hpi := hprog m (by omega)
    cases fuel with
    | zero =>
      exact ⟨fun hf => by omega, fun _ => ⟨Pc F x0 m, [], by rw [loop_P_zero]; simp, by simp [values_Pc, AL.get?]⟩⟩
    | succ f =>
      rw [loop_P_succ F c x0 nested sem gi span es sp hs, hci]
      simp only [if_true]
      cases f with
      | zero =>
        exact ⟨fun hf => by omega, fun _ => ⟨Q F x0 (.one "b1") m, _, by rw [loop_QB_zero], by simp [values_Q, AL.get?]⟩⟩
      | succ f' =>
        rw [loop_Q_succ F c x0 nested sem gi span es sp hs _ _ _ _ _ hpi]
        obtain ⟨ih1, ih2⟩ := ih (m + 1) f' (k + 1 + 1)
          (log ++ gLog gi span k true (xs F x0 (m + 1)) (.one "b1") ++ bLog gi span (k + 1) (xs F x0 (m + 1))) (by omega)
        refine ⟨fun hf => ?_, fun hf => ?_⟩
        · obtain ⟨lg, h1, h2, h3⟩ := ih1 (by omega)
          refine ⟨gLog gi span k true (xs F x0 (m + 1)) (.one "b1") ++ bLog gi span (k + 1) (xs F x0 (m + 1)) ++ lg, ?_, ?_, ?_⟩
          · rw [h1]; simp only [List.append_assoc]; congr 1; omega
          · rw [callsOf_append, callsOf_append, h2, (calls_gLog gi span k _ _).1, (calls_bLog gi span (k + 1) _).1]; omega
          · rw [callsOf_append, callsOf_append, h3, (calls_gLog gi span k _ _).2, (calls_bLog gi span (k + 1) _).2]; omega
        · obtain ⟨s', lg, h1, h2⟩ := ih2 (by omega)
          refine ⟨s', gLog gi span k true (xs F x0 (m + 1)) (.one "b1") ++ bLog gi span (k + 1) (xs F x0 (m + 1)) ++ lg, ?_, ?_⟩
          · rw [h1]; simp only [List.append_assoc]; congr 1; omega
          · rw [h2]
            have e2 : m + 1 + (f' + 1 + 1) / 2 = m + 1 + 1 + f' / 2 := by omega
            rw [e2]
end main

def semEx (m : Int) : Sem := fun nd args =>
  match args with
  | [(_, v)] => if nd.name = "b1" then .val (Fi v) else .val (.bool (ci m v))
  | _ => .val .none

theorem semEx_ok (m : Int) (dopen : Bool) : SemL2 Fi (ci m) (semEx m) dopen :=
  ⟨fun v => by simp [semEx, b1, mkNode], fun v => by simp [semEx, gate, mkNode]⟩

end HG.L2
