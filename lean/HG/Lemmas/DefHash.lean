import HG.Model.DefHash
/-! # Lemmas for the definition-hash input (`HG/Model/DefHash.lean`)

* `enc` is a prefix code (`enc_prefix`), hence injective (`enc_inj`);
* `codeDesc` / `constDesc` / `constsDesc` are injective (`codeDesc_inj`, …);
* `bindingOf` is injective in its three arguments (`bindingOf_inj`). -/
namespace HG.DefHash

/-! ## the encoding -/

theorem encItems_eq_flatMap (l : List Desc) : encItems l = l.flatMap enc ++ [Tok.rpar] := by
  induction l with
  | nil => simp [encItems]
  | cons d ds ih => simp [encItems, ih]

/-- the defining equation of `enc` on a tuple, in `flatMap` form -/
theorem enc_tup (l : List Desc) : enc (.tup l) = Tok.lpar :: (l.flatMap enc ++ [Tok.rpar]) := by
  simp [enc, encItems_eq_flatMap]

/-- an encoding is never empty and never starts with a closing parenthesis -/
theorem enc_head (d : Desc) : ∃ t rest, enc d = t :: rest ∧ t ≠ Tok.rpar := by
  cases d with
  | atom s => exact ⟨.atom s, [], by simp [enc], by simp⟩
  | none => exact ⟨.none, [], by simp [enc], by simp⟩
  | tup l => exact ⟨.lpar, encItems l, by simp [enc], by simp⟩

mutual
/-- `enc` is a prefix code: an encoding followed by anything determines the description and the rest -/
theorem enc_prefix : ∀ (d₁ d₂ : Desc) (r₁ r₂ : List Tok),
    enc d₁ ++ r₁ = enc d₂ ++ r₂ → d₁ = d₂ ∧ r₁ = r₂
  | .atom s, d₂, r₁, r₂, h => by
    cases d₂ <;> simp_all [enc]
  | .none, d₂, r₁, r₂, h => by
    cases d₂ <;> simp_all [enc]
  | .tup l₁, d₂, r₁, r₂, h => by
    cases d₂ with
    | atom s => simp [enc] at h
    | none => simp [enc] at h
    | tup l₂ =>
      simp only [enc, List.cons_append, List.cons.injEq, true_and] at h
      have := encItems_prefix l₁ l₂ r₁ r₂ h
      exact ⟨by rw [this.1], this.2⟩
theorem encItems_prefix : ∀ (l₁ l₂ : List Desc) (r₁ r₂ : List Tok),
    encItems l₁ ++ r₁ = encItems l₂ ++ r₂ → l₁ = l₂ ∧ r₁ = r₂
  | [], [], r₁, r₂, h => by simpa [encItems] using h
  | [], d :: ds, r₁, r₂, h => by
    obtain ⟨t, rest, ht, hne⟩ := enc_head d
    simp [encItems, ht] at h
    exact absurd h.1.symm hne
  | d :: ds, [], r₁, r₂, h => by
    obtain ⟨t, rest, ht, hne⟩ := enc_head d
    simp [encItems, ht] at h
    exact absurd h.1 hne
  | d :: ds, d' :: ds', r₁, r₂, h => by
    simp only [encItems, List.append_assoc] at h
    have h₁ := enc_prefix d d' _ _ h
    have h₂ := encItems_prefix ds ds' r₁ r₂ h₁.2
    exact ⟨by rw [h₁.1, h₂.1], h₂.2⟩
end

theorem enc_inj {d₁ d₂ : Desc} (h : enc d₁ = enc d₂) : d₁ = d₂ :=
  (enc_prefix d₁ d₂ [] [] (by simpa using h)).1

/-! ## the description -/

theorem cellDesc_inj {a b : Option String} (h : cellDesc a = cellDesc b) : a = b := by
  cases a <;> cases b <;> simp_all [cellDesc]

theorem map_cellDesc_inj : ∀ {l₁ l₂ : List (Option String)}, l₁.map cellDesc = l₂.map cellDesc → l₁ = l₂
  | [], [], _ => rfl
  | [], _ :: _, h => by simp at h
  | _ :: _, [], h => by simp at h
  | a :: as, b :: bs, h => by
    simp only [List.map_cons, List.cons.injEq] at h
    rw [cellDesc_inj h.1, map_cellDesc_inj h.2]

theorem map_atom_inj : ∀ {l₁ l₂ : List String}, l₁.map Desc.atom = l₂.map Desc.atom → l₁ = l₂
  | [], [], _ => rfl
  | [], _ :: _, h => by simp at h
  | _ :: _, [], h => by simp at h
  | a :: as, b :: bs, h => by
    simp only [List.map_cons, List.cons.injEq, Desc.atom.injEq] at h
    rw [h.1, map_atom_inj h.2]

theorem bindingOf_inj {d₁ k₁ : String} {c₁ : List (Option String)} {d₂ k₂ : String} {c₂ : List (Option String)}
    (h : bindingOf d₁ k₁ c₁ = bindingOf d₂ k₂ c₂) : d₁ = d₂ ∧ k₁ = k₂ ∧ c₁ = c₂ := by
  simp only [bindingOf, Desc.tup.injEq, List.cons.injEq, Desc.atom.injEq, and_true] at h
  exact ⟨h.1, h.2.1, map_cellDesc_inj h.2.2⟩

mutual
/-- `_code_fingerprint` determines the code object -/
theorem codeDesc_inj : ∀ (a b : Code), codeDesc a = codeDesc b → a = b
  | .mk b₁ n₁ v₁ c₁, .mk b₂ n₂ v₂ c₂, h => by
    simp only [codeDesc, Desc.tup.injEq, List.cons.injEq, Desc.atom.injEq, and_true] at h
    rw [h.1, map_atom_inj h.2.1, map_atom_inj h.2.2.1, constsDesc_inj c₁ c₂ h.2.2.2]
theorem constDesc_inj : ∀ (a b : Const), constDesc a = constDesc b → a = b
  | .val r, .val s, h => by simpa [constDesc] using h
  | .val r, .code m d, h => by simp [constDesc] at h
  | .code n c, .val s, h => by simp [constDesc] at h
  | .code n c, .code m d, h => by
    simp only [constDesc, Desc.tup.injEq, List.cons.injEq, Desc.atom.injEq, and_true, true_and] at h
    rw [h.1, codeDesc_inj c d h.2]
theorem constsDesc_inj : ∀ (a b : List Const), constsDesc a = constsDesc b → a = b
  | [], [], _ => rfl
  | [], _ :: _, h => by simp [constsDesc] at h
  | _ :: _, [], h => by simp [constsDesc] at h
  | x :: xs, y :: ys, h => by
    simp only [constsDesc, List.cons.injEq] at h
    rw [constDesc_inj x y h.1, constsDesc_inj xs ys h.2]
end

theorem constsDesc_eq_map (l : List Const) : constsDesc l = l.map constDesc := by
  induction l with
  | nil => rfl
  | cons c cs ih => simp [constsDesc, ih]

end HG.DefHash
