import HG.Model.RunCached
import HG.Lemmas.Cache
import HG.Lemmas.Ready
import HG.Lemmas.DagBasic
import HG.Lemmas.Step
/-! # HG.Lemmas.RunCached — the cache threaded through a superstep, a run, a sequence of runs

Lifts the per-node transparency of `execCached` (`HG.C09.cached_exec_transparent_partial`) to
`stepSyncCached`, `runLoopCached`, `runGraphCached` and `runsCached`.

The first section defines the words used in the statements of `HG/Props/C09.lean` §8
(`CacheSoundOn`, `CacheInv`, `CacheOK`, `ExecIs`, `NoNoneDec`, `InjAt`, `CallsInj`, `LogRel`, `RunSim`,
`execPlain`, `PlainCacheable`, `GP`, `routingOf`); later sections add `StepSim`, `LoopSim`, `RunsSim` and,
for the general case without `NoNoneDec`, `DecOK`, `StateSim`, `eraseRoute`, `LogRelR`, `startsOf`,
`StepSimB`, `LoopSimB`, `RunSimB`, `RunsSimB`. The rest are helper lemmas and the simulation proofs:

* exact case (`NoNoneDec`): `execCached_sim` → `stepSyncCached_sim` → `runLoopCached_sim` →
  `runGraphCached_sim` → `runsCached_sim` (states equal, logs `LogRel`);
* general case: `stepSyncCached_simB` → `runLoopCached_simB` → `runGraphCached_simB` → `runsCached_simB`
  (states `StateSim`, logs `LogRelR`), using `ready_sim` (both runs see the same ready sets);
* `cacheOK_plain`, `noNoneDec_plain`, `execIs_plain`: the hypotheses discharged for `execPlain`;
* fixtures for the non-vacuity examples (`progRC`, `envRC`, `progNN`, `envNN`, `toyHash`). -/
namespace HG.Cache
open HG

/-! ## vocabulary -/
section Vocabulary

/-- `CacheSound` relative to a class `P` of executions `(node, inputs dict)` — in the theorems: the nodes
of the graph being run, on inputs dicts whose keys are the node's input names (`GP`): every entry found
under the key of a cacheable `P`-execution is what that execution yields. Entries under other keys are
unconstrained. -/
def CacheSoundOn (P : NodeD → AL Val → Prop) (env : KeyEnv) (exec : NodeD → AL Val → NodeOut)
    (cache : Lru (AL Val)) : Prop :=
  ∀ nd inputs entry, P nd inputs → nd.cache = true →
    AL.get? cache.data (keyOf env nd inputs) = some entry →
    ∃ outs dec, outcome (exec nd inputs) = some (outs, dec) ∧ entry = toCache nd outs dec

/-- what a run needs of the cache it starts from — and re-establishes for the cache it leaves -/
def CacheInv (P : NodeD → AL Val → Prop) (env : KeyEnv) (exec : NodeD → AL Val → NodeOut)
    (cache : Lru (AL Val)) : Prop :=
  cache.WF ∧ CacheSoundOn P env exec cache

/-- the standing hypotheses on the cacheable `P`-executions, relative to the reference executor `exec`:
`ExecRespectsKey`, `GateOnlyDec`, `NoInternalKey` (`HG/Lemmas/Cache.lean`) restricted to those.
(Unrestricted, `ExecRespectsKey` and `NoInternalKey` are false of every real executor: two arbitrary
`NodeD` values with the same `outputs` may split them differently into data and emit outputs, an
arbitrary `NodeD` may have an output named `__routing_decision__`, and a positional `Sem` such as
`bodySem` is sensitive to the order of an inputs dict whose keys are not the node's inputs.) -/
structure CacheOK (P : NodeD → AL Val → Prop) (env : KeyEnv) (exec : NodeD → AL Val → NodeOut) : Prop where
  /-- same identity and same parameter-level arguments ⇒ same outcome -/
  resp : ∀ nd nd' i i', P nd i → P nd' i' → nd.cache = true → nd'.cache = true →
    cacheKey (identOf env nd) (toParams nd i) = cacheKey (identOf env nd') (toParams nd' i') →
    outcome (exec nd i) = outcome (exec nd' i')
  /-- only gates assign a routing decision -/
  gateOnly : ∀ nd i, P nd i → nd.cache = true → nd.isGate = false → (exec nd i).dec = none
  /-- no output is literally named `__routing_decision__` -/
  noKey : ∀ nd i outs, P nd i → nd.cache = true → (exec nd i).res = .ok outs → AL.has outs routingKey = false

/-- the executor the superstep uses (`execNode`, which also sees the step-local state and the node's
span) is, on the cacheable `P`-nodes, the state-independent reference executor `exec`; its log records the
invocation `(fnId, parameter-level arguments)` — what the cache key is computed from — and nothing but
invocations -/
structure ExecIs (nested : Nested) (sem : Sem) (gi : Nat) (P : NodeD → AL Val → Prop)
    (exec : NodeD → AL Val → NodeOut) : Prop where
  eq : ∀ nd i ns sp, P nd i → nd.cache = true → execNode nested sem gi nd i ns sp = exec nd i
  call : ∀ nd i, P nd i → nd.cache = true → (fnId gi nd, toParams nd i) ∈ callsOf (exec nd i).log
  callsOnly : ∀ nd i, P nd i → nd.cache = true → eraseCache (exec nd i).log = []

/-- no cacheable `P`-node ever assigns the decision `None` (a route gate without fallback whose function
returns `None`): the one case in which a hit is not transparent for the routing decisions, see
`HG.C09.cached_exec_transparent_partial` -/
def NoNoneDec (P : NodeD → AL Val → Prop) (exec : NodeD → AL Val → NodeOut) : Prop :=
  ∀ nd i, P nd i → nd.cache = true → (exec nd i).dec ≠ some Dec.none

/-- SHA-256 has no collision with this hashed content -/
def InjAt (env : KeyEnv) (K : Key) : Prop := ∀ K', env.hash K' = env.hash K → K' = K

/-- "hash injectivity on the keys that occur": `calls` are the invocations `(fnId, arguments)` of a run;
for every cacheable `P`-execution invoked in it, the key of that invocation has no collision. (Implied
by `∀ a b, env.hash a = env.hash b → a = b`.) -/
def CallsInj (env : KeyEnv) (P : NodeD → AL Val → Prop) (gi : Nat) (calls : List (String × AL Val)) : Prop :=
  ∀ nd i, P nd i → nd.cache = true → (fnId gi nd, toParams nd i) ∈ calls →
    InjAt env (cacheKey (identOf env nd) (toParams nd i))

/-- cached log `lc` against uncached log `lu`: equal modulo what the cache may change, and every
invocation of `lc` is an invocation of `lu`, in the same order (no extra, no reordered calls) -/
def LogRel (lc lu : List Log) : Prop :=
  eraseCache lc = eraseCache lu ∧ (callsOf lc).Sublist (callsOf lu)

/-- the routing decisions announced in a log: `(gate, decision)` of every `RouteDecision` event -/
def routingOf : List Log → List (Name × String)
  | [] => []
  | .ev e :: rest => if e.kind = "RouteDecision" then (e.name, e.info) :: routingOf rest else routingOf rest
  | _ :: rest => routingOf rest

/-- cached run output `rc` against uncached `ru`: every field but the log equal; the logs `LogRel` -/
structure RunSim (rc ru : RunOut) : Prop where
  status : rc.status = ru.status
  values : rc.values = ru.values
  error : rc.error = ru.error
  raised : rc.raised = ru.raised
  pause : rc.pause = ru.pause
  warnings : rc.warnings = ru.warnings
  log : LogRel rc.log ru.log

/-- the executor of function nodes and gates: it depends on neither the step-local state nor the span.
(Graph nodes are never cacheable; a cacheable interrupt node is outside the theorems, see
`PlainCacheable`; for those kinds the value is a dummy that is never used.) -/
def execPlain (sem : Sem) (gi : Nat) : NodeD → AL Val → NodeOut := fun nd inputs =>
  match nd.kind with
  | .fn => execFn sem gi nd inputs
  | .ifelse => execIfElse sem gi nd inputs
  | .route => execRoute sem gi nd inputs
  | _ => { res := .error .depth }

/-- every cacheable node of the graph is a function node or a gate. (`cache=True` on a graph node is a
build error; an `InterruptNode` accepts `cache=True`, but its executor reads the run state — the resume
path — so it has no state-independent reference executor.) -/
def PlainCacheable (g : GraphD) : Prop :=
  ∀ nd ∈ g.nodes, nd.cache = true → nd.kind = .fn ∨ nd.kind = .ifelse ∨ nd.kind = .route

/-- the executions a run of `g` can make: a node of `g`, on an inputs dict whose keys are the node's input
names in order (what `collect_inputs_for_node` returns) -/
def GP (g : GraphD) : NodeD → AL Val → Prop := fun nd i => nd ∈ g.nodes ∧ AL.keys i = nd.inputs

end Vocabulary

/-! ## the empty cache, weakening -/

theorem cacheSoundOn_empty (P : NodeD → AL Val → Prop) (env : KeyEnv) (exec : NodeD → AL Val → NodeOut)
    (ms : Option Nat) : CacheSoundOn P env exec (Lru.empty ms) := by
  intro nd inputs entry _ _ h
  simp [Lru.empty] at h

theorem cacheInv_empty (P : NodeD → AL Val → Prop) (env : KeyEnv) (exec : NodeD → AL Val → NodeOut)
    (ms : Option Nat) : CacheInv P env exec (Lru.empty ms) :=
  ⟨Lru.WF.empty ms, cacheSoundOn_empty P env exec ms⟩

theorem CacheSound.on {env : KeyEnv} {exec : NodeD → AL Val → NodeOut} {cache : Lru (AL Val)}
    (h : CacheSound env exec cache) (P : NodeD → AL Val → Prop) : CacheSoundOn P env exec cache :=
  fun nd inputs entry _ hc hg => h nd inputs entry hc hg

theorem callsInj_of_injective (env : KeyEnv) (hinj : ∀ a b, env.hash a = env.hash b → a = b)
    (P : NodeD → AL Val → Prop) (gi : Nat) (calls : List (String × AL Val)) : CallsInj env P gi calls :=
  fun _ _ _ _ _ _ h => hinj _ _ h

theorem CallsInj.mono {env : KeyEnv} {P : NodeD → AL Val → Prop} {gi : Nat}
    {c₁ c₂ : List (String × AL Val)}
    (h : CallsInj env P gi c₂) (hs : ∀ x ∈ c₁, x ∈ c₂) : CallsInj env P gi c₁ :=
  fun nd i hP hc hm => h nd i hP hc (hs _ hm)

theorem collectInputs_keys' (g : GraphD) (s : GState) (nd : NodeD) : ∀ (ps : List Name) (i : AL Val),
    collectInputs g s nd ps = some i → AL.keys i = ps
  | [], i, h => by simp [collectInputs] at h; subst h; rfl
  | p :: ps, i, h => by
    simp only [collectInputs] at h
    split at h
    · rename_i v rest _ hrest
      have := collectInputs_keys' g s nd ps rest hrest
      simp at h; subst h
      simp [AL.keys] at this ⊢; exact this
    · cases h

/-! ## logs -/

theorem callsOf_append (a b : List Log) : callsOf (a ++ b) = callsOf a ++ callsOf b := by
  induction a with
  | nil => rfl
  | cons x t ih => cases x <;> simp [callsOf, ih]

theorem eraseCache_append (a b : List Log) : eraseCache (a ++ b) = eraseCache a ++ eraseCache b := by
  simp [eraseCache, List.filterMap_append]

theorem callsOf_ev (e : Ev) : callsOf [Log.ev e] = [] := rfl

theorem eraseCache_cons (x : Log) (t : List Log) :
    eraseCache (x :: t) = (eraseCache1 x).toList ++ eraseCache t := by
  simp only [eraseCache, List.filterMap_cons]
  cases eraseCache1 x <;> rfl

theorem callsOf_eraseCache (l : List Log) : callsOf (eraseCache l) = [] := by
  induction l with
  | nil => rfl
  | cons x t ih =>
    rw [eraseCache_cons, callsOf_append, ih]
    cases x with
    | call fn args => simp [eraseCache1, callsOf]
    | shutdown => simp [eraseCache1, callsOf]
    | ev e =>
      simp only [eraseCache1]
      by_cases h1 : e.kind = "CacheHit"
      · simp [h1, callsOf]
      · by_cases h2 : e.kind = "NodeEnd" <;> simp [h1, h2, callsOf]

theorem routingOf_append (a b : List Log) : routingOf (a ++ b) = routingOf a ++ routingOf b := by
  induction a with
  | nil => rfl
  | cons x t ih =>
    cases x with
    | ev e => by_cases h : e.kind = "RouteDecision" <;> simp [routingOf, h, ih]
    | _ => simp [routingOf, ih]

/-- the routing decisions of a log survive the erasure -/
theorem routingOf_eraseCache (l : List Log) : routingOf (eraseCache l) = routingOf l := by
  induction l with
  | nil => rfl
  | cons x t ih =>
    rw [eraseCache_cons, routingOf_append, ih]
    cases x with
    | call fn args => simp [eraseCache1, routingOf]
    | shutdown => simp [eraseCache1, routingOf]
    | ev e =>
      simp only [eraseCache1]
      by_cases h1 : e.kind = "CacheHit"
      · simp [h1, routingOf]
      · by_cases h2 : e.kind = "NodeEnd"
        · simp [h2, routingOf]
        · by_cases h3 : e.kind = "RouteDecision" <;> simp [h1, h2, h3, routingOf]

theorem LogRel.refl (l : List Log) : LogRel l l := ⟨rfl, List.Sublist.refl _⟩

theorem LogRel.append {a a' b b' : List Log} (h₁ : LogRel a a') (h₂ : LogRel b b') :
    LogRel (a ++ b) (a' ++ b') := by
  refine ⟨?_, ?_⟩
  · rw [eraseCache_append, eraseCache_append, h₁.1, h₂.1]
  · rw [callsOf_append, callsOf_append]; exact h₁.2.append h₂.2

theorem LogRel.routing {lc lu : List Log} (h : LogRel lc lu) : routingOf lc = routingOf lu := by
  rw [← routingOf_eraseCache lc, h.1, routingOf_eraseCache]

/-! ## the reference executor of function nodes and gates -/

theorem execNode_plain (nested : Nested) (sem : Sem) (gi : Nat) (nd : NodeD) (i : AL Val) (ns : GState)
    (sp : Span) (h : nd.kind = .fn ∨ nd.kind = .ifelse ∨ nd.kind = .route) :
    execNode nested sem gi nd i ns sp = execPlain sem gi nd i := by
  rcases h with h | h | h <;> simp [execNode, execPlain, h]

theorem execPlain_log (sem : Sem) (gi : Nat) (nd : NodeD) (i : AL Val)
    (h : nd.kind = .fn ∨ nd.kind = .ifelse ∨ nd.kind = .route) :
    (execPlain sem gi nd i).log = [Log.call (fnId gi nd) (toParams nd i)] := by
  rcases h with h | h | h <;> simp only [execPlain, h]
  · exact execFn_log sem gi nd i
  · exact execIfElse_log sem gi nd i
  · exact execRoute_log sem gi nd i

/-- for a graph whose cacheable nodes are function nodes and gates, `execPlain` is the reference
executor of the superstep -/
theorem execIs_plain (nested : Nested) (sem : Sem) (gi : Nat) (g : GraphD) (hg : PlainCacheable g) :
    ExecIs nested sem gi (GP g) (execPlain sem gi) where
  eq := fun nd i ns sp hP hc => execNode_plain nested sem gi nd i ns sp (hg nd hP.1 hc)
  call := fun nd i hP hc => by rw [execPlain_log sem gi nd i (hg nd hP.1 hc)]; simp [callsOf]
  callsOnly := fun nd i hP hc => by
    rw [execPlain_log sem gi nd i (hg nd hP.1 hc)]; simp [eraseCache, eraseCache1]

/-- `execPlain` assigns a decision only for gates (no hypothesis on `sem`) -/
theorem execPlain_gateOnly (sem : Sem) (gi : Nat) (nd : NodeD) (i : AL Val) (h : nd.isGate = false) :
    (execPlain sem gi nd i).dec = none := by
  cases hk : nd.kind with
  | fn =>
    simp only [execPlain, hk, execFn]
    split
    · rfl
    · rfl
    · split <;> rfl
  | ifelse => simp [NodeD.isGate, hk] at h
  | route => simp [NodeD.isGate, hk] at h
  | graph => simp [execPlain, hk]
  | interrupt => simp [execPlain, hk]

/-- an `ifelse` gate never decides `None` -/
theorem execIfElse_dec_ne_none (sem : Sem) (gi : Nat) (nd : NodeD) (i : AL Val) :
    (execIfElse sem gi nd i).dec ≠ some Dec.none := by
  unfold execIfElse
  simp only []
  split
  · simp
  · simp only [ne_eq, Option.some.injEq]
    split <;> (cases h : List.getD nd.targets _ _ <;> simp [Target.toDec])
  · simp

/-! ## one node -/

/-- `HG.C09.cached_exec_transparent_partial` relative to a class of nodes, and for an executor `exec'`
that agrees with the reference executor `exec` on the node being executed -/
theorem execCached_sim (P : NodeD → AL Val → Prop) (env : KeyEnv) (exec exec' : NodeD → AL Val → NodeOut)
    (cache : Lru (AL Val)) (nd : NodeD) (inputs : AL Val)
    (hinv : CacheInv P env exec cache) (hok : CacheOK P env exec)
    (hP : nd.cache = true → P nd inputs)
    (hex : nd.cache = true → exec' nd inputs = exec nd inputs)
    (hinj : nd.cache = true → InjAt env (cacheKey (identOf env nd) (toParams nd inputs))) :
    let r := execCached env cache nd inputs exec'
    let u := exec' nd inputs
    r.res = u.res ∧ r.pause = u.pause ∧
    (r.dec = u.dec ∨ (r.called = false ∧ u.dec = some Dec.none ∧ r.dec = none)) ∧
    (r.called = false → nd.cache = true ∧ r.pause = none ∧ ∃ outs, r.res = .ok outs) ∧
    CacheInv P env exec r.cache := by
  obtain ⟨hwf, hsound⟩ := hinv
  cases hc : nd.cache with
  | false =>
    intro r u
    have hr : r = _ := execCached_nocache env cache nd inputs exec' hc
    rw [hr]
    exact ⟨rfl, rfl, Or.inl rfl, fun h => (by cases h), hwf, hsound⟩
  | true =>
    have hPn := hP hc
    have hex' := hex hc
    cases hg : AL.get? cache.data (keyOf env nd inputs) with
    | some entry =>
      intro r u
      have hr : r = _ := execCached_hit env cache nd inputs exec' hc entry hg
      obtain ⟨outs, dec, hout, hentry⟩ := hsound nd inputs entry hPn hc hg
      have hu : u = exec nd inputs := hex'
      have hres : u.res = .ok outs ∧ u.pause = none ∧ u.dec = dec := by
        rw [hu]; exact outcome_some hout
      have hrest := restore_toCache nd outs dec
        (hok.noKey nd inputs outs hPn hc (by rw [← hu]; exact hres.1))
        (fun hgate => by
          have := hok.gateOnly nd inputs hPn hc hgate
          rw [← hu] at this
          rw [← hres.2.2]; exact this)
      rw [← hentry] at hrest
      rw [hr, hrest]
      refine ⟨hres.1.symm, hres.2.1.symm, ?_, fun _ => ⟨rfl, rfl, outs, rfl⟩, hwf.get _, ?_⟩
      · rw [hres.2.2]
        by_cases hd : dec = some Dec.none
        · exact Or.inr ⟨rfl, hd, by simp [hd]⟩
        · exact Or.inl (by simp [hd])
      · intro nd' in' e' hP' hc' hg'
        rw [Lru.get?_get_fst hwf] at hg'
        exact hsound nd' in' e' hP' hc' hg'
    | none =>
      intro r u
      have hr : r = _ := execCached_miss env cache nd inputs exec' hc hg
      rw [hr]
      refine ⟨rfl, rfl, Or.inl rfl, fun h => (by cases h), ?_⟩
      cases ho : outcome (exec' nd inputs) with
      | none => exact ⟨hwf, hsound⟩
      | some od =>
        obtain ⟨outs, dec⟩ := od
        refine ⟨hwf.set _ _, ?_⟩
        intro nd' in' e' hP' hc' hg'
        have := Lru.get?_step_sub hwf (Op.set (keyOf env nd inputs) (toCache nd outs dec)) _ e' hg'
        by_cases hk : keyOf env nd inputs = keyOf env nd' in'
        · simp only [opSet, hk, if_true, Option.some_or] at this
          have hK := hinj hc _ hk.symm
          have hout' : outcome (exec nd' in') = some (outs, dec) := by
            rw [hok.resp nd' nd in' inputs hP' hPn hc' hc hK, ← hex']; exact ho
          refine ⟨outs, dec, hout', ?_⟩
          have hid : identOf env nd' = identOf env nd := (congrArg Prod.fst hK)
          have hgate := isGate_of_ident hid
          rw [← Option.some.inj this]
          simp [toCache, hgate]
        · simp only [opSet, hk, if_false, Option.none_or] at this
          exact hsound nd' in' e' hP' hc' this

/-! ## one superstep -/

/-- cached step result against uncached: same constructor, same state / error / pause, logs `LogRel` -/
def StepSim : StepOut → StepOut → Prop
  | .ok ns l, .ok ns' l' => ns = ns' ∧ LogRel l l'
  | .fail e ps l, .fail e' ps' l' => e = e' ∧ ps = ps' ∧ LogRel l l'
  | .pause p ps l, .pause p' ps' l' => p = p' ∧ ps = ps' ∧ LogRel l l'
  | _, _ => False

theorem stepSync_log_prefix (nested : Nested) (sem : Sem) (gi : Nat) (g : GraphD) (runSpan : Span) (k : Nat)
    (s : GState) : ∀ (rs : List NodeD) (ns : GState) (log : List Log),
    ∃ d, (stepSync nested sem gi g runSpan k s rs ns log).log = log ++ d := by
  intro rs
  induction rs with
  | nil => intro ns log; exact ⟨[], by simp [stepSync, StepOut.log]⟩
  | cons nd rest ih =>
    intro ns log
    simp only [stepSync]
    split
    · exact ⟨[], by simp [StepOut.log]⟩
    · split
      · exact ⟨_, by simp only [StepOut.log, List.append_assoc]; rfl⟩
      · split
        · exact ⟨_, by simp only [StepOut.log, List.append_assoc]; rfl⟩
        · obtain ⟨d, hd⟩ := ih _ _
          rw [hd]
          exact ⟨_, by simp only [List.append_assoc]; rfl⟩

/-- the invocations of the first node are invocations of the step -/
theorem stepSync_cons_calls (nested : Nested) (sem : Sem) (gi : Nat) (g : GraphD) (runSpan : Span) (k : Nat)
    (s : GState) (nd : NodeD) (rest : List NodeD) (ns : GState) (log : List Log) (inputs : AL Val)
    (hci : collectInputs g s nd nd.inputs = some inputs) :
    ∀ x ∈ callsOf (execNode nested sem gi nd inputs ns (nodeSpanOf runSpan k nd)).log,
      x ∈ callsOf (stepSync nested sem gi g runSpan k s (nd :: rest) ns log).log := by
  intro x hx
  simp only [stepSync, hci]
  split
  · simp [StepOut.log, callsOf_append, callsOf, hx]
  · split
    · simp [StepOut.log, callsOf_append, callsOf, hx]
    · obtain ⟨d, hd⟩ := stepSync_log_prefix nested sem gi g runSpan k s rest _ _
      rw [hd]
      simp [callsOf_append, callsOf, hx]

theorem logRel_nodeEnd (sp : Span) (par : Option Span) (nm : Name) (i : String) :
    LogRel [Log.ev { kind := "NodeEnd", span := sp, parent := par, name := nm, info := i }]
      [Log.ev { kind := "NodeEnd", span := sp, parent := par, name := nm }] := by
  refine ⟨?_, List.Sublist.refl _⟩
  simp [eraseCache, eraseCache1]

theorem logRel_hit (sp runSpan : Span) (nd : NodeD) (key : Name) (l : List Log) (h : eraseCache l = []) :
    LogRel [cacheHitEv sp runSpan nd key] l := by
  refine ⟨?_, ?_⟩
  · rw [h]; simp [eraseCache, eraseCache1, cacheHitEv]
  · simp [cacheHitEv, callsOf]

/-- ONE SUPERSTEP. Under the standing hypotheses, from a sound cache, with no `None` decision among the
cacheable nodes, the cached superstep returns the state (or error and partial state, or pause) of the
uncached superstep, a log that is `LogRel` to the uncached one, and a sound cache. -/
theorem stepSyncCached_sim (P : NodeD → AL Val → Prop) (env : KeyEnv) (exec : NodeD → AL Val → NodeOut)
    (nested : Nested) (sem : Sem) (gi : Nat) (g : GraphD) (runSpan : Span) (k : Nat) (s : GState)
    (hok : CacheOK P env exec) (his : ExecIs nested sem gi P exec) (hnn : NoNoneDec P exec) :
    ∀ (rs : List NodeD),
      (∀ nd ∈ rs, ∀ i, collectInputs g s nd nd.inputs = some i → nd.cache = true → P nd i) →
    ∀ (ns : GState) (log logc : List Log) (c : Lru (AL Val)),
      CacheInv P env exec c → LogRel logc log →
      CallsInj env P gi (callsOf (stepSync nested sem gi g runSpan k s rs ns log).log) →
      StepSim (stepSyncCached env nested sem gi g runSpan k s rs ns logc c).1
        (stepSync nested sem gi g runSpan k s rs ns log) ∧
      CacheInv P env exec (stepSyncCached env nested sem gi g runSpan k s rs ns logc c).2 := by
  intro rs
  induction rs with
  | nil =>
    intro _ ns log logc c hinv hlr _
    exact ⟨⟨rfl, hlr⟩, hinv⟩
  | cons nd rest ih =>
    intro hrs ns log logc c hinv hlr hinj
    cases hci : collectInputs g s nd nd.inputs with
    | none =>
      simp only [stepSync, stepSyncCached, hci]
      exact ⟨⟨rfl, rfl, hlr⟩, hinv⟩
    | some inputs =>
      have hPn : nd.cache = true → P nd inputs := hrs nd (List.mem_cons_self ..) inputs hci
      have hcalls := stepSync_cons_calls nested sem gi g runSpan k s nd rest ns log inputs hci
      have hu : nd.cache = true → execNode nested sem gi nd inputs ns (nodeSpanOf runSpan k nd) = exec nd inputs :=
        fun hc => his.eq nd inputs ns _ (hPn hc) hc
      have hsim := execCached_sim P env exec (nodeExec nested sem gi ns (nodeSpanOf runSpan k nd)) c nd inputs
        hinv hok hPn hu
        (fun hc => hinj nd inputs (hPn hc) hc
          (hcalls _ (by rw [hu hc]; exact his.call nd inputs (hPn hc) hc)))
      simp only [stepSync, stepSyncCached, hci, nodeExec] at hinj hsim ⊢
      generalize execCached env c nd inputs (nodeExec nested sem gi ns (nodeSpanOf runSpan k nd)) = r
        at hsim ⊢
      generalize execNode nested sem gi nd inputs ns (nodeSpanOf runSpan k nd) = u at hsim hinj hu ⊢
      obtain ⟨h1, h2, h3, h4, hinv'⟩ := hsim
      obtain ⟨rres, rdec, rpause, rcalled, rcache⟩ := r
      subst h1 h2
      have hdec : rdec = u.dec := by
        rcases h3 with h3 | ⟨hcl, hd, _⟩
        · exact h3
        · have hc := (h4 hcl).1
          rw [hu hc] at hd
          exact absurd hd (hnn nd inputs (hPn hc) hc)
      subst hdec
      dsimp only at h4 hinv' ⊢
      have hmid : LogRel (if rcalled = true then u.log
          else [cacheHitEv (nodeSpanOf runSpan k nd) runSpan nd (keyOf env nd inputs)]) u.log := by
        cases rcalled with
        | true => exact LogRel.refl _
        | false =>
          have hc := (h4 rfl).1
          refine logRel_hit _ _ _ _ _ ?_
          rw [hu hc]; exact his.callsOnly nd inputs (hPn hc) hc
      generalize (if rcalled = true then u.log
          else [cacheHitEv (nodeSpanOf runSpan k nd) runSpan nd (keyOf env nd inputs)]) = mid at hmid ⊢
      cases hp : u.pause with
      | some p =>
        exact ⟨⟨rfl, rfl, ((hlr.append (LogRel.refl _)).append hmid).append (LogRel.refl _)⟩, hinv'⟩
      | none =>
        cases hres : u.res with
        | error e =>
          exact ⟨⟨rfl, rfl, ((hlr.append (LogRel.refl _)).append hmid).append (LogRel.refl _)⟩, hinv'⟩
        | ok outs =>
          simp only [hp, hres] at hinj ⊢
          exact ih (fun nd h => hrs nd (List.mem_cons_of_mem _ h)) _ _ _ _ hinv'
            ((((hlr.append (LogRel.refl _)).append hmid).append (LogRel.refl _)).append
              (logRel_nodeEnd _ _ _ _)) hinj

/-! ## the loop -/

/-- cached loop result against uncached: same constructor, state, step count; logs `LogRel` -/
def LoopSim : LoopOut → LoopOut → Prop
  | .done s l n, .done s' l' n' => s = s' ∧ n = n' ∧ LogRel l l'
  | .fail e ps l n, .fail e' ps' l' n' => e = e' ∧ ps = ps' ∧ n = n' ∧ LogRel l l'
  | .pause p ps l n, .pause p' ps' l' n' => p = p' ∧ ps = ps' ∧ n = n' ∧ LogRel l l'
  | _, _ => False

theorem runLoop_log_prefix (step : Nat → GState → List NodeD → StepOut) (g : GraphD)
    (act : Option (List Name)) (mi : Nat) : ∀ (fuel k : Nat) (s : GState) (log : List Log),
    ∃ d, (runLoop step g act mi fuel k s log).log = log ++ d := by
  intro fuel
  induction fuel with
  | zero =>
    intro k s log
    unfold runLoop
    simp only []
    split <;> exact ⟨[], by simp [LoopOut.log]⟩
  | succ fuel ih =>
    intro k s log
    unfold runLoop
    split
    · exact ⟨[], by simp [LoopOut.log]⟩
    · split
      · obtain ⟨d, hd⟩ := ih _ _ _
        rw [hd]
        exact ⟨_, by simp only [List.append_assoc]; rfl⟩
      · exact ⟨_, rfl⟩
      · exact ⟨_, rfl⟩

/-- THE LOOP, for any pair of step functions related as `stepSyncCached_sim` relates `stepSyncCached` and
`stepSync` on ready sets drawn from the graph's nodes -/
theorem runLoopCached_sim (P : NodeD → AL Val → Prop) (env : KeyEnv) (exec : NodeD → AL Val → NodeOut) (gi : Nat)
    (stepU : Nat → GState → List NodeD → StepOut)
    (stepC : Nat → GState → List NodeD → Lru (AL Val) → StepOut × Lru (AL Val))
    (g : GraphD) (act : Option (List Name)) (mi : Nat)
    (hstep : ∀ k s rs c, (∀ nd ∈ rs, nd ∈ g.nodes) → CacheInv P env exec c →
      CallsInj env P gi (callsOf (stepU k s rs).log) →
      StepSim (stepC k s rs c).1 (stepU k s rs) ∧ CacheInv P env exec (stepC k s rs c).2) :
    ∀ (fuel k : Nat) (s : GState) (log logc : List Log) (c : Lru (AL Val)),
      CacheInv P env exec c → LogRel logc log →
      CallsInj env P gi (callsOf (runLoop stepU g act mi fuel k s log).log) →
      LoopSim (runLoopCached stepC g act mi fuel k s logc c).1 (runLoop stepU g act mi fuel k s log) ∧
      CacheInv P env exec (runLoopCached stepC g act mi fuel k s logc c).2 := by
  intro fuel
  induction fuel with
  | zero =>
    intro k s log logc c hinv hlr _
    unfold runLoop runLoopCached
    simp only []
    split <;> exact ⟨⟨rfl, rfl, by first | exact hlr | exact ⟨rfl, hlr⟩⟩, hinv⟩
  | succ fuel ih =>
    intro k s log logc c hinv hlr hinj
    have hmem : ∀ nd ∈ (ready g act s).1, nd ∈ g.nodes := fun nd h => ready_mem_nodes h
    unfold runLoop at hinj ⊢
    unfold runLoopCached
    cases hr : ready g act s with
    | mk rs s1 =>
      rw [hr] at hmem hinj
      cases rs with
      | nil => exact ⟨⟨rfl, rfl, hlr⟩, hinv⟩
      | cons nd rest =>
        simp only [] at hinj hmem ⊢
        have hs := hstep k s1 (nd :: rest) c hmem hinv
        generalize stepC k s1 (nd :: rest) c = C at hs ⊢
        generalize stepU k s1 (nd :: rest) = U at hs hinj ⊢
        obtain ⟨C1, c1⟩ := C
        cases U with
        | ok ns l =>
          obtain ⟨d, hd⟩ := runLoop_log_prefix stepU g act mi fuel (k + 1) ns (log ++ l)
          have hinjs : CallsInj env P gi (callsOf l) :=
            hinj.mono (by intro x hx; simp only []; rw [hd]; simp [callsOf_append, hx])
          obtain ⟨hsim, hinv1⟩ := hs hinjs
          cases C1 with
          | ok ns' l' =>
            obtain ⟨rfl, hl⟩ := hsim
            exact ih _ _ _ _ _ hinv1 (hlr.append hl) hinj
          | fail _ _ _ => exact hsim.elim
          | pause _ _ _ => exact hsim.elim
        | fail e ps l =>
          have hinjs : CallsInj env P gi (callsOf l) :=
            hinj.mono (by intro x hx; simp [LoopOut.log, callsOf_append, hx])
          obtain ⟨hsim, hinv1⟩ := hs hinjs
          cases C1 with
          | fail e' ps' l' =>
            obtain ⟨rfl, rfl, hl⟩ := hsim
            exact ⟨⟨rfl, rfl, rfl, hlr.append hl⟩, hinv1⟩
          | ok _ _ => exact hsim.elim
          | pause _ _ _ => exact hsim.elim
        | pause p ps l =>
          have hinjs : CallsInj env P gi (callsOf l) :=
            hinj.mono (by intro x hx; simp [LoopOut.log, callsOf_append, hx])
          obtain ⟨hsim, hinv1⟩ := hs hinjs
          cases C1 with
          | pause p' ps' l' =>
            obtain ⟨rfl, rfl, hl⟩ := hsim
            exact ⟨⟨rfl, rfl, rfl, hlr.append hl⟩, hinv1⟩
          | ok _ _ => exact hsim.elim
          | fail _ _ _ => exact hsim.elim

/-! ## a run -/

/-- `runGraph` (sync runner) is its loop followed by `finishRunC` -/
theorem runGraph_sync_eq (nested : Nested) (sem : Sem) (gi : Nat) (g : GraphD) (values : AL Val)
    (cfg : RunCfg) (span : Span) (parent : Option Span) :
    runGraph nested sem .sync gi g values cfg span parent =
      finishRunC g cfg span parent
        (runLoop (fun k s rs => stepSync nested sem gi g span k s rs s []) g (activeNodeSet g)
          cfg.maxIter cfg.maxIter 0 (initState values) [runStartEv span parent g ""]) := rfl

theorem finishRunC_log_prefix (g : GraphD) (cfg : RunCfg) (span : Span) (parent : Option Span)
    (lo : LoopOut) : ∃ d, (finishRunC g cfg span parent lo).log = lo.log ++ d := by
  cases lo with
  | done s log n =>
    simp only [finishRunC, LoopOut.log]
    split
    · exact ⟨_, by simp only [List.append_assoc]; rfl⟩
    · split <;> exact ⟨_, by simp only [List.append_assoc]; rfl⟩
  | fail e ps log n =>
    simp only [finishRunC, LoopOut.log]
    split <;> exact ⟨_, by simp only [List.append_assoc]; rfl⟩
  | pause p ps log n => exact ⟨_, rfl⟩

theorem finishRunC_sim (g : GraphD) (cfg : RunCfg) (span : Span) (parent : Option Span)
    {lc lu : LoopOut} (h : LoopSim lc lu) :
    RunSim (finishRunC g cfg span parent lc) (finishRunC g cfg span parent lu) := by
  cases lc with
  | done s l n =>
    cases lu with
    | done s' l' n' =>
      obtain ⟨rfl, rfl, hl⟩ := h
      simp only [finishRunC]
      split
      · exact ⟨rfl, rfl, rfl, rfl, rfl, rfl, (hl.append (LogRel.refl _)).append (LogRel.refl _)⟩
      · split <;> exact ⟨rfl, rfl, rfl, rfl, rfl, rfl, (hl.append (LogRel.refl _)).append (LogRel.refl _)⟩
    | fail _ _ _ _ => exact h.elim
    | pause _ _ _ _ => exact h.elim
  | fail e ps l n =>
    cases lu with
    | fail e' ps' l' n' =>
      obtain ⟨rfl, rfl, rfl, hl⟩ := h
      simp only [finishRunC]
      split <;> exact ⟨rfl, rfl, rfl, rfl, rfl, rfl, (hl.append (LogRel.refl _)).append (LogRel.refl _)⟩
    | done _ _ _ => exact h.elim
    | pause _ _ _ _ => exact h.elim
  | pause p ps l n =>
    cases lu with
    | pause p' ps' l' n' =>
      obtain ⟨rfl, rfl, rfl, hl⟩ := h
      exact ⟨rfl, rfl, rfl, rfl, rfl, rfl, hl.append (LogRel.refl _)⟩
    | done _ _ _ => exact h.elim
    | fail _ _ _ _ => exact h.elim

/-- A WHOLE RUN (sync runner), for a reference executor `exec` of the cacheable nodes of `g` -/
theorem runGraphCached_sim (env : KeyEnv) (exec : NodeD → AL Val → NodeOut) (nested : Nested) (sem : Sem)
    (gi : Nat) (g : GraphD) (values : AL Val) (cfg : RunCfg) (span : Span) (parent : Option Span)
    (cache : Lru (AL Val))
    (hok : CacheOK (GP g) env exec) (his : ExecIs nested sem gi (GP g) exec)
    (hnn : NoNoneDec (GP g) exec) (hinv : CacheInv (GP g) env exec cache)
    (hinj : CallsInj env (GP g) gi
      (callsOf (runGraph nested sem .sync gi g values cfg span parent).log)) :
    RunSim (runGraphCached env nested sem gi g values cfg span parent cache).1
      (runGraph nested sem .sync gi g values cfg span parent) ∧
    CacheInv (GP g) env exec (runGraphCached env nested sem gi g values cfg span parent cache).2 := by
  rw [runGraph_sync_eq] at hinj ⊢
  obtain ⟨d, hd⟩ := finishRunC_log_prefix g cfg span parent
    (runLoop (fun k s rs => stepSync nested sem gi g span k s rs s []) g (activeNodeSet g)
      cfg.maxIter cfg.maxIter 0 (initState values) [runStartEv span parent g ""])
  have hloop := runLoopCached_sim (GP g) env exec gi
    (fun k s rs => stepSync nested sem gi g span k s rs s [])
    (fun k s rs c => stepSyncCached env nested sem gi g span k s rs s [] c) g (activeNodeSet g) cfg.maxIter
    (fun k s rs c hrs hc hi =>
      stepSyncCached_sim (GP g) env exec nested sem gi g span k s hok his hnn rs
        (fun nd h i hi _ => ⟨hrs nd h, collectInputs_keys' g s nd nd.inputs i hi⟩) s [] [] c hc (LogRel.refl _) hi)
    cfg.maxIter 0 (initState values) [runStartEv span parent g ""] [runStartEv span parent g ""] cache
    hinv (LogRel.refl _)
    (hinj.mono (by intro x hx; rw [hd]; simp [callsOf_append, hx]))
  exact ⟨finishRunC_sim g cfg span parent hloop.1, hloop.2⟩

/-! ## a sequence of runs sharing the cache -/

/-- pointwise `RunSim` of two lists of run outputs of the same length -/
def RunsSim : List RunOut → List RunOut → Prop
  | [], [] => True
  | rc :: rcs, ru :: rus => RunSim rc ru ∧ RunsSim rcs rus
  | _, _ => False

theorem RunsSim.length : ∀ {a b : List RunOut}, RunsSim a b → a.length = b.length
  | [], [], _ => rfl
  | _ :: _, _ :: _, h => by simp [RunsSim.length h.2]
  | [], _ :: _, h => h.elim
  | _ :: _, [], h => h.elim

theorem RunsSim.get : ∀ {a b : List RunOut}, RunsSim a b → ∀ (i : Nat) (ha : i < a.length) (hb : i < b.length),
    RunSim a[i] b[i]
  | [], [], _, i, ha, _ => by simp at ha
  | _ :: _, _ :: _, h, 0, _, _ => h.1
  | _ :: _, _ :: _, h, i + 1, ha, hb => by
    simpa using RunsSim.get h.2 i (by simpa using ha) (by simpa using hb)
  | [], _ :: _, h, _, _, _ => h.elim
  | _ :: _, [], h, _, _, _ => h.elim

/-- A SEQUENCE OF RUNS sharing one cache: every run is `RunSim` to its uncached counterpart (induction
over the list; the cache a run leaves is sound, which is what the next run needs) -/
theorem runsCached_sim (env : KeyEnv) (exec : NodeD → AL Val → NodeOut) (nested : Nested) (sem : Sem)
    (gi : Nat) (g : GraphD) (cfg : RunCfg) (span : Span) (parent : Option Span)
    (hok : CacheOK (GP g) env exec) (his : ExecIs nested sem gi (GP g) exec)
    (hnn : NoNoneDec (GP g) exec) :
    ∀ (vs : List (AL Val)) (cache : Lru (AL Val)), CacheInv (GP g) env exec cache →
      (∀ v ∈ vs, CallsInj env (GP g) gi
        (callsOf (runGraph nested sem .sync gi g v cfg span parent).log)) →
      RunsSim (runsCached env nested sem gi g cfg span parent vs cache).1
        (vs.map fun v => runGraph nested sem .sync gi g v cfg span parent) ∧
      CacheInv (GP g) env exec (runsCached env nested sem gi g cfg span parent vs cache).2 := by
  intro vs
  induction vs with
  | nil => intro cache hinv _; exact ⟨trivial, hinv⟩
  | cons v vs ih =>
    intro cache hinv hinj
    have h1 := runGraphCached_sim env exec nested sem gi g v cfg span parent cache hok his hnn hinv
      (hinj v (List.mem_cons_self ..))
    have h2 := ih _ h1.2 (fun w hw => hinj w (List.mem_cons_of_mem _ hw))
    exact ⟨⟨h1.1, h2.1⟩, h2.2⟩

/-! ## the general case (cached `None` decisions): states related, not equal

A route gate without fallback whose function returns `None` makes the executor assign the decision
`None`; a hit does not re-assign it (`HG.C09.cached_exec_transparent_partial`). So after such a hit the
uncached state holds `None` under the gate's name where the cached state holds nothing — or a stale
`END` left by an earlier execution (`_clear_stale_gate_decisions` never clears `END`). The scheduler
cannot tell these apart once the gate has executed: all of them activate no target. -/

/-- decision entries under one name, cached `c` against uncached `u`: the uncached run holds nothing or
`None` where the cached run holds nothing or `END` -/
def DecOK (c u : Option Dec) : Prop :=
  (u = none ∨ u = some Dec.none) ∧ (c = none ∨ c = some Dec.end_)

/-- cached state `sc` against uncached `su`: same values, versions, execution records; decision dicts
with unique keys that agree under every name, or are `DecOK` under the name of a node that has executed -/
structure StateSim (sc su : GState) : Prop where
  values : sc.values = su.values
  versions : sc.versions = su.versions
  execs : sc.execs = su.execs
  nodupC : (AL.keys sc.decisions).Nodup
  nodupU : (AL.keys su.decisions).Nodup
  dec : ∀ n, AL.get? sc.decisions n = AL.get? su.decisions n ∨
    (DecOK (AL.get? sc.decisions n) (AL.get? su.decisions n) ∧ AL.has su.execs n = true)

theorem StateSim.refl (s : GState) (h : (AL.keys s.decisions).Nodup) : StateSim s s :=
  ⟨rfl, rfl, rfl, h, h, fun _ => Or.inl rfl⟩

/-- what one clearing step does to the entry of the gate it processes -/
def clr (b : Bool) : Option Dec → Option Dec
  | some .end_ => some .end_
  | some d => if b then none else some d
  | none => none

theorem clearStep_get?_eq (g : GraphD) (st : GState) (nd : NodeD) (k : Name)
    (h : (AL.keys st.decisions).Nodup) :
    AL.get? (clearStep g st nd).decisions k =
      if k = nd.name ∧ nd.isGate = true then clr (needsExec g st nd) (AL.get? st.decisions k)
      else AL.get? st.decisions k := by
  by_cases hg : nd.isGate = true
  · by_cases hk : k = nd.name
    · subst hk
      simp only [hg, and_self, if_true]
      unfold clearStep
      simp only [hg, if_true]
      cases hd : AL.get? st.decisions nd.name with
      | none => simp [clr, hd]
      | some d =>
        cases d with
        | end_ => simp [clr, hd]
        | none =>
          by_cases hn : needsExec g st nd = true
          · simp [clr, hn, AL.get?_del_same _ _ h]
          · simp [clr, hn, hd]
        | one t =>
          by_cases hn : needsExec g st nd = true
          · simp [clr, hn, AL.get?_del_same _ _ h]
          · simp [clr, hn, hd]
        | many ts =>
          by_cases hn : needsExec g st nd = true
          · simp [clr, hn, AL.get?_del_same _ _ h]
          · simp [clr, hn, hd]
    · simp only [hk, false_and, if_false]
      rcases clearStep_cases g st nd with h' | ⟨_, _, _, h'⟩ <;> rw [h']
      exact AL.get?_del_other _ _ _ hk
  · simp only [hg]
    unfold clearStep
    simp [hg]

theorem clr_decOK {b : Bool} {c u : Option Dec} (h : DecOK c u) : DecOK (clr b c) (clr b u) := by
  obtain ⟨hu, hc⟩ := h
  refine ⟨?_, ?_⟩
  · rcases hu with rfl | rfl
    · exact Or.inl rfl
    · cases b <;> simp [clr]
  · rcases hc with rfl | rfl
    · exact Or.inl rfl
    · exact Or.inr rfl

theorem StateSim.clearStep {g : GraphD} {sc su : GState} (h : StateSim sc su) (nd : NodeD) :
    StateSim (clearStep g sc nd) (clearStep g su nd) := by
  obtain ⟨c1, c2, c3⟩ := clearStep_frame g sc nd
  obtain ⟨u1, u2, u3⟩ := clearStep_frame g su nd
  have hne : needsExec g sc nd = needsExec g su nd := needsExec_congr g su sc nd h.execs h.versions
  refine ⟨by rw [c1, u1, h.values], by rw [c2, u2, h.versions], by rw [c3, u3, h.execs],
    clearStep_nodup g sc nd h.nodupC, clearStep_nodup g su nd h.nodupU, fun n => ?_⟩
  rw [clearStep_get?_eq g sc nd n h.nodupC, clearStep_get?_eq g su nd n h.nodupU, u3, hne]
  by_cases hc : n = nd.name ∧ nd.isGate = true
  · simp only [hc, and_self, if_true]
    rcases h.dec n with e | ⟨e, hx⟩
    · rw [hc.1] at e; rw [e]; exact Or.inl rfl
    · rw [hc.1] at e hx; exact Or.inr ⟨clr_decOK e, hc.1 ▸ hx⟩
  · simp only [hc, if_false]
    exact h.dec n

theorem StateSim.clearStale {g : GraphD} {sc su : GState} (h : StateSim sc su) :
    StateSim (clearStale g sc) (clearStale g su) := by
  rw [clearStale_eq, clearStale_eq]
  generalize g.nodes = l
  induction l generalizing sc su with
  | nil => exact h
  | cons x l ih => exact ih (h.clearStep x)

theorem activated_sim (g : GraphD) {sc su : GState} (h : StateSim sc su) (n : Name) :
    activated g sc n = activated g su n := by
  unfold activated
  simp only []
  refine congrArg (fun b => (controlledBy g.nodes n).isEmpty || b) ?_
  refine List.any_congr rfl (fun c => ?_)
  rw [h.execs]
  rcases h.dec c.name with e | ⟨⟨hu, hc⟩, hx⟩
  · rw [e]
  · rcases hu with hu | hu <;> rcases hc with hc | hc <;> simp [hu, hc, hx, decisionNames]

theorem isReady_sim (g : GraphD) {sc su : GState} (h : StateSim sc su) (nd : NodeD) :
    isReady g sc nd = isReady g su nd := by
  unfold isReady
  rw [activated_sim g h, needsExec_congr g su sc nd h.execs h.versions]
  have h1 : nd.inputs.all (hasInput g sc nd) = nd.inputs.all (hasInput g su nd) := by
    unfold hasInput; rw [h.values]
  have h2 : waitForSatisfied sc nd = waitForSatisfied su nd := by
    unfold waitForSatisfied GState.ver; rw [h.values, h.execs, h.versions]
  rw [h1, h2]

theorem ready_sim (g : GraphD) (act : Option (List Name)) {sc su : GState} (h : StateSim sc su) :
    (ready g act sc).1 = (ready g act su).1 ∧ StateSim (ready g act sc).2 (ready g act su).2 := by
  have hcl := h.clearStale (g := g)
  have hf : isReady g (HG.clearStale g sc) = isReady g (HG.clearStale g su) :=
    funext fun nd => isReady_sim g hcl nd
  refine ⟨?_, by rw [ready_snd, ready_snd]; exact hcl⟩
  rw [ready_fst, ready_fst]
  unfold ready1 ready0
  rw [hf]

/-- after clearing, the entry of a ready gate is absent or `END` -/
theorem ready_gate_fresh {g : GraphD} {act : Option (List Name)} {s : GState}
    (hn : (AL.keys s.decisions).Nodup) {nd : NodeD} (hr : nd ∈ (ready g act s).1) (hg : nd.isGate = true) :
    AL.get? (ready g act s).2.decisions nd.name = none ∨
    AL.get? (ready g act s).2.decisions nd.name = some Dec.end_ := by
  rw [ready_snd]
  cases hd : AL.get? (HG.clearStale g s).decisions nd.name with
  | none => exact Or.inl rfl
  | some d =>
    by_cases he : d = Dec.end_
    · subst he; exact Or.inr rfl
    · exfalso
      have h1 := clearStale_current g s hn nd (ready_mem_nodes hr) hg d hd he
      have h2 := ((isReady_iff g _ nd).1 (ready_isReady hr)).2.2.2
      rw [h1] at h2; cases h2

/-- the executor reads only values and execution records of the step-local state -/
theorem execNode_core (nested : Nested) (sem : Sem) (gi : Nat) (nd : NodeD) (inputs : AL Val)
    {ns ns' : GState} (sp : Span) (hv : ns.values = ns'.values) (he : ns.execs = ns'.execs) :
    execNode nested sem gi nd inputs ns sp = execNode nested sem gi nd inputs ns' sp := by
  unfold execNode
  cases hk : nd.kind <;> simp only
  unfold execInterrupt
  rw [hv, he]

/-- `RouteDecision` events dropped -/
def eraseRoute (l : List Log) : List Log :=
  l.filter fun x => match x with
    | .ev e => e.kind != "RouteDecision"
    | _ => true

/-- `LogRel` modulo the `RouteDecision` events as well -/
def LogRelR (lc lu : List Log) : Prop :=
  eraseRoute (eraseCache lc) = eraseRoute (eraseCache lu) ∧ (callsOf lc).Sublist (callsOf lu)

theorem LogRel.toR {lc lu : List Log} (h : LogRel lc lu) : LogRelR lc lu := ⟨by rw [h.1], h.2⟩

theorem LogRelR.refl (l : List Log) : LogRelR l l := (LogRel.refl l).toR

theorem LogRelR.append {a a' b b' : List Log} (h₁ : LogRelR a a') (h₂ : LogRelR b b') :
    LogRelR (a ++ b) (a' ++ b') := by
  refine ⟨?_, ?_⟩
  · simp only [eraseCache_append, eraseRoute, List.filter_append]
    have e1 := h₁.1; have e2 := h₂.1
    simp only [eraseRoute] at e1 e2
    rw [e1, e2]
  · rw [callsOf_append, callsOf_append]; exact h₁.2.append h₂.2

theorem logRelR_route (runSpan : Span) (k : Nat) (nd : NodeD) (a b : GState) :
    LogRelR (routeEvent runSpan k nd a) (routeEvent runSpan k nd b) := by
  have : ∀ s : GState, eraseRoute (eraseCache (routeEvent runSpan k nd s)) = [] ∧
      callsOf (routeEvent runSpan k nd s) = [] := by
    intro s
    unfold routeEvent
    split
    · split <;> simp [eraseCache, eraseCache1, eraseRoute, callsOf]
    · simp [eraseCache, eraseRoute, callsOf]
  exact ⟨by rw [(this a).1, (this b).1], by rw [(this a).2]; exact List.nil_sublist _⟩

/-- the node executions announced in a log: `(node, span)` of every `NodeStart` event, in order (the
span carries the superstep number) -/
def startsOf : List Log → List (Name × Span)
  | [] => []
  | .ev e :: rest => if e.kind = "NodeStart" then (e.name, e.span) :: startsOf rest else startsOf rest
  | _ :: rest => startsOf rest

theorem startsOf_append (a b : List Log) : startsOf (a ++ b) = startsOf a ++ startsOf b := by
  induction a with
  | nil => rfl
  | cons x t ih =>
    cases x with
    | ev e => by_cases h : e.kind = "NodeStart" <;> simp [startsOf, h, ih]
    | _ => simp [startsOf, ih]

theorem eraseRoute_append (a b : List Log) : eraseRoute (a ++ b) = eraseRoute a ++ eraseRoute b := by
  simp [eraseRoute, List.filter_append]

/-- which nodes start, where and in which order survives both erasures -/
theorem startsOf_erase (l : List Log) : startsOf (eraseRoute (eraseCache l)) = startsOf l := by
  induction l with
  | nil => rfl
  | cons x t ih =>
    rw [eraseCache_cons, eraseRoute_append, startsOf_append, ih]
    cases x with
    | call fn args => simp [eraseCache1, eraseRoute, startsOf]
    | shutdown => simp [eraseCache1, eraseRoute, startsOf]
    | ev e =>
      simp only [eraseCache1]
      by_cases h1 : e.kind = "CacheHit"
      · simp [h1, eraseRoute, startsOf]
      · by_cases h2 : e.kind = "NodeEnd"
        · simp [h2, eraseRoute, startsOf]
        · by_cases h3 : e.kind = "RouteDecision"
          · simp [h3, eraseRoute, startsOf]
          · by_cases h4 : e.kind = "NodeStart" <;> simp [h1, h2, h3, h4, eraseRoute, startsOf]

theorem LogRelR.starts {lc lu : List Log} (h : LogRelR lc lu) : startsOf lc = startsOf lu := by
  rw [← startsOf_erase lc, h.1, startsOf_erase]

/-- the state after a successful node execution: both sides apply the same outputs and record the
execution; the decision dicts `Dc`, `Du` agree, or are `DecOK` under the node's own name or the name of
a node that has executed -/
theorem StateSim.next {sC sU nsc nsu : GState} (hs : sC.versions = sU.versions) (h : StateSim nsc nsu)
    (nd : NodeD) (outs : AL Val) (Dc Du : AL Dec)
    (hnc : (AL.keys Dc).Nodup) (hnu : (AL.keys Du).Nodup)
    (hdec : ∀ n, AL.get? Dc n = AL.get? Du n ∨
      (DecOK (AL.get? Dc n) (AL.get? Du n) ∧ (n = nd.name ∨ AL.has nsu.execs n = true))) :
    StateSim (recordExec sC ((nsc.withDec Dc).applyOutputs outs) nd)
      (recordExec sU ((nsu.withDec Du).applyOutputs outs) nd) := by
  have hc : nsc = nsu.withDec nsc.decisions := by
    cases nsc; cases nsu
    simp only [GState.withDec, GState.mk.injEq]
    exact ⟨h.values, h.versions, h.execs, trivial⟩
  rw [recordExec_congr hs, hc]
  simp only [GState.withDec_withDec, GState.applyOutputs_withDec, recordExec_withDec]
  refine ⟨rfl, rfl, rfl, hnc, hnu, fun n => ?_⟩
  simp only [GState.withDec_decisions, GState.withDec_execs]
  rcases hdec n with e | ⟨e, hx⟩
  · exact Or.inl e
  · refine Or.inr ⟨e, ?_⟩
    simp only [recordExec, GState.applyOutputs_execs, AL.has_put]
    rcases hx with hx | hx
    · simp [hx]
    · simp [hx]

/-- a decision assigned on both sides -/
theorem StateSim.putDec {nsc nsu : GState} (h : StateSim nsc nsu) (n : Name) (d : Dec) :
    StateSim (nsc.withDec (AL.put nsc.decisions n d)) (nsu.withDec (AL.put nsu.decisions n d)) := by
  refine ⟨h.values, h.versions, h.execs, AL.nodup_keys_put₁ _ _ _ h.nodupC, AL.nodup_keys_put₁ _ _ _ h.nodupU,
    fun k => ?_⟩
  simp only [GState.withDec_decisions, GState.withDec_execs, AL.get?_put]
  by_cases hk : k = n
  · simp [hk]
  · simp only [hk, if_false]; exact h.dec k

/-- cached step result against uncached in the general case: same constructor, error, pause; states
`StateSim`; logs `LogRelR` -/
def StepSimB : StepOut → StepOut → Prop
  | .ok ns l, .ok ns' l' => StateSim ns ns' ∧ LogRelR l l'
  | .fail e ps l, .fail e' ps' l' => e = e' ∧ StateSim ps ps' ∧ LogRelR l l'
  | .pause p ps l, .pause p' ps' l' => p = p' ∧ StateSim ps ps' ∧ LogRelR l l'
  | _, _ => False

/-- ONE SUPERSTEP, general case: no hypothesis on `None` decisions; the ready nodes have distinct names
and the entries of the ready gates are fresh (absent or `END`, which `ready` establishes) -/
theorem stepSyncCached_simB (P : NodeD → AL Val → Prop) (env : KeyEnv) (exec : NodeD → AL Val → NodeOut)
    (nested : Nested) (sem : Sem) (gi : Nat) (g : GraphD) (runSpan : Span) (k : Nat) (sC sU : GState)
    (hs : StateSim sC sU) (hok : CacheOK P env exec) (his : ExecIs nested sem gi P exec) :
    ∀ (rs : List NodeD),
      (∀ nd ∈ rs, ∀ i, collectInputs g sU nd nd.inputs = some i → nd.cache = true → P nd i) →
      (rs.map (·.name)).Nodup →
    ∀ (nsc nsu : GState) (log logc : List Log) (c : Lru (AL Val)),
      CacheInv P env exec c → StateSim nsc nsu → LogRelR logc log →
      (∀ nd ∈ rs, nd.isGate = true → AL.get? nsc.decisions nd.name = none ∨
        AL.get? nsc.decisions nd.name = some Dec.end_) →
      CallsInj env P gi (callsOf (stepSync nested sem gi g runSpan k sU rs nsu log).log) →
      StepSimB (stepSyncCached env nested sem gi g runSpan k sC rs nsc logc c).1
        (stepSync nested sem gi g runSpan k sU rs nsu log) ∧
      CacheInv P env exec (stepSyncCached env nested sem gi g runSpan k sC rs nsc logc c).2 := by
  intro rs
  induction rs with
  | nil =>
    intro _ _ nsc nsu log logc c hinv hns hlr _ _
    exact ⟨⟨hns, hlr⟩, hinv⟩
  | cons nd rest ih =>
    intro hrs hnames nsc nsu log logc c hinv hns hlr hfresh hinj
    have hci' : collectInputs g sC nd nd.inputs = collectInputs g sU nd nd.inputs :=
      collectInputs_congr g hs.values nd _
    cases hci : collectInputs g sU nd nd.inputs with
    | none =>
      simp only [stepSync, stepSyncCached, hci', hci]
      exact ⟨⟨rfl, hs, hlr⟩, hinv⟩
    | some inputs =>
      have hPn : nd.cache = true → P nd inputs := hrs nd (List.mem_cons_self ..) inputs hci
      have hcalls := stepSync_cons_calls nested sem gi g runSpan k sU nd rest nsu log inputs hci
      have hexec : execNode nested sem gi nd inputs nsc (nodeSpanOf runSpan k nd) =
          execNode nested sem gi nd inputs nsu (nodeSpanOf runSpan k nd) :=
        execNode_core nested sem gi nd inputs _ hns.values hns.execs
      have hu : nd.cache = true → execNode nested sem gi nd inputs nsu (nodeSpanOf runSpan k nd) = exec nd inputs :=
        fun hc => his.eq nd inputs nsu _ (hPn hc) hc
      have hsim := execCached_sim P env exec (nodeExec nested sem gi nsc (nodeSpanOf runSpan k nd)) c nd inputs
        hinv hok hPn (fun hc => by show execNode _ _ _ _ _ _ _ = _; rw [hexec]; exact hu hc)
        (fun hc => hinj nd inputs (hPn hc) hc
          (hcalls _ (by rw [hu hc]; exact his.call nd inputs (hPn hc) hc)))
      simp only [stepSync, stepSyncCached, hci', hci, nodeExec, hexec] at hinj hsim ⊢
      generalize execCached env c nd inputs (nodeExec nested sem gi nsc (nodeSpanOf runSpan k nd)) = r
        at hsim ⊢
      generalize execNode nested sem gi nd inputs nsu (nodeSpanOf runSpan k nd) = u at hsim hinj hu ⊢
      obtain ⟨h1, h2, h3, h4, hinv'⟩ := hsim
      obtain ⟨rres, rdec, rpause, rcalled, rcache⟩ := r
      subst h1 h2
      dsimp only at h3 h4 hinv' ⊢
      have hmid : LogRelR (if rcalled = true then u.log
          else [cacheHitEv (nodeSpanOf runSpan k nd) runSpan nd (keyOf env nd inputs)]) u.log := by
        cases rcalled with
        | true => exact LogRelR.refl _
        | false =>
          have hc := (h4 rfl).1
          refine (logRel_hit _ _ _ _ _ ?_).toR
          rw [hu hc]; exact his.callsOnly nd inputs (hPn hc) hc
      generalize (if rcalled = true then u.log
          else [cacheHitEv (nodeSpanOf runSpan k nd) runSpan nd (keyOf env nd inputs)]) = mid at hmid ⊢
      have hne_rest : ∀ nd' ∈ rest, nd'.name ≠ nd.name := by
        intro nd' hm e
        simp only [List.map_cons, List.nodup_cons] at hnames
        exact hnames.1 (e ▸ List.mem_map_of_mem (f := (·.name)) hm)
      have hnames' : (rest.map (·.name)).Nodup := by
        simp only [List.map_cons, List.nodup_cons] at hnames; exact hnames.2
      have hrs' : ∀ nd' ∈ rest, ∀ i, collectInputs g sU nd' nd'.inputs = some i → nd'.cache = true → P nd' i :=
        fun nd' h => hrs nd' (List.mem_cons_of_mem _ h)
      cases hp : u.pause with
      | some p =>
        exact ⟨⟨rfl, hs, ((hlr.append (LogRelR.refl _)).append hmid).append (LogRelR.refl _)⟩, hinv'⟩
      | none =>
        cases hres : u.res with
        | error e =>
          have hdec : rdec = u.dec := by
            rcases h3 with h3 | ⟨hcl, _, _⟩
            · exact h3
            · obtain ⟨_, _, outs, ho⟩ := h4 hcl
              rw [hres] at ho; cases ho
          subst hdec
          refine ⟨⟨rfl, ?_, ((hlr.append (LogRelR.refl _)).append hmid).append (LogRelR.refl _)⟩, hinv'⟩
          cases u.dec with
          | none => exact hns
          | some d => exact hns.putDec nd.name d
        | ok outs =>
          simp only [hp, hres] at hinj ⊢
          have hlog : ∀ (a b : GState) (st : Log) (sp : Span) (par : Option Span) (i : String),
              LogRelR (logc ++ [st] ++ mid ++ routeEvent runSpan k nd a ++
                  [Log.ev { kind := "NodeEnd", span := sp, parent := par, name := nd.name, info := i }])
                (log ++ [st] ++ u.log ++ routeEvent runSpan k nd b ++
                  [Log.ev { kind := "NodeEnd", span := sp, parent := par, name := nd.name }]) :=
            fun a b st sp par i =>
              ((((hlr.append (LogRelR.refl _)).append hmid).append (logRelR_route _ _ _ a b)).append
                (logRel_nodeEnd _ _ _ _).toR)
          rcases h3 with h3 | ⟨hcl, hud, hrd⟩
          · subst h3
            cases hd : u.dec with
            | none =>
              simp only [hd] at hinj ⊢
              have hst : StateSim (recordExec sC (nsc.applyOutputs outs) nd)
                  (recordExec sU (nsu.applyOutputs outs) nd) :=
                StateSim.next hs.versions hns nd outs nsc.decisions nsu.decisions hns.nodupC hns.nodupU
                  (fun n => (hns.dec n).imp id (fun ⟨e, hx⟩ => ⟨e, Or.inr hx⟩))
              refine ih hrs' hnames' _ _ _ _ _ hinv' hst (hlog _ _ _ _ _ _) ?_ hinj
              intro nd' hm hg
              simp only [recordExec_decisions, GState.applyOutputs_decisions]
              exact hfresh nd' (List.mem_cons_of_mem _ hm) hg
            | some d =>
              simp only [hd] at hinj ⊢
              have hst : StateSim
                  (recordExec sC ((nsc.withDec (AL.put nsc.decisions nd.name d)).applyOutputs outs) nd)
                  (recordExec sU ((nsu.withDec (AL.put nsu.decisions nd.name d)).applyOutputs outs) nd) :=
                StateSim.next hs.versions hns nd outs _ _ (AL.nodup_keys_put₁ _ _ _ hns.nodupC)
                  (AL.nodup_keys_put₁ _ _ _ hns.nodupU)
                  (fun n => by
                    simp only [AL.get?_put]
                    by_cases hk : n = nd.name
                    · simp [hk]
                    · simp only [hk, if_false]
                      exact (hns.dec n).imp id (fun ⟨e, hx⟩ => ⟨e, Or.inr hx⟩))
              refine ih hrs' hnames' _ _ _ _ _ hinv' hst (hlog _ _ _ _ _ _) ?_ hinj
              intro nd' hm hg
              simp only [recordExec_decisions, GState.applyOutputs_decisions]
              show AL.get? (AL.put nsc.decisions nd.name d) nd'.name = none ∨ _
              rw [AL.get?_put_other _ _ _ _ (hne_rest nd' hm)]
              exact hfresh nd' (List.mem_cons_of_mem _ hm) hg
          · -- the hit on a cached `None` decision
            subst hrd
            simp only [hud] at hinj ⊢
            have hc := (h4 hcl).1
            have hgate : nd.isGate = true := by
              cases hg : nd.isGate with
              | true => rfl
              | false =>
                have := hok.gateOnly nd inputs (hPn hc) hc hg
                rw [← hu hc, hud] at this; cases this
            have hst : StateSim (recordExec sC (nsc.applyOutputs outs) nd)
                (recordExec sU ((nsu.withDec (AL.put nsu.decisions nd.name Dec.none)).applyOutputs outs) nd) :=
              StateSim.next hs.versions hns nd outs nsc.decisions _ hns.nodupC
                (AL.nodup_keys_put₁ _ _ _ hns.nodupU)
                (fun n => by
                  simp only [AL.get?_put]
                  by_cases hk : n = nd.name
                  · rw [if_pos hk, hk]
                    exact Or.inr ⟨⟨Or.inr rfl, hfresh nd (List.mem_cons_self ..) hgate⟩, Or.inl rfl⟩
                  · simp only [hk, if_false]
                    exact (hns.dec n).imp id (fun ⟨e, hx⟩ => ⟨e, Or.inr hx⟩))
            refine ih hrs' hnames' _ _ _ _ _ hinv' hst (hlog _ _ _ _ _ _) ?_ hinj
            intro nd' hm hg
            simp only [recordExec_decisions, GState.applyOutputs_decisions]
            exact hfresh nd' (List.mem_cons_of_mem _ hm) hg

theorem ready_sublist (g : GraphD) (act : Option (List Name)) (s : GState) :
    (ready g act s).1.Sublist g.nodes := by
  rw [ready_fst]
  unfold deferWaitFor ready1 ready0 cand
  refine (List.filter_sublist).trans ((List.filter_sublist).trans ((List.filter_sublist).trans ?_))
  cases act with
  | none => exact List.Sublist.refl _
  | some a => exact List.filter_sublist

/-- cached loop result against uncached in the general case -/
def LoopSimB : LoopOut → LoopOut → Prop
  | .done s l n, .done s' l' n' => StateSim s s' ∧ n = n' ∧ LogRelR l l'
  | .fail e ps l n, .fail e' ps' l' n' => e = e' ∧ StateSim ps ps' ∧ n = n' ∧ LogRelR l l'
  | .pause p ps l n, .pause p' ps' l' n' => p = p' ∧ StateSim ps ps' ∧ n = n' ∧ LogRelR l l'
  | _, _ => False

/-- THE LOOP, general case: the states are `StateSim`, so both loops see the same ready sets -/
theorem runLoopCached_simB (P : NodeD → AL Val → Prop) (env : KeyEnv) (exec : NodeD → AL Val → NodeOut)
    (gi : Nat) (stepU : Nat → GState → List NodeD → StepOut)
    (stepC : Nat → GState → List NodeD → Lru (AL Val) → StepOut × Lru (AL Val))
    (g : GraphD) (act : Option (List Name)) (mi : Nat)
    (hnames : (g.nodes.map (·.name)).Nodup)
    (hstep : ∀ k sC sU rs c, StateSim sC sU → (∀ nd ∈ rs, nd ∈ g.nodes) → (rs.map (·.name)).Nodup →
      (∀ nd ∈ rs, nd.isGate = true → AL.get? sC.decisions nd.name = none ∨
        AL.get? sC.decisions nd.name = some Dec.end_) →
      CacheInv P env exec c → CallsInj env P gi (callsOf (stepU k sU rs).log) →
      StepSimB (stepC k sC rs c).1 (stepU k sU rs) ∧ CacheInv P env exec (stepC k sC rs c).2) :
    ∀ (fuel k : Nat) (sC sU : GState) (log logc : List Log) (c : Lru (AL Val)),
      CacheInv P env exec c → StateSim sC sU → LogRelR logc log →
      CallsInj env P gi (callsOf (runLoop stepU g act mi fuel k sU log).log) →
      LoopSimB (runLoopCached stepC g act mi fuel k sC logc c).1 (runLoop stepU g act mi fuel k sU log) ∧
      CacheInv P env exec (runLoopCached stepC g act mi fuel k sC logc c).2 := by
  intro fuel
  induction fuel with
  | zero =>
    intro k sC sU log logc c hinv hss hlr _
    obtain ⟨hrl, hrs⟩ := ready_sim g act hss
    unfold runLoop runLoopCached
    simp only []
    rw [hrl]
    split <;> exact ⟨⟨by first | exact hrs | rfl, by first | exact ⟨rfl, hlr⟩ | exact ⟨hrs, rfl, hlr⟩⟩, hinv⟩
  | succ fuel ih =>
    intro k sC sU log logc c hinv hss hlr hinj
    obtain ⟨hrl, hrs⟩ := ready_sim g act hss
    have hmem : ∀ nd ∈ (ready g act sU).1, nd ∈ g.nodes := fun nd h => ready_mem_nodes h
    have hnd : ((ready g act sU).1.map (·.name)).Nodup := ((ready_sublist g act sU).map _).nodup hnames
    have hfresh : ∀ nd ∈ (ready g act sC).1, nd.isGate = true →
        AL.get? (ready g act sC).2.decisions nd.name = none ∨
        AL.get? (ready g act sC).2.decisions nd.name = some Dec.end_ :=
      fun nd h hg => ready_gate_fresh hss.nodupC h hg
    unfold runLoop at hinj ⊢
    unfold runLoopCached
    cases hrU : ready g act sU with
    | mk rs s1U =>
      cases hrC : ready g act sC with
      | mk rsC s1C =>
        rw [hrU, hrC] at hrl hrs
        rw [hrU] at hmem hinj hnd
        rw [hrC] at hfresh
        simp only at hrl hrs hmem hnd hfresh
        subst hrl
        cases rsC with
        | nil => exact ⟨⟨hrs, rfl, hlr⟩, hinv⟩
        | cons nd rest =>
          simp only [] at hinj ⊢
          have hst := hstep k s1C s1U (nd :: rest) c hrs hmem hnd hfresh hinv
          generalize stepC k s1C (nd :: rest) c = C at hst ⊢
          generalize stepU k s1U (nd :: rest) = U at hst hinj ⊢
          obtain ⟨C1, c1⟩ := C
          cases U with
          | ok ns l =>
            obtain ⟨d, hd⟩ := runLoop_log_prefix stepU g act mi fuel (k + 1) ns (log ++ l)
            have hinjs : CallsInj env P gi (callsOf l) :=
              hinj.mono (by intro x hx; simp only []; rw [hd]; simp [callsOf_append, hx])
            obtain ⟨hsim, hinv1⟩ := hst hinjs
            cases C1 with
            | ok ns' l' =>
              obtain ⟨hns, hl⟩ := hsim
              exact ih _ _ _ _ _ _ hinv1 hns (hlr.append hl) hinj
            | fail _ _ _ => exact hsim.elim
            | pause _ _ _ => exact hsim.elim
          | fail e ps l =>
            have hinjs : CallsInj env P gi (callsOf l) :=
              hinj.mono (by intro x hx; simp [LoopOut.log, callsOf_append, hx])
            obtain ⟨hsim, hinv1⟩ := hst hinjs
            cases C1 with
            | fail e' ps' l' =>
              obtain ⟨rfl, hps, hl⟩ := hsim
              exact ⟨⟨rfl, hps, rfl, hlr.append hl⟩, hinv1⟩
            | ok _ _ => exact hsim.elim
            | pause _ _ _ => exact hsim.elim
          | pause p ps l =>
            have hinjs : CallsInj env P gi (callsOf l) :=
              hinj.mono (by intro x hx; simp [LoopOut.log, callsOf_append, hx])
            obtain ⟨hsim, hinv1⟩ := hst hinjs
            cases C1 with
            | pause p' ps' l' =>
              obtain ⟨rfl, hps, hl⟩ := hsim
              exact ⟨⟨rfl, hps, rfl, hlr.append hl⟩, hinv1⟩
            | ok _ _ => exact hsim.elim
            | fail _ _ _ => exact hsim.elim

/-- cached run output against uncached in the general case: every field but the log equal; the logs
`LogRelR` (equal modulo cache markers, invocations and `RouteDecision` events; no extra invocations) -/
structure RunSimB (rc ru : RunOut) : Prop where
  status : rc.status = ru.status
  values : rc.values = ru.values
  error : rc.error = ru.error
  raised : rc.raised = ru.raised
  pause : rc.pause = ru.pause
  warnings : rc.warnings = ru.warnings
  log : LogRelR rc.log ru.log

theorem RunSim.toB {rc ru : RunOut} (h : RunSim rc ru) : RunSimB rc ru :=
  ⟨h.status, h.values, h.error, h.raised, h.pause, h.warnings, h.log.toR⟩

theorem finishRunC_simB (g : GraphD) (cfg : RunCfg) (span : Span) (parent : Option Span)
    {lc lu : LoopOut} (h : LoopSimB lc lu) :
    RunSimB (finishRunC g cfg span parent lc) (finishRunC g cfg span parent lu) := by
  cases lc with
  | done s l n =>
    cases lu with
    | done s' l' n' =>
      obtain ⟨hs, rfl, hl⟩ := h
      have hf := filterOutputs_congr₂ g hs.values cfg.select cfg.onMissing
      simp only [finishRunC, hf]
      split
      · exact ⟨rfl, rfl, rfl, rfl, rfl, rfl, (hl.append (LogRelR.refl _)).append (LogRelR.refl _)⟩
      · split <;> exact ⟨rfl, rfl, rfl, rfl, rfl, rfl, (hl.append (LogRelR.refl _)).append (LogRelR.refl _)⟩
    | fail _ _ _ _ => exact h.elim
    | pause _ _ _ _ => exact h.elim
  | fail e ps l n =>
    cases lu with
    | fail e' ps' l' n' =>
      obtain ⟨rfl, hs, rfl, hl⟩ := h
      have hf := filterOutputs_congr₂ g hs.values cfg.select .ignore
      simp only [finishRunC, hf]
      split <;> exact ⟨rfl, rfl, rfl, rfl, rfl, rfl, (hl.append (LogRelR.refl _)).append (LogRelR.refl _)⟩
    | done _ _ _ => exact h.elim
    | pause _ _ _ _ => exact h.elim
  | pause p ps l n =>
    cases lu with
    | pause p' ps' l' n' =>
      obtain ⟨rfl, hs, rfl, hl⟩ := h
      have hf := filterOutputs_congr₂ g hs.values cfg.select .ignore
      simp only [finishRunC, hf]
      exact ⟨rfl, rfl, rfl, rfl, rfl, rfl, hl.append (LogRelR.refl _)⟩
    | done _ _ _ => exact h.elim
    | fail _ _ _ _ => exact h.elim

/-- A WHOLE RUN (sync runner), general case: no hypothesis on `None` decisions; node names distinct -/
theorem runGraphCached_simB (env : KeyEnv) (exec : NodeD → AL Val → NodeOut) (nested : Nested) (sem : Sem)
    (gi : Nat) (g : GraphD) (values : AL Val) (cfg : RunCfg) (span : Span) (parent : Option Span)
    (cache : Lru (AL Val)) (hnames : (g.nodes.map (·.name)).Nodup)
    (hok : CacheOK (GP g) env exec) (his : ExecIs nested sem gi (GP g) exec)
    (hinv : CacheInv (GP g) env exec cache)
    (hinj : CallsInj env (GP g) gi
      (callsOf (runGraph nested sem .sync gi g values cfg span parent).log)) :
    RunSimB (runGraphCached env nested sem gi g values cfg span parent cache).1
      (runGraph nested sem .sync gi g values cfg span parent) ∧
    CacheInv (GP g) env exec (runGraphCached env nested sem gi g values cfg span parent cache).2 := by
  rw [runGraph_sync_eq] at hinj ⊢
  obtain ⟨d, hd⟩ := finishRunC_log_prefix g cfg span parent
    (runLoop (fun k s rs => stepSync nested sem gi g span k s rs s []) g (activeNodeSet g)
      cfg.maxIter cfg.maxIter 0 (initState values) [runStartEv span parent g ""])
  have hinit : (AL.keys (initState values).decisions).Nodup := by
    simp [initState, AL.keys]
  have hloop := runLoopCached_simB (GP g) env exec gi
    (fun k s rs => stepSync nested sem gi g span k s rs s [])
    (fun k s rs c => stepSyncCached env nested sem gi g span k s rs s [] c) g (activeNodeSet g) cfg.maxIter
    hnames
    (fun k sC sU rs c hs hrs hnd hfresh hc hi =>
      stepSyncCached_simB (GP g) env exec nested sem gi g span k sC sU hs hok his rs
        (fun nd h i hi _ => ⟨hrs nd h, collectInputs_keys' g sU nd nd.inputs i hi⟩) hnd sC sU [] [] c hc hs
        (LogRelR.refl _) hfresh hi)
    cfg.maxIter 0 (initState values) (initState values) [runStartEv span parent g ""]
    [runStartEv span parent g ""] cache
    hinv (StateSim.refl _ hinit) (LogRelR.refl _)
    (hinj.mono (by intro x hx; rw [hd]; simp [callsOf_append, hx]))
  exact ⟨finishRunC_simB g cfg span parent hloop.1, hloop.2⟩

/-- pointwise `RunSimB` of two lists of run outputs of the same length -/
def RunsSimB : List RunOut → List RunOut → Prop
  | [], [] => True
  | rc :: rcs, ru :: rus => RunSimB rc ru ∧ RunsSimB rcs rus
  | _, _ => False

theorem RunsSimB.length : ∀ {a b : List RunOut}, RunsSimB a b → a.length = b.length
  | [], [], _ => rfl
  | _ :: _, _ :: _, h => by simp [RunsSimB.length h.2]
  | [], _ :: _, h => h.elim
  | _ :: _, [], h => h.elim

theorem RunsSimB.get : ∀ {a b : List RunOut}, RunsSimB a b → ∀ (i : Nat) (ha : i < a.length) (hb : i < b.length),
    RunSimB a[i] b[i]
  | [], [], _, i, ha, _ => by simp at ha
  | _ :: _, _ :: _, h, 0, _, _ => h.1
  | _ :: _, _ :: _, h, i + 1, ha, hb => by
    simpa using RunsSimB.get h.2 i (by simpa using ha) (by simpa using hb)
  | [], _ :: _, h, _, _, _ => h.elim
  | _ :: _, [], h, _, _, _ => h.elim

/-- A SEQUENCE OF RUNS sharing one cache, general case -/
theorem runsCached_simB (env : KeyEnv) (exec : NodeD → AL Val → NodeOut) (nested : Nested) (sem : Sem)
    (gi : Nat) (g : GraphD) (cfg : RunCfg) (span : Span) (parent : Option Span)
    (hnames : (g.nodes.map (·.name)).Nodup)
    (hok : CacheOK (GP g) env exec) (his : ExecIs nested sem gi (GP g) exec) :
    ∀ (vs : List (AL Val)) (cache : Lru (AL Val)), CacheInv (GP g) env exec cache →
      (∀ v ∈ vs, CallsInj env (GP g) gi
        (callsOf (runGraph nested sem .sync gi g v cfg span parent).log)) →
      RunsSimB (runsCached env nested sem gi g cfg span parent vs cache).1
        (vs.map fun v => runGraph nested sem .sync gi g v cfg span parent) ∧
      CacheInv (GP g) env exec (runsCached env nested sem gi g cfg span parent vs cache).2 := by
  intro vs
  induction vs with
  | nil => intro cache hinv _; exact ⟨trivial, hinv⟩
  | cons v vs ih =>
    intro cache hinv hinj
    have h1 := runGraphCached_simB env exec nested sem gi g v cfg span parent cache hnames hok his hinv
      (hinj v (List.mem_cons_self ..))
    have h2 := ih _ h1.2 (fun w hw => hinj w (List.mem_cons_of_mem _ hw))
    exact ⟨⟨h1.1, h2.1⟩, h2.2⟩

/-! ## discharging the standing hypotheses for `execPlain` -/

/-- no node output of `nd` is named `__routing_decision__` ⇒ neither is a key of the outputs dict -/
theorem execPlain_noKey (sem : Sem) (gi : Nat) (nd : NodeD) (i : AL Val) (outs : AL Val)
    (hk : routingKey ∉ nd.outputs) (h : (execPlain sem gi nd i).res = .ok outs) :
    AL.has outs routingKey = false := by
  have hemit : ∀ o : AL Val, o = nd.emits.map (fun e => (e, Val.sentinel)) → AL.has o routingKey = false := by
    intro o ho
    cases hh : AL.has o routingKey with
    | false => rfl
    | true =>
      rw [ho, HG.C01.has_map_const] at hh
      exact absurd (by simp [NodeD.outputs, hh]) hk
  have hwrap : ∀ v (o : AL Val), wrapOutputs nd v = some o → AL.has o routingKey = false := by
    intro v o ho
    cases hh : AL.has o routingKey with
    | false => rfl
    | true => exact absurd ((HG.C01.wrapOutputs_has ho routingKey).1 hh) hk
  cases hkind : nd.kind with
  | fn =>
    simp only [execPlain, hkind, execFn] at h
    split at h
    · cases h
    · split at h
      · rename_i o ho; injection h with h; subst h; exact hwrap _ _ ho
      · cases h
    · split at h
      · rename_i o ho; injection h with h; subst h; exact hwrap _ _ ho
      · cases h
  | ifelse =>
    simp only [execPlain, hkind, execIfElse] at h
    split at h
    · cases h
    · injection h with h; exact hemit _ h.symm
    · cases h
  | route =>
    simp only [execPlain, hkind, execRoute] at h
    split at h
    · cases h
    · split at h
      · cases h
      · injection h with h; exact hemit _ h.symm
    · split at h
      · cases h
      · injection h with h; exact hemit _ h.symm
    · cases h
  | graph => simp [execPlain, hkind] at h
  | interrupt => simp [execPlain, hkind] at h

/-- `CacheOK` for `execPlain` on the executions of `g`: the contract of `definition_hash` (`resp`, a
hypothesis on `sem` and `env.defHash`) and a syntactic condition on the cacheable nodes' output names;
`gateOnly` needs no hypothesis -/
theorem cacheOK_plain (env : KeyEnv) (sem : Sem) (gi : Nat) (g : GraphD)
    (hresp : ∀ nd nd' i i', GP g nd i → GP g nd' i' → nd.cache = true → nd'.cache = true →
      cacheKey (identOf env nd) (toParams nd i) = cacheKey (identOf env nd') (toParams nd' i') →
      outcome (execPlain sem gi nd i) = outcome (execPlain sem gi nd' i'))
    (hkey : ∀ nd ∈ g.nodes, nd.cache = true → routingKey ∉ nd.outputs) :
    CacheOK (GP g) env (execPlain sem gi) where
  resp := hresp
  gateOnly := fun nd i _ _ hgate => execPlain_gateOnly sem gi nd i hgate
  noKey := fun nd i outs hP hc h => execPlain_noKey sem gi nd i outs (hkey nd hP.1 hc) h

/-- a graph without cacheable `route` gates has no cacheable `None` decision (function nodes assign
none, `ifelse` gates always decide a target) -/
theorem noNoneDec_plain (sem : Sem) (gi : Nat) (g : GraphD)
    (h : ∀ nd ∈ g.nodes, nd.cache = true → nd.kind ≠ .route) : NoNoneDec (GP g) (execPlain sem gi) := by
  intro nd i hP hc
  cases hk : nd.kind with
  | fn => rw [execPlain_gateOnly sem gi nd i (by simp [NodeD.isGate, hk])]; simp
  | ifelse => simp only [execPlain, hk]; exact execIfElse_dec_ne_none sem gi nd i
  | route => exact absurd hk (h nd hP.1 hc)
  | graph => simp [execPlain, hk]
  | interrupt => simp [execPlain, hk]

/-! ## fixtures for the non-vacuity examples of `HG/Props/C09.lean` §8 -/
section Fixtures

/-- a toy "hash": the listed contents get the listed digests, everything else `"other"` -/
def toyHash : List (Key × Name) → Key → Name
  | [], _ => "other"
  | (K0, n) :: t, K => if K = K0 then n else toyHash t K

theorem toyHash_mem (tbl : List (Key × Name)) (K : Key) :
    toyHash tbl K = "other" ∨ (K, toyHash tbl K) ∈ tbl := by
  induction tbl with
  | nil => exact Or.inl rfl
  | cons h t ih =>
    obtain ⟨K0, n⟩ := h
    by_cases e : K = K0
    · subst e; simp [toyHash]
    · rcases ih with ih | ih
      · simp [toyHash, e, ih]
      · right; simp only [toyHash, e, if_false]; exact List.mem_cons_of_mem _ ih

theorem toyHash_mem_of_key (tbl : List (Key × Name)) (K : Key) (h : K ∈ tbl.map (·.1)) :
    (K, toyHash tbl K) ∈ tbl := by
  induction tbl with
  | nil => cases h
  | cons hd t ih =>
    obtain ⟨K0, n⟩ := hd
    by_cases e : K = K0
    · subst e; simp [toyHash]
    · simp only [toyHash, e, if_false]
      have : K ∈ t.map (·.1) := by simpa [e] using h
      exact List.mem_cons_of_mem _ (ih this)

theorem nodup_snd_inj : ∀ (tbl : List (Key × Name)), (tbl.map (·.2)).Nodup →
    ∀ K K' n, (K, n) ∈ tbl → (K', n) ∈ tbl → K = K'
  | [], _, _, _, _, h, _ => by cases h
  | (K0, n0) :: t, hn, K, K', n, h, h' => by
    simp only [List.map_cons, List.nodup_cons] at hn
    have key : ∀ K'', (K'', n) ∈ t → n ∈ t.map (·.2) := fun K'' hm =>
      List.mem_map_of_mem (f := (·.2)) hm
    rcases List.mem_cons.1 h with e | h <;> rcases List.mem_cons.1 h' with e' | h'
    · rw [Prod.mk.injEq] at e e'; rw [e.1, e'.1]
    · rw [Prod.mk.injEq] at e; exact absurd (e.2 ▸ key _ h') hn.1
    · rw [Prod.mk.injEq] at e'; exact absurd (e'.2 ▸ key _ h) hn.1
    · exact nodup_snd_inj t hn.2 K K' n h h'

/-- the toy hash has no collision with a listed content -/
theorem toyHash_injAt (dh : NodeD → String) (tbl : List (Key × Name)) (hn : (tbl.map (·.2)).Nodup)
    (ho : "other" ∉ tbl.map (·.2)) (K : Key) (hK : K ∈ tbl.map (·.1)) :
    InjAt { defHash := dh, hash := toyHash tbl } K := by
  intro K' h
  have h1 := toyHash_mem_of_key tbl K hK
  have hne : toyHash tbl K ≠ "other" := fun e => ho (e ▸ List.mem_map_of_mem (f := (·.2)) h1)
  simp only at h
  rcases toyHash_mem tbl K' with h2 | h2
  · exact absurd (h ▸ h2) hne
  · rw [h] at h2
    exact nodup_snd_inj tbl hn K' K _ h2 h1

theorem keys_singleton {i : AL Val} {a : Name} (h : AL.keys i = [a]) : ∃ v, i = [(a, v)] := by
  match i, h with
  | [(k, v)], h => simp [AL.keys] at h; subst h; exact ⟨v, rfl⟩

/-- `f(x) → y = x + 1`, cacheable -/
def fSpecRC : NodeSpec :=
  { name := "f", kind := .fn, params := [("x", .none)], dataOuts := ["y"], body := .sum 1, cache := true }
/-- `gate(y)`: `small` if `y < 5`, else `END`; a cacheable `ifelse` gate -/
def gateSpecRC : NodeSpec :=
  { name := "gate", kind := .ifelse, params := [("y", .none)], body := .lt 5,
    targets := [.node "small", .end_], cache := true }
/-- `small(y) → s`, not cacheable -/
def smallSpecRC : NodeSpec :=
  { name := "small", kind := .fn, params := [("y", .none)], dataOuts := ["s"], body := .tag "small" }

def progRC : Program := elabProgram [{ name := "g", nodes := [fSpecRC, gateSpecRC, smallSpecRC] }]
def gRC : GraphD := progRC.getD 0 default
def nfRC : NodeD := elabLeaf fSpecRC
def ngRC : NodeD := elabLeaf gateSpecRC
def nsRC : NodeD := elabLeaf smallSpecRC

def identRC (nd : NodeD) : Ident :=
  { defHash := nd.name, cls := className nd.kind, outputs := nd.outputs, targets := nd.targets,
    fallback := nd.fallback }

/-- the contents hashed by the runs on `x = 1` (`f(1) = 2`, `gate(2)`) and `x = 7` (`f(7) = 8`, `gate(8)`) -/
def tblRC : List (Key × Name) :=
  [((identRC nfRC, [("x", .int 1)]), "kf1"), ((identRC ngRC, [("y", .int 2)]), "kg2"),
   ((identRC nfRC, [("x", .int 7)]), "kf7"), ((identRC ngRC, [("y", .int 8)]), "kg8")]

/-- every node's definition hash is its name; the toy hash is collision free at the four keys of `tblRC` -/
def envRC : KeyEnv := { defHash := fun nd => nd.name, hash := toyHash tblRC }

theorem gRC_nodes : gRC.nodes = [nfRC, ngRC, nsRC] := rfl

theorem plainCacheable_RC : PlainCacheable gRC := by
  intro nd h _
  rw [gRC_nodes] at h
  simp only [List.mem_cons, List.not_mem_nil, or_false] at h
  rcases h with rfl | rfl | rfl <;> decide

theorem cacheOK_RC : CacheOK (GP gRC) envRC (execPlain bodySem 0) := by
  apply cacheOK_plain
  · intro nd nd' i i' ⟨hm, hk⟩ ⟨hm', hk'⟩ hc hc' hkey
    rw [gRC_nodes] at hm hm'
    simp only [List.mem_cons, List.not_mem_nil, or_false] at hm hm'
    have hid : (identOf envRC nd).cls = (identOf envRC nd').cls := congrArg (·.1.cls) hkey
    have hin := congrArg Prod.snd hkey
    rcases hm with rfl | rfl | rfl <;> rcases hm' with rfl | rfl | rfl
    · obtain ⟨v, rfl⟩ := keys_singleton (a := "x") hk
      obtain ⟨v', rfl⟩ := keys_singleton (a := "x") hk'
      have : v = v' := by
        simpa [cacheKey, toParams, sortInputs, insertKV, nfRC, elabLeaf, fSpecRC, renameOf, AL.get?] using hin
      rw [this]
    · exact absurd hid (by decide)
    · exact absurd hc' (by decide)
    · exact absurd hid (by decide)
    · obtain ⟨v, rfl⟩ := keys_singleton (a := "y") hk
      obtain ⟨v', rfl⟩ := keys_singleton (a := "y") hk'
      have : v = v' := by
        simpa [cacheKey, toParams, sortInputs, insertKV, ngRC, elabLeaf, gateSpecRC, renameOf, AL.get?] using hin
      rw [this]
    · exact absurd hc' (by decide)
    · exact absurd hc (by decide)
    · exact absurd hc (by decide)
    · exact absurd hc (by decide)
  · intro nd h _
    rw [gRC_nodes] at h
    simp only [List.mem_cons, List.not_mem_nil, or_false] at h
    rcases h with rfl | rfl | rfl <;> decide

theorem noNoneDec_RC : NoNoneDec (GP gRC) (execPlain bodySem 0) := by
  apply noNoneDec_plain
  intro nd h _
  rw [gRC_nodes] at h
  simp only [List.mem_cons, List.not_mem_nil, or_false] at h
  rcases h with rfl | rfl | rfl <;> decide

/-- the nested-run callbacks of the top-level `run` on `progRC` -/
def nestedRC : Nested := nestedAt bodySem .sync progRC progRC.length

/-- the uncached sync run of `progRC` on `x = v` (this is `run bodySem .sync progRC 0 [("x", .int v)] {}`) -/
def runRC (v : Int) : RunOut := runGraph nestedRC bodySem .sync 0 gRC [("x", .int v)] {} ["r"] .none

theorem runRC_eq (v : Int) : runRC v = run bodySem .sync progRC 0 [("x", .int v)] {} := rfl

theorem injAt_tblRC (K : Key) (hK : K ∈ tblRC.map (·.1)) : InjAt envRC K :=
  toyHash_injAt _ tblRC (by decide) (by decide) K hK

/-- the keys that occur in the run on `x = 1` have no collision under `envRC` -/
theorem callsInj_RC1 : CallsInj envRC (GP gRC) 0 (callsOf (runRC 1).log) := by
  have hcalls : callsOf (runRC 1).log =
      [("0:f", [("x", .int 1)]), ("0:gate", [("y", .int 2)]), ("0:small", [("y", .int 2)])] := by decide
  rw [hcalls]
  intro nd i ⟨hm, _⟩ hc hmem
  rw [gRC_nodes] at hm
  simp only [List.mem_cons, List.not_mem_nil, or_false] at hm
  rcases hm with rfl | rfl | rfl
  · have hf : fnId 0 nfRC = "0:f" := by decide
    rw [hf] at hmem
    simp only [List.mem_cons, Prod.mk.injEq, List.not_mem_nil, or_false] at hmem
    rcases hmem with ⟨_, h⟩ | ⟨h, _⟩ | ⟨h, _⟩
    · rw [h]; exact injAt_tblRC _ (by decide)
    · exact absurd h (by decide)
    · exact absurd h (by decide)
  · have hf : fnId 0 ngRC = "0:gate" := by decide
    rw [hf] at hmem
    simp only [List.mem_cons, Prod.mk.injEq, List.not_mem_nil, or_false] at hmem
    rcases hmem with ⟨h, _⟩ | ⟨_, h⟩ | ⟨h, _⟩
    · exact absurd h (by decide)
    · rw [h]; exact injAt_tblRC _ (by decide)
    · exact absurd h (by decide)
  · exact absurd hc (by decide)

/-- the keys that occur in the run on `x = 7` have no collision under `envRC` -/
theorem callsInj_RC7 : CallsInj envRC (GP gRC) 0 (callsOf (runRC 7).log) := by
  have hcalls : callsOf (runRC 7).log = [("0:f", [("x", .int 7)]), ("0:gate", [("y", .int 8)])] := by decide
  rw [hcalls]
  intro nd i ⟨hm, _⟩ hc hmem
  rw [gRC_nodes] at hm
  simp only [List.mem_cons, List.not_mem_nil, or_false] at hm
  rcases hm with rfl | rfl | rfl
  · have hf : fnId 0 nfRC = "0:f" := by decide
    rw [hf] at hmem
    simp only [List.mem_cons, Prod.mk.injEq, List.not_mem_nil, or_false] at hmem
    rcases hmem with ⟨_, h⟩ | ⟨h, _⟩
    · rw [h]; exact injAt_tblRC _ (by decide)
    · exact absurd h (by decide)
  · have hf : fnId 0 ngRC = "0:gate" := by decide
    rw [hf] at hmem
    simp only [List.mem_cons, Prod.mk.injEq, List.not_mem_nil, or_false] at hmem
    rcases hmem with ⟨h, _⟩ | ⟨_, h⟩
    · exact absurd h (by decide)
    · rw [h]; exact injAt_tblRC _ (by decide)
  · exact absurd hc (by decide)

theorem gRC_names : (gRC.nodes.map (·.name)).Nodup := by decide

/-! ### a cacheable route gate that decides `None` -/

/-- `r(x)`: a cacheable route gate without fallback whose function always returns `None` -/
def rSpecNN : NodeSpec :=
  { name := "r", kind := .route, params := [("x", .none)], body := .table [] .none,
    targets := [.node "t"], cache := true }
/-- `t(x) → o`, the gate's only target (never activated) -/
def tSpecNN : NodeSpec :=
  { name := "t", kind := .fn, params := [("x", .none)], dataOuts := ["o"], body := .tag "t" }

def progNN : Program := elabProgram [{ name := "g", nodes := [rSpecNN, tSpecNN] }]
def gNN : GraphD := progNN.getD 0 default
def nrNN : NodeD := elabLeaf rSpecNN
def ntNN : NodeD := elabLeaf tSpecNN
def tblNN : List (Key × Name) := [((identRC nrNN, [("x", .int 1)]), "kr1")]
def envNN : KeyEnv := { defHash := fun nd => nd.name, hash := toyHash tblNN }
def nestedNN : Nested := nestedAt bodySem .sync progNN progNN.length
/-- the uncached sync run of `progNN` on `x = 1` -/
def runNN : RunOut := runGraph nestedNN bodySem .sync 0 gNN [("x", .int 1)] {} ["r"] .none

theorem gNN_nodes : gNN.nodes = [nrNN, ntNN] := rfl
theorem gNN_names : (gNN.nodes.map (·.name)).Nodup := by decide

theorem plainCacheable_NN : PlainCacheable gNN := by
  intro nd h _
  rw [gNN_nodes] at h
  simp only [List.mem_cons, List.not_mem_nil, or_false] at h
  rcases h with rfl | rfl <;> decide

theorem cacheOK_NN : CacheOK (GP gNN) envNN (execPlain bodySem 0) := by
  apply cacheOK_plain
  · intro nd nd' i i' ⟨hm, hk⟩ ⟨hm', hk'⟩ hc hc' hkey
    rw [gNN_nodes] at hm hm'
    simp only [List.mem_cons, List.not_mem_nil, or_false] at hm hm'
    have hin := congrArg Prod.snd hkey
    rcases hm with rfl | rfl <;> rcases hm' with rfl | rfl
    · obtain ⟨v, rfl⟩ := keys_singleton (a := "x") hk
      obtain ⟨v', rfl⟩ := keys_singleton (a := "x") hk'
      have : v = v' := by
        simpa [cacheKey, toParams, sortInputs, insertKV, nrNN, elabLeaf, rSpecNN, renameOf, AL.get?] using hin
      rw [this]
    · exact absurd hc' (by decide)
    · exact absurd hc (by decide)
    · exact absurd hc (by decide)
  · intro nd h _
    rw [gNN_nodes] at h
    simp only [List.mem_cons, List.not_mem_nil, or_false] at h
    rcases h with rfl | rfl <;> decide

theorem callsInj_NN : CallsInj envNN (GP gNN) 0 (callsOf runNN.log) := by
  have hcalls : callsOf runNN.log = [("0:r", [("x", .int 1)])] := by decide
  rw [hcalls]
  intro nd i ⟨hm, _⟩ hc hmem
  rw [gNN_nodes] at hm
  simp only [List.mem_cons, List.not_mem_nil, or_false] at hm
  rcases hm with rfl | rfl
  · simp only [List.mem_cons, Prod.mk.injEq, List.not_mem_nil, or_false] at hmem
    rw [hmem.2]
    exact toyHash_injAt _ tblNN (by decide) (by decide) _ (by decide)
  · exact absurd hc (by decide)

/-- the gate does decide `None`: `NoNoneDec` fails for this graph -/
theorem not_noNoneDec_NN : ¬ NoNoneDec (GP gNN) (execPlain bodySem 0) := by
  intro h
  exact h nrNN [("x", .int 1)] ⟨by rw [gNN_nodes]; simp, rfl⟩ (by decide) (by decide)

end Fixtures

end HG.Cache
